module verif

go 1.21
