module verif

go 1.21

require golang.org/x/tools v0.17.0

require golang.org/x/mod v0.14.0 // indirect
