package main

import (
	"flag"
	"fmt"
	"os"
	"strconv"

	"verif/fw"
)

func main() {
	if len(os.Args) < 2 {
		usage()
	}
	switch os.Args[1] {
	case "check":
		fs := flag.NewFlagSet("check", flag.ExitOnError)
		tier := fs.String("tier", "", "quick|thorough")
		repo := fs.String("repo", "/repo", "repository under test")
		verif := fs.String("verif", "", "verif directory")
		if len(os.Args) < 3 {
			usage()
		}
		prop := os.Args[2]
		fs.Parse(os.Args[3:])
		if *tier == "" {
			*tier = os.Getenv("VERIF_TIER")
		}
		if *tier == "" {
			*tier = "quick"
		}
		if *verif == "" {
			wd, _ := os.Getwd()
			*verif = wd
		}
		seed := int64(1)
		if s := os.Getenv("VERIF_SEED"); s != "" {
			if n, err := strconv.ParseInt(s, 10, 64); err == nil {
				seed = n
			}
		}
		f, ok := fw.Checks[prop]
		if !ok {
			fmt.Fprintln(os.Stderr, "unknown property", prop)
			os.Exit(2)
		}
		e, err := fw.NewEnv(*repo, *verif, *tier, seed)
		if err != nil {
			fmt.Println("INCONCLUSIVE property=" + prop + " framework: " + err.Error())
			os.Exit(2)
		}
		code := f(e)
		e.Close()
		os.Exit(code)
	case "warm":
		wd, _ := os.Getwd()
		e, err := fw.NewEnv("/repo", wd, "quick", 1)
		if err != nil {
			fmt.Fprintln(os.Stderr, "warm:", err)
			os.Exit(2)
		}
		fw.Warm(e)
		e.Close()
	case "replay":
		if len(os.Args) < 3 {
			usage()
		}
		os.Exit(fw.Replay(os.Args[2]))
	default:
		usage()
	}
}

func usage() {
	fmt.Fprintln(os.Stderr, "usage: verif check <Cnn> [--tier quick|thorough] | verif replay <path>")
	os.Exit(2)
}
