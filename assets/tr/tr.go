// Package tr is the trace runtime that the verification framework copies into
// every module it renders. Providers, drivers and value homes written by the
// renderer call into it; it records one JSON event per line. Std only.
package tr

import (
	"bufio"
	"encoding/json"
	"fmt"
	"os"
	"reflect"
	"sort"
	"strconv"
	"strings"
	"sync"
	"unsafe"
)

// ID is the identity carried by every produced value.
type ID int64

var (
	mu      sync.Mutex
	nextID  ID = 1
	seq     int64
	out     *bufio.Writer
	outFile *os.File
	pending []map[string]interface{} // events before Open (package init time)
	chans   = map[uintptr]ID{}
	homes   = map[string]interface{}{}
	keep    []interface{}

	curProg string
	curCall int64
	callCtr int64
	plan    string // key that must fail in the current call ("" = none)
	errCtr  int64
	callEvs int64 // events of the current call (runaway guard)
)

// maxCallEvents bounds the events one injector call may produce: generated code that recurses
// without end (a cleanup that calls itself) is cut off here and recorded as a panic of that call
// instead of filling the disk until the stack overflows.
const maxCallEvents = 200000

// New returns a fresh identity.
func New() ID {
	mu.Lock()
	defer mu.Unlock()
	id := nextID
	nextID++
	return id
}

// S spells an identity as a string carrier.
func S(id ID) string { return "id:" + strconv.FormatInt(int64(id), 10) }

// Ptr returns a pointer to a copy of v.
func Ptr[T any](v T) *T { return &v }

// Chan makes a channel that carries identity id (by registry).
func Chan[T any](id ID) chan T {
	c := make(chan T, 1)
	mu.Lock()
	chans[reflect.ValueOf(c).Pointer()] = id
	mu.Unlock()
	return c
}

// Err is the unique error a failing provider returns.
type Err struct {
	Key string
	N   int64
}

func (e *Err) Error() string { return fmt.Sprintf("tr: injected failure %d at %s", e.N, e.Key) }

func emit(ev map[string]interface{}) {
	mu.Lock()
	defer mu.Unlock()
	seq++
	ev["seq"] = seq
	if curProg != "" {
		ev["prog"] = curProg
	}
	if curCall != 0 {
		ev["call"] = curCall
		callEvs++
		if callEvs == maxCallEvents+1 {
			panic("tr: runaway injector call: more than 200000 events (endless recursion in generated code?)")
		}
	}
	if out == nil {
		pending = append(pending, ev)
		return
	}
	b, err := json.Marshal(ev)
	if err != nil {
		b, _ = json.Marshal(map[string]interface{}{"ev": "marshal_error", "err": err.Error(), "seq": seq})
	}
	out.Write(b)
	out.WriteByte('\n')
}

// Open starts recording into the file named by VERIF_TRACE.
func Open() {
	path := os.Getenv("VERIF_TRACE")
	if path == "" {
		path = "trace.jsonl"
	}
	f, err := os.Create(path)
	if err != nil {
		fmt.Fprintln(os.Stderr, "tr: cannot open trace:", err)
		os.Exit(3)
	}
	mu.Lock()
	outFile = f
	out = bufio.NewWriterSize(f, 1<<20)
	p := pending
	pending = nil
	mu.Unlock()
	for _, ev := range p {
		b, _ := json.Marshal(ev)
		out.Write(b)
		out.WriteByte('\n')
	}
}

// Close flushes the trace.
func Close() {
	emit(map[string]interface{}{"ev": "end"})
	mu.Lock()
	defer mu.Unlock()
	if out != nil {
		out.Flush()
		outFile.Close()
	}
}

// ---------------------------------------------------------------------------
// Descriptors

// D describes a value: identity, structure, addresses.
type D struct {
	K    string `json:"k"`
	ID   int64  `json:"id,omitempty"`
	Addr uint64 `json:"addr,omitempty"`
	T    string `json:"t,omitempty"`
	V    string `json:"v,omitempty"`
	F    []DF   `json:"f,omitempty"`
	E    []*D   `json:"e,omitempty"`
}

// DF is one struct field (or map entry) of a descriptor.
type DF struct {
	N    string `json:"n"`
	Addr uint64 `json:"addr,omitempty"`
	D    *D     `json:"d"`
}

// Desc computes the descriptor of any value.
func Desc(v interface{}) *D {
	if v == nil {
		return &D{K: "zero", T: "nil"}
	}
	rv := reflect.ValueOf(v)
	cp := reflect.New(rv.Type()).Elem()
	cp.Set(rv)
	d := desc(cp, 0, false)
	d.T = rv.Type().String()
	return d
}

// access returns a fully accessible view of an addressable value even when it
// was reached through an unexported field.
func access(rv reflect.Value) reflect.Value {
	if rv.CanInterface() || !rv.CanAddr() {
		return rv
	}
	return reflect.NewAt(rv.Type(), unsafe.Pointer(rv.UnsafeAddr())).Elem()
}

func desc(rv reflect.Value, depth int, inMem bool) *D {
	rv = access(rv)
	if depth > 12 {
		return &D{K: "deep"}
	}
	if !rv.IsValid() {
		return &D{K: "zero"}
	}
	switch rv.Kind() {
	case reflect.Interface:
		if rv.IsNil() {
			return &D{K: "zero"}
		}
		return descIface(rv.Elem(), depth+1)
	case reflect.Ptr:
		if rv.IsNil() {
			return &D{K: "zero"}
		}
		return &D{K: "ptr", Addr: uint64(rv.Pointer()), E: []*D{desc(rv.Elem(), depth+1, true)}}
	}
	if rv.IsZero() && !(inMem && rv.Kind() == reflect.Struct) {
		return &D{K: "zero"}
	}
	switch rv.Kind() {
	case reflect.Struct:
		return descStruct(rv, depth, inMem)
	case reflect.Int, reflect.Int8, reflect.Int16, reflect.Int32, reflect.Int64:
		return &D{K: "id", ID: rv.Int()}
	case reflect.Uint, reflect.Uint8, reflect.Uint16, reflect.Uint32, reflect.Uint64, reflect.Uintptr:
		return &D{K: "id", ID: int64(rv.Uint())}
	case reflect.Float32, reflect.Float64:
		return &D{K: "id", ID: int64(rv.Float())}
	case reflect.Complex64, reflect.Complex128:
		return &D{K: "id", ID: int64(real(rv.Complex()))}
	case reflect.String:
		s := rv.String()
		if strings.HasPrefix(s, "id:") {
			if n, err := strconv.ParseInt(s[3:], 10, 64); err == nil {
				return &D{K: "id", ID: n}
			}
		}
		return &D{K: "str", V: s}
	case reflect.Bool:
		return &D{K: "bool", V: "true"}
	case reflect.Slice, reflect.Array:
		d := &D{K: "list"}
		if rv.Kind() == reflect.Slice {
			d.Addr = uint64(rv.Pointer())
		}
		n := rv.Len()
		if n > 8 {
			n = 8
		}
		for i := 0; i < n; i++ {
			d.E = append(d.E, desc(rv.Index(i), depth+1, inMem || rv.Kind() == reflect.Slice))
		}
		return d
	case reflect.Map:
		d := &D{K: "map", Addr: uint64(rv.Pointer())}
		keys := rv.MapKeys()
		var fs []DF
		for _, k := range keys {
			fs = append(fs, DF{N: fmt.Sprint(printable(k)), D: descIface(rv.MapIndex(k), depth+1)})
		}
		sort.Slice(fs, func(i, j int) bool { return fs[i].N < fs[j].N })
		d.F = fs
		return d
	case reflect.Func:
		d := &D{K: "func", Addr: uint64(rv.Pointer())}
		t := rv.Type()
		if t.NumIn() == 0 && t.NumOut() == 1 && rv.CanInterface() {
			func() {
				defer func() { recover() }()
				res := rv.Call(nil)
				d.E = []*D{descIface(res[0], depth+1)}
			}()
		}
		return d
	case reflect.Chan:
		mu.Lock()
		id, ok := chans[rv.Pointer()]
		mu.Unlock()
		if ok {
			return &D{K: "id", ID: int64(id), Addr: uint64(rv.Pointer())}
		}
		return &D{K: "chan", Addr: uint64(rv.Pointer())}
	case reflect.UnsafePointer:
		return &D{K: "uptr", Addr: uint64(rv.Pointer())}
	}
	return &D{K: "opaque", V: rv.Kind().String()}
}

func printable(k reflect.Value) interface{} {
	switch k.Kind() {
	case reflect.String:
		return k.String()
	case reflect.Int, reflect.Int8, reflect.Int16, reflect.Int32, reflect.Int64:
		return k.Int()
	}
	return fmt.Sprintf("%v", k)
}

// descIface describes a non-addressable value by copying it first.
func descIface(rv reflect.Value, depth int) *D {
	if !rv.IsValid() {
		return &D{K: "zero"}
	}
	if !rv.CanInterface() {
		// cannot copy a value reached through an unexported path; describe in place
		return desc(rv, depth, false)
	}
	cp := reflect.New(rv.Type()).Elem()
	cp.Set(rv)
	return desc(cp, depth, false)
}

// descStruct describes a struct; field addresses are recorded only when the
// struct lives in inMem (pointed-to) memory.
func descStruct(rv reflect.Value, depth int, inMem bool) *D {
	if depth > 12 {
		return &D{K: "deep"}
	}
	d := &D{K: "struct"}
	allZero := true
	t := rv.Type()
	for i := 0; i < rv.NumField(); i++ {
		f := rv.Field(i)
		name := t.Field(i).Name
		if name == "ID_" && i == 0 && f.Kind() == reflect.Int64 {
			d.ID = f.Int()
			if d.ID != 0 {
				allZero = false
			}
			continue
		}
		if inMem && name == "Scratch_" {
			// a scratch field of a struct reached through a pointer: whoever holds the
			// pointer may have written to it; only copies (struct values) are compared
			continue
		}
		fd := desc(f, depth+1, inMem)
		if fd.K != "zero" && fd.V != "zero" {
			allZero = false
		}
		df := DF{N: name, D: fd}
		if inMem && f.CanAddr() {
			df.Addr = uint64(f.Addr().Pointer())
		}
		d.F = append(d.F, df)
	}
	if allZero && !inMem {
		return &D{K: "zero"}
	}
	if allZero {
		d.V = "zero"
	}
	return d
}

func descs(vs []interface{}) []*D {
	r := make([]*D, len(vs))
	for i, v := range vs {
		r[i] = Desc(v)
	}
	return r
}

// ---------------------------------------------------------------------------
// Provider side

// Fail reports whether the provider with the given model key must fail in
// the current call; if so it logs prov_fail and returns a unique error.
func Fail(key string, ins ...interface{}) error {
	mu.Lock()
	p := plan
	mu.Unlock()
	if p == "" || p != key {
		return nil
	}
	mu.Lock()
	errCtr++
	e := &Err{Key: key, N: errCtr}
	mu.Unlock()
	emit(map[string]interface{}{"ev": "prov_fail", "key": key, "in": descs(ins), "err": e.N})
	return e
}

// Poison is the cleanup a failing provider returns; nobody may call it.
func Poison(key string) func() {
	return func() { emit(map[string]interface{}{"ev": "poison", "key": key}) }
}

// Prov logs a successful provider call.
func Prov(key string, outv interface{}, ins ...interface{}) {
	emit(map[string]interface{}{"ev": "prov", "key": key, "out": Desc(outv), "in": descs(ins)})
}

// Cleanup returns the cleanup function of provider key.
func Cleanup(key string) func() {
	return func() { emit(map[string]interface{}{"ev": "cleanup", "key": key}) }
}

// Home records the value of a wire.Value expression evaluated in its home
// package. It returns v so it can be used in a var initialiser.
func Home(key string, v interface{}) bool {
	mu.Lock()
	homes[key] = v
	mu.Unlock()
	emit(map[string]interface{}{"ev": "value_home", "key": key, "d": Desc(v)})
	return true
}

// SameAsHome logs whether v is deeply equal to the home evaluation of key.
func SameAsHome(key string, v interface{}) {
	mu.Lock()
	h, ok := homes[key]
	mu.Unlock()
	eq := ok && reflect.DeepEqual(h, v)
	if eq && h != nil && v != nil {
		// equal elements are not the whole slice: its capacity decides what append does
		a, b := reflect.ValueOf(h), reflect.ValueOf(v)
		if a.Kind() == reflect.Slice && b.Kind() == reflect.Slice && a.Cap() != b.Cap() {
			eq = false
		}
	}
	if ok && h != nil && v != nil {
		// function values are compared by what they return (parameterless ones)
		a, b := reflect.ValueOf(h), reflect.ValueOf(v)
		if a.Kind() == reflect.Func && a.Type() == b.Type() && a.Type().NumIn() == 0 && !a.IsNil() && !b.IsNil() {
			ra, rb := a.Call(nil), b.Call(nil)
			eq = len(ra) == len(rb)
			for i := range ra {
				if eq && !reflect.DeepEqual(ra[i].Interface(), rb[i].Interface()) {
					eq = false
				}
			}
		}
	}
	same := false
	if ok && h != nil && v != nil {
		a, b := reflect.ValueOf(h), reflect.ValueOf(v)
		if a.Type() == b.Type() {
			switch a.Kind() {
			case reflect.Ptr, reflect.Map, reflect.Chan, reflect.Func, reflect.Slice, reflect.UnsafePointer:
				same = a.Pointer() == b.Pointer()
			}
		}
	}
	emit(map[string]interface{}{"ev": "home_cmp", "key": key, "known": ok, "deep_equal": eq, "same_ptr": same, "d": Desc(v), "home": Desc(h)})
}

// Note logs a free-form observation (used by behaviour probes).
func Note(kind, name string, vals ...interface{}) {
	var ss []string
	for _, v := range vals {
		ss = append(ss, fmt.Sprintf("%#v", v))
	}
	emit(map[string]interface{}{"ev": "note", "kind": kind, "name": name, "vals": ss})
}

// ---------------------------------------------------------------------------
// Driver side

// Call is one invocation of an injector by the driver.
type Call struct {
	Inj  string
	Plan string
}

// Injector runs body under the fault schedule: no fault, each single fault
// point, then an alternating sequence.
func Injector(prog, inj string, faultKeys []string, body func(c *Call)) {
	plans := []string{""}
	plans = append(plans, faultKeys...)
	if len(faultKeys) > 0 {
		k1, k2 := faultKeys[0], faultKeys[len(faultKeys)-1]
		plans = append(plans, "", k1, "", k2, k2, "")
	} else {
		plans = append(plans, "")
	}
	for _, p := range plans {
		runCall(prog, inj, p, body)
	}
}

func runCall(prog, inj, p string, body func(c *Call)) {
	mu.Lock()
	callCtr++
	curCall = callCtr
	curProg = prog
	plan = p
	callEvs = 0
	mu.Unlock()
	c := &Call{Inj: inj, Plan: p}
	emit(map[string]interface{}{"ev": "call_begin", "inj": inj, "plan": p})
	func() {
		defer func() {
			if r := recover(); r != nil {
				emit(map[string]interface{}{"ev": "panic", "inj": inj, "msg": fmt.Sprint(r)})
			}
		}()
		body(c)
	}()
	emit(map[string]interface{}{"ev": "call_end", "inj": inj})
	mu.Lock()
	curCall = 0
	curProg = ""
	plan = ""
	if out != nil {
		out.Flush()
	}
	mu.Unlock()
}

// Enter logs the injector's arguments.
func (c *Call) Enter(args ...interface{}) {
	keepAlive(args...)
	emit(map[string]interface{}{"ev": "inj_enter", "inj": c.Inj, "args": descs(args)})
}

// Ret logs what the injector returned. hasCu/hasErr say whether the injector
// declares those results; cuNil whether the returned cleanup was nil.
// resPtr points to the driver's typed result variable, so that zero-ness is decided for the
// declared result type (an interface result holding a typed nil pointer is NOT zero).
func (c *Call) Ret(resPtr interface{}, hasCu, cuNil, hasErr bool, err error) {
	rv := reflect.ValueOf(resPtr).Elem()
	var res interface{}
	if rv.CanInterface() {
		res = rv.Interface()
	}
	keepAlive(res)
	ev := map[string]interface{}{"ev": "inj_ret", "inj": c.Inj, "res": Desc(res), "has_cu": hasCu, "cu_nil": cuNil, "has_err": hasErr}
	isZero := rv.IsZero()
	ev["is_zero"] = isZero
	if err != nil {
		if e, ok := err.(*Err); ok {
			ev["err"] = e.N
		} else {
			ev["err"] = -1
			ev["err_text"] = err.Error()
		}
	}
	emit(ev)
}

// CuInvoke / CuDone bracket the driver's call of the aggregated cleanup.
func (c *Call) CuInvoke() { emit(map[string]interface{}{"ev": "cu_invoke", "inj": c.Inj}) }
func (c *Call) CuDone()   { emit(map[string]interface{}{"ev": "cu_done", "inj": c.Inj}) }

func keepAlive(vs ...interface{}) {
	mu.Lock()
	keep = append(keep, vs...)
	mu.Unlock()
}

// Main runs the given scenario functions and writes the trace.
func Main(scenarios ...func()) {
	Open()
	for _, s := range scenarios {
		s()
	}
	Close()
}
