#!/bin/bash
# usage: [SEEDROOT=seed2] import_seed.sh <PROP> <name> "<needs>"
# Verifies the agent's demo with and without its own demo/patch.diff applied to a clean worktree
# (no git stash: the stash stack is shared between worktrees), then copies patch + demo to /verif/seeded/<name>/.
export GOFLAGS=-mod=mod GOPROXY=off GOSUMDB=off GOTOOLCHAIN=local
p=$1; name=$2; needs=$3
w=/tmp/${SEEDROOT:-seed}/$p
d=/verif/seeded/$name
[ -f $w/demo/patch.diff ] || { echo "no demo/patch.diff in $w"; exit 2; }
cp $w/demo/patch.diff /tmp/$name.patch
( cd $w && git checkout -q -- . && bash demo/run.sh >/dev/null 2>&1 ); without=$?
( cd $w && git apply /tmp/$name.patch && bash demo/run.sh >/dev/null 2>&1 ); with=$?
echo "$name: demo with patch exit=$with, without exit=$without"
if [ $with -eq 0 ] || [ $without -ne 0 ]; then echo "NOT VERIFIED"; exit 1; fi
mkdir -p $d
cp /tmp/$name.patch $d/patch.diff
cp $w/demo/run.sh $d/demo_run.sh
python3 - "$d" "$p" "$name" "$needs" <<'PY'
import json,sys
d,p,name,needs=sys.argv[1:5]
json.dump({"id":name,"origin":"independent sub-agent given only the property text and a scratch worktree","breaks":p,"needs_to_manifest":needs,
 "verified":"demo_run.sh exits non-zero with patch.diff applied to a clean worktree and 0 without it (run by scripts/import_seed.sh); suite comparison and check results are produced by scripts/try_mutant.sh"},open(d+'/meta.json','w'),indent=1)
PY
echo imported $name
