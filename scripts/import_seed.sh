#!/bin/bash
# usage: import_seed.sh <PROP> <name> "<needs>"  — copies /tmp/seed/<PROP>/demo/{patch.diff,run.sh} into /verif/seeded/<name>/
p=$1; name=$2; needs=$3
d=/verif/seeded/$name
mkdir -p $d
( cd /tmp/seed/$p && git diff -- . ':(exclude)demo' ) > $d/patch.diff
cp /tmp/seed/$p/demo/run.sh $d/demo_run.sh
python3 - "$d" "$p" "$name" "$needs" <<'PY'
import json,sys
d,p,name,needs=sys.argv[1:5]
json.dump({"id":name,"origin":"independent sub-agent given only the property text and a scratch worktree","breaks":p,"needs_to_manifest":needs,
 "verified":"demo_run.sh exits non-zero with the patch and 0 without it (run by me in the agent's worktree); suite comparison and check results are recorded by scripts/try_mutant.sh"},open(d+'/meta.json','w'),indent=1)
PY
echo imported $name
