#!/bin/bash
# Runs the repository's pinned suite with the verif guard OFF and compares with
# the stable-pass list of /root/.vp/BASELINE.json. Exit 0 iff every stable-pass test passes.
export GOFLAGS=-mod=mod GOPROXY=off GOSUMDB=off GOTOOLCHAIN=local
cd /repo || exit 2
out=$(mktemp)
go test -mod=mod -json -vet=off -count=1 -timeout 25m ./... > "$out" 2>/dev/null
python3 - "$out" <<'PY'
import json,sys
passed=set()
for line in open(sys.argv[1]):
    try: d=json.loads(line)
    except Exception: continue
    if d.get('Action')=='pass' and d.get('Test'):
        passed.add(d['Package']+'::'+d['Test'])
base=json.load(open('/root/.vp/BASELINE.json'))
want=set(base['stable_pass'])
missing=sorted(want-passed)
print("stable_pass expected=%d passing_now=%d missing=%d"%(len(want),len(want&passed),len(missing)))
for m in missing[:20]: print("MISSING",m)
sys.exit(1 if missing else 0)
PY
rc=$?
rm -f "$out"
exit $rc
