#!/bin/bash
# usage: sweep.sh <tier> <seed>...   — runs every check at the given seeds; prints one line per run.
export GOFLAGS=-mod=mod GOPROXY=off GOSUMDB=off GOTOOLCHAIN=local
tier=$1; shift
[ -x bin/verif ] || go build -o bin/verif ./cmd/verif || exit 2
for s in "$@"; do
  for c in C01 C02 C03 C04 C05 C06 C07 C08 C09 C10 C11 C12 C13 C14 C15 C16 C17 C18 C19 C20; do
    out=$(VERIF_SEED=$s bin/verif check $c --tier $tier 2>&1); rc=$?
    echo "seed=$s $c rc=$rc $(echo "$out" | grep SUMMARY | cut -c1-200)"
    echo "$out" | grep "^VIOLATION\|^INCONCLUSIVE" | head -5 | cut -c1-300
  done
done
