#!/usr/bin/env python3
"""Regenerates /verif/MANIFEST.json from the table below (kept in one place so that
claims, levels and notes stay consistent)."""
import json, subprocess, sys

ENV = "GOFLAGS=-mod=mod GOPROXY=off GOSUMDB=off GOTOOLCHAIN=local"

def hook_commits():
    try:
        out = subprocess.check_output(["git", "-C", "/repo", "log", "--format=%H %s"], text=True)
    except Exception:
        return []
    return [l.split()[0] for l in out.splitlines() if " verif:" in " " + l]

CHECKS = {
 "C01": ("exploration", "6 C01",
   "Generated well-formed programs (stratified random DAGs over every source kind, 1-4 packages, nested sets, 1-5 injectors) plus the full result-kind x result-shape matrix and cross-package accessibility probes are run through the real `wire gen`, then compiled under default tags with a typed function-variable assignment per injector and parsed back. Holds on every explored program; says nothing about shapes the generator cannot produce.",
   "go build is the compile oracle; the reference model decides which programs are well-formed; the driver's typed assignment pins the signature",
   "runtime monitoring: compile-and-link oracle over generated programs"),
 "C02": ("exploration", "6 C02",
   "Every injector of every generated program is executed with fresh argument identities; an offline checker compares each provider's logged input identities/addresses, call counts and the returned identity with a reference model computed from the Spec. Exploration over thousands of injector calls; not exhaustive.",
   "identities are carried by values (tr runtime, reflection); the reference model (fw/model.go) is trusted as the definition of 'the source of a type'",
   "runtime monitoring: offline trace checker with unique value identities against a reference model"),
 "C03": ("fault_enumeration", "6 C03",
   "Every error-capable provider of every explored injector is made to fail in turn (single faults enumerated, compiled into the providers as a fault plan) plus alternating ok/fail call sequences; the event log of each call is checked for: very same error value, zero result, nil cleanup, no later provider, exact reverse unwinding, no poison cleanup.",
   "double faults cannot occur (the injector returns at the first); the fault plan lives in the generated providers, not in wire",
   "runtime monitoring: fault injection in generated providers + offline event-log checker"),
 "C04": ("exploration", "6 C04",
   "Success-path executions of injectors with 0..10 cleanup providers (random graphs, chains, diamonds, cleanups interleaved with struct/field/value steps): the log must show no cleanup before the caller invokes the returned function and then each acquired cleanup once, in reverse acquisition order and before anything it was built from.",
   "order is read from the log's own acquisition order, so any valid topological order wire picks is accepted",
   "runtime monitoring: offline event-log ordering checker"),
 "C05": ("exploration", "6 C05",
   "Enumerated matrix of every feasible pair of the nine source kinds providing identical types x placement (direct, nested, siblings, other package, unused set variable under `wire check`, unneeded part) x type-identity form, each with an accepted control twin; oracle on exit status, absence of wire_gen.go and a 'multiple bindings' diagnostic naming the type.",
   "only the fragments 'multiple bindings' and the type string are relied on in diagnostics",
   "runtime monitoring: black-box oracle over an enumerated input matrix with control twins"),
 "C06": ("exploration", "6 C06",
   "Each needed source of generated accepted programs is removed in turn (leaf, interior, argument, behind a binding, parent of a field selection, other package) plus a near-miss matrix (T vs *T, implementation vs interface, named vs underlying, alias); oracle: no output and a 'no provider found' / binding-without-provider diagnostic naming a missing type; unmutated twins must be accepted.",
   "the reference model decides which types become missing",
   "runtime monitoring: mutation of accepted inputs with a reference-model oracle"),
 "C07": ("exploration", "6 C07",
   "Exhaustive over all labelled digraphs (self-loops included) on <=3 nodes (quick) / <=4 nodes (thorough), random mixed-edge-kind graphs, lassos, disjoint components; cyclic <=> rejected with a cycle diagnostic by both gen and check. Termination and path-independence are decided on loop-iteration counts from hooks in solve() and verifyAcyclic(): a hard step cap (process exits 96) and a linear budget on lattices with 2^d paths, long chains and wide fan-out.",
   "'terminates on every input' is claimed only as bounded progress on the explored inputs; needs the verif build tag for the step counts (black-box verdicts remain without it)",
   "runtime monitoring: exhaustive small-graph enumeration + hooked step counters"),
 "C08": ("exploration", "6 C08",
   "Accepted generated programs are extended by one superfluous direct wire.Build item of each kind; oracle: rejection with an 'unused' diagnostic. Controls: the unextended program and programs whose items are used only indirectly (nested set, pointer form, binding, field selection) must be accepted.",
   "a partially used direct multi-name FieldsOf is a no-claim zone (wire's unit is the field)",
   "runtime monitoring: mutation of accepted inputs with control twins"),
 "C09": ("exploration", "6 C09",
   "Enumerates provider and injector result lists of length 0..4 over five kinds (781 shapes in thorough; all of length<=3 plus a seeded sample of length 4 in quick) x placement, injector-shape x provider-needs x depth, duplicate parameter types at every position pair, duplicate struct field types by name / '*' / behind wire:\"-\"; oracle is a 12-line rule table.",
   "illegal injector result lists are expected to be rejected too (they cannot be implemented)",
   "runtime monitoring: enumerated shape space against a reference rule table"),
 "C11": ("exploration", "6 C11",
   "Matrix receivers x bound form x interface flavour x source of the concrete type x consumer counts; legal cells are executed and every consumer of the interface must receive the identity and pointer the consumers of the concrete type saw, with the source running once; illegal cells and negatives (missing method, non-interface, self-binding, concrete not provided in the set) must be rejected.",
   "method sets are computed from the Spec",
   "runtime monitoring: executed matrix with identity/address trace checks + rejection oracle"),
 "C12": ("exploration", "6 C12",
   "Struct palettes (exported, unexported, embedded, tagged, case-twin, pointer fields): every subset of names x {S,*S}, '*' x prevented subsets, FieldsOf every subset x parent form x parent source x consumer form, same- and cross-package; executed with reflective dumps: named fields carry their source's identity, others zero, fresh address per call, pointer-to-field aliases the field; unknown, case-different and prevented names must be rejected.",
   "reflection reads unexported fields; promoted (embedded-through) names are not claimed",
   "runtime monitoring: reflective state dumps checked against the Spec"),
}

PENDING = {
 "C10": "check under construction in this session (variants/transforms of generated programs)",
 "C13": "check under construction in this session (value-expression grammar)",
 "C14": "check under construction in this session (adversarial naming)",
 "C15": "check under construction in this session (copied declarations)",
 "C16": "check under construction in this session (determinism across layouts)",
 "C17": "check under construction in this session (CLI contract)",
 "C18": "check under construction in this session (regeneration histories)",
 "C19": "check under construction in this session (check/show agreement)",
 "C20": "check under construction in this session (argument-form space)",
}

def main():
    claimed = sys.argv[1:] if len(sys.argv) > 1 else sorted(CHECKS)
    checks = []
    for pid in sorted(CHECKS):
        if pid not in claimed:
            continue
        level, ref, text, note, tech = CHECKS[pid]
        checks.append({
            "property_id": pid,
            "quick_cmd": f"{ENV} bin/verif check {pid} --tier quick",
            "thorough_cmd": f"{ENV} bin/verif check {pid} --tier thorough",
            "evidence_file": f"/verif/evidence/{pid}.json",
            "replay_cmd_template": f"{ENV} bin/verif replay {{path}}",
            "engine": "verif",
            "level_claimed": {"category": level, "text": text, "design_ref": "DESIGN.md section " + ref},
            "level_note": note,
            "technique": tech,
        })
    na = [{"property_id": k, "reason": v} for k, v in sorted(PENDING.items()) if k not in CHECKS]
    m = {
        "version": 1,
        "setup_cmd": f"cd /verif && {ENV} go build -o bin/verif ./cmd/verif && {ENV} bin/verif warm",
        "hooks": {
            "guard": "verif",
            "enable": "go build -tags verif -o <scratch>/wire ./cmd/wire (done by every check from /repo's working tree)",
            "baseline_off_cmd": "/verif/scripts/baseline_off.sh",
            "source_commits": hook_commits(),
            "add_only": True,
        },
        "engines": [{"name": "verif", "path": "/verif/bin/verif", "serves_properties": sorted(c["property_id"] for c in checks),
                     "kind_free_text": "Go driver: renders programs from a Spec, runs the real wire binary built from /repo, executes the generated code with a trace runtime, checks logs/exit codes/file trees offline against a reference model"}],
        "checks": checks,
        "not_applicable": na,
        "notes": "Every check rebuilds wire from /repo's working tree (with -tags verif, falling back to an untagged build). VERIF_SEED seeds all random choices; case lists are fixed by tier and seed. Exit 0 held / 1 VIOLATION / 2 inconclusive (nothing observed or framework failure).",
    }
    json.dump(m, open("/verif/MANIFEST.json", "w"), indent=1)
    print("wrote MANIFEST.json with", len(checks), "checks,", len(na), "not_applicable")

main()
