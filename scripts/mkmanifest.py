#!/usr/bin/env python3
"""Regenerates /verif/MANIFEST.json from the table below (kept in one place so that
claims, levels and notes stay consistent)."""
import json, subprocess, sys

ENV = "GOFLAGS=-mod=mod GOPROXY=off GOSUMDB=off GOTOOLCHAIN=local"

def hook_commits():
    try:
        out = subprocess.check_output(["git", "-C", "/repo", "log", "--format=%H %s"], text=True)
    except Exception:
        return []
    return [l.split()[0] for l in out.splitlines() if l.split(" ", 1)[1].startswith(("verif:", "verif hook:"))]

CHECKS = {
 "C01": ("exploration", "6 C01",
   "Generated well-formed programs (stratified random DAGs over every source kind, 1-4 packages, nested sets, 1-5 injectors) plus the full result-kind x result-shape matrix and cross-package accessibility probes are run through the real `wire gen`, then compiled under default tags with a typed function-variable assignment per injector and parsed back. Holds on every explored program; says nothing about shapes the generator cannot produce.",
   "go build is the compile oracle; the reference model decides which programs are well-formed; the driver's typed assignment pins the signature",
   "runtime monitoring: compile-and-link oracle over generated programs"),
 "C02": ("exploration", "6 C02",
   "Every injector of every generated program is executed with fresh argument identities; an offline checker compares each provider's logged input identities/addresses, call counts and the returned identity with a reference model computed from the Spec. Exploration over thousands of injector calls; not exhaustive.",
   "identities are carried by values (tr runtime, reflection); the reference model (fw/model.go) is trusted as the definition of 'the source of a type'",
   "runtime monitoring: offline trace checker with unique value identities against a reference model"),
 "C03": ("fault_enumeration", "6 C03",
   "Every error-capable provider of every explored injector is made to fail in turn (single faults enumerated, compiled into the providers as a fault plan) plus alternating ok/fail call sequences; the event log of each call is checked for: very same error value, zero result, nil cleanup, no later provider, exact reverse unwinding, no poison cleanup.",
   "double faults cannot occur (the injector returns at the first); the fault plan lives in the generated providers, not in wire",
   "runtime monitoring: fault injection in generated providers + offline event-log checker"),
 "C04": ("exploration", "6 C04",
   "Success-path executions of injectors with 0..10 cleanup providers (random graphs, chains, diamonds, cleanups interleaved with struct/field/value steps): the log must show no cleanup before the caller invokes the returned function and then each acquired cleanup once, in reverse acquisition order and before anything it was built from.",
   "order is read from the log's own acquisition order, so any valid topological order wire picks is accepted",
   "runtime monitoring: offline event-log ordering checker"),
 "C05": ("exploration", "6 C05",
   "Enumerated matrix of every feasible pair of the nine source kinds providing identical types x placement (direct, nested, siblings, other package, unused set variable under `wire check`, unneeded part) x type-identity form, each with an accepted control twin; oracle on exit status, absence of wire_gen.go and a 'multiple bindings' diagnostic naming the type.",
   "only the fragments 'multiple bindings' and the type string are relied on in diagnostics",
   "runtime monitoring: black-box oracle over an enumerated input matrix with control twins"),
 "C06": ("exploration", "6 C06",
   "Each needed source of generated accepted programs is removed in turn (leaf, interior, argument, behind a binding, parent of a field selection, other package) pairs of sources are removed too, plus a near-miss matrix (T vs *T, implementation vs interface, named vs underlying, alias) and an exhaustive family of small graphs with two unprovided types under every parameter order; oracle: no output and a 'no provider found' / binding-without-provider diagnostic naming EVERY type the model finds missing at the stage wire stops at; unmutated twins must be accepted.",
   "the reference model decides which types become missing",
   "runtime monitoring: mutation of accepted inputs with a reference-model oracle"),
 "C07": ("exploration", "6 C07",
   "Exhaustive over all labelled digraphs (self-loops included) on <=3 nodes (quick) / <=4 nodes (thorough), random mixed-edge-kind graphs, lassos, disjoint components; cyclic <=> rejected with a cycle diagnostic by both gen and check. Termination and path-independence are decided on loop-iteration counts from hooks in solve() and verifyAcyclic(): a hard step cap (process exits 96) and a linear budget on lattices with 2^d paths built from function parameters, struct-provider fields, interface bindings and field providers, long chains and wide fan-out.",
   "'terminates on every input' is claimed only as bounded progress on the explored inputs; needs the verif build tag for the step counts (black-box verdicts remain without it)",
   "runtime monitoring: exhaustive small-graph enumeration + hooked step counters"),
 "C08": ("exploration", "6 C08",
   "Accepted generated programs are extended by one superfluous direct wire.Build item of each kind; oracle: rejection with an 'unused' diagnostic. Controls: the unextended program and programs whose items are used only indirectly (nested set, pointer form, binding, field selection) must be accepted.",
   "a partially used direct multi-name FieldsOf is a no-claim zone (wire's unit is the field)",
   "runtime monitoring: mutation of accepted inputs with control twins"),
 "C09": ("exploration", "6 C09",
   "Enumerates provider and injector result lists of length 0..4 over five kinds (781 shapes in thorough; all of length<=3 plus a seeded sample of length 4 in quick) x placement, injector-shape x provider-needs x depth, duplicate parameter types at every position pair, duplicate struct field types by name / '*' / behind wire:\"-\"; oracle is a 12-line rule table.",
   "illegal injector result lists are expected to be rejected too (they cannot be implemented)",
   "runtime monitoring: enumerated shape space against a reference rule table"),
 "C11": ("exploration", "6 C11",
   "Matrix receivers x bound form x interface flavour x source of the concrete type x consumer counts; legal cells are executed and every consumer of the interface must receive the identity and pointer the consumers of the concrete type saw, with the source running once; illegal cells and negatives (missing method, non-interface, self-binding, concrete not provided in the set) must be rejected.",
   "method sets are computed from the Spec",
   "runtime monitoring: executed matrix with identity/address trace checks + rejection oracle"),
 "C12": ("exploration", "6 C12",
   "Struct palettes (exported, unexported, embedded, tagged, case-twin, pointer fields): every subset of names x {S,*S}, '*' x prevented subsets, FieldsOf every subset x parent form x parent source x consumer form, same- and cross-package; executed with reflective dumps: named fields carry their source's identity, others zero, fresh address per call, pointer-to-field aliases the field; unknown, case-different and prevented names must be rejected.",
   "reflection reads unexported fields; promoted (embedded-through) names are not claimed",
   "runtime monitoring: reflective state dumps checked against the Spec"),

 "C10": ("exploration", "6 C10",
   "Generated well-formed programs are rendered in six variants that keep providers and injectors but regroup them (flat, random/deep nesting, sets relocated to other packages) and permute every argument list; every variant must be accepted, satisfy the wiring oracle, and have the same producer-labelled wiring as the base variant; plus false-conflict probes (both forms of one struct / field provider consumed, items used only through bindings).",
   "variants are produced by re-running the generator with the same node stream and a different layout stream, so they are the same program by construction",
   "runtime monitoring: metamorphic variants compared on normalised execution traces"),
 "C13": ("exploration", "6 C13",
   "Typed grammar enumeration of value expressions (atoms of every operand kind, wrapped by unary/binary/conversion/composite/index/slice/selector/deref/address-of/type-assertion productions to depth 2-3) placed in the injector's package and in another package's set; must-reject classes (any call incl. named function types, function-typed fields, function literals, converted functions; channel receive; interface-typed wire.Value; non-implementing InterfaceValue; unexported or non-package-scope identifiers) must be refused; all others accepted and, executed, reflect.DeepEqual to the same expression evaluated in its home package, same address for &var forms, same pointer across calls and across injectors sharing the set; a twin-package family (two packages declaring the same names with different values, the same expression text written in each) must deliver each package's own value, and the same pointer-valued expression written twice must yield two instances.",
   "function values, method values, function literals and builtin calls are a no-claim zone (crash-monitored only)",
   "runtime monitoring: reference evaluation in the home package compared at run time"),
 "C14": ("exploration", "6 C14",
   "Generated programs (error+cleanup providers, values, several packages) are rendered under a neutral naming and under adversarial consistent renamings (err/cleanup/keywords and predeclared names after case-folding/numeric suffixes/unicode/package-like names for types, functions, sets, injectors, packages; blank, missing and universe-named injector parameters; packages declaring err/cleanup themselves); each renaming must compile, pass the wiring, fault and cleanup oracles and have the same producer-labelled wiring as the neutral naming.",
   "model keys, not Go names, label the trace, so traces of renamed programs are comparable line by line",
   "runtime monitoring: renaming invariance of execution traces"),
 "C15": ("exploration", "6 C15",
   "A corpus of declarations covering every go/ast node kind below a declaration (the check counts the kinds it saw and is inconclusive if one is missing) is composed into injector files under six import-alias schemes; wire_gen.go is parsed back and each declaration must be 1:1, in order, alpha-equivalent to its original with every identifier resolving (go/types on both sides) to the same package-level / universe / imported entity or to a consistently renamed local; both tag sets must build; probe outputs of the copied functions must equal those of the originals (driver built with and without -tags wireinject).",
   "inner comments are not part of the AST of a declaration and are not compared; only Doc comments are",
   "runtime monitoring: parse-back structural oracle with go/types + differential execution of originals vs copies"),
 "C16": ("exploration", "6 C16",
   "Programs with large internal tables (several packages sharing a package name, many values incl. equal type names in different packages, four injectors over two files, blank imports, copied declarations) are generated repeatedly in fresh processes, from two checkout roots, under four invocation forms, together with other packages, and in module / GOPATH / GOPATH+vendor layouts; every wire_gen.go must be byte-identical and free of scratch paths, host name and dates. The thorough tier adds a -race build of wire (a race in wire's own frames would be reported).",
   "Go randomises map iteration per process and per loop, so repeated fresh processes are the source of schedule diversity; the race detector is an auxiliary sanitizer only",
   "runtime monitoring: differential byte comparison across processes, locations and layouts (+ race detector)"),
 "C17": ("exploration", "6 C17",
   "Invocation scenarios mixing packages that succeed / fail analysis / have no injectors x prior output (absent, identical, stale, garbage with the constraint, directory squatting on the output name = deterministic write fault) x options (-header_file usable/unusable, -output_file_prefix, -tags, default-command forms) x command (gen, diff, check, show); a sequential reference model of one invocation decides exit status and the allowed file-system footprint, observed through a path/mode/SHA-256 snapshot of the whole module tree before and after; reference content comes from solo runs in pristine copies.",
   "packages that fail to load (type errors) are outside the scenario space; write faults are injected by a directory squatting on the output path rather than strace (per-thread counters are not reproducible under the Go scheduler)",
   "runtime monitoring: file-tree snapshots and exit codes against a sequential model, with a deterministic write fault"),
 "C18": ("exploration", "6 C18",
   "Seeded histories over {switch sources to one of four variants, gen, diff, check, delete output, damage output (stale / non-compiling / truncated after the package clause / garbage after the package clause / up-to-date content plus a tail / output of a variant that extends the current one)} over five source variants (two rejected; one accepted variant's output is a byte prefix of another's) are replayed step by step against a sequential model (state = current variant + file bytes): after every successful gen the file equals the fresh-checkout output, a second gen changes nothing, diff right after exits 0, a failed gen leaves the file untouched, diff/check never touch the tree.",
   "damage classes are restricted to those the go tool tolerates independent of file age (a file without package clause is refused by cmd/go's package index once older than 2 s)",
   "runtime monitoring: sequential history replay against a reference model"),
 "C19": ("exploration", "6 C19",
   "Accepted programs and rejected programs of every class (conflict, missing, cycle, unused, signature, duplicate parameter, binding, injector lacking error/cleanup at depth 1-3, inaccessible value, malformed unreferenced set variable) run through gen and check on the same tree: check must report exactly when gen fails or a set variable is malformed, with the same error classes. show: parsed stdout must equal the model for every top-level set, alias set variables (var A = B) and aliases of aliases included (transitively included named sets, each provided type in exactly one group headed by exactly the types needed from outside, injector list).",
   "error classes are recognised by the message fragments the properties themselves name",
   "runtime monitoring: differential gen/check observation + parsed show output against the reference model"),
 "C20": ("exploration", "6 C20",
   "Enumerated form space: every argument slot of the marker functions x the expression forms that type-check there x context (direct, set variable, nested inline), injector declaration forms, how wire is imported (alias, dot), every Go type kind as injector result with failing providers; each alone in a package under gen and check; oracle: no panic / fatal error, a rejection carries a positioned diagnostic, no silent exit for documented spellings. Thorough repeats the space under a -race build.",
   "forms that do not type-check are dropped by a precheck (go build -tags wireinject); one defect is recorded as a known finding because its message is pinned by a golden file",
   "runtime monitoring: crash/diagnostic monitor over an enumerated input space"),
}

PENDING = {
 "C10": "check under construction in this session (variants/transforms of generated programs) The twin-package value program (same expression text, different meaning per package).",
 "C13": "check under construction in this session (value-expression grammar) Added: parameters spelled like package-level variables / constants / functions; positional struct literals with unexported fields (plain, &, elided element and key types, generic, alias) must be refused across packages and accepted at home; literals of two-type-argument generics and function types with named parameters must be accepted. Slice capacity is part of the comparison; dot-imported types of internal packages, also as embedded fields. Literal spellings (digit separators, binary/octal/hex, hex floats, imaginary); selections through fields typed by internal packages.",
 "C14": "check under construction in this session (adversarial naming) The twin-package value program.",
 "C15": "check under construction in this session (copied declarations) Corpus: local generic types reached through instantiations, //go:embed attached, in a var group and detached by a blank line. Ungrouped var / type declarations ending in a qualified name, with literal parameters spelled like the imports they use.",
 "C16": "check under construction in this session (determinism across layouts) Added invocation forms: the package named by the list of its files in sorted, reversed and rotated order; vendored packages whose path has an element ending in \"vendor\". Programs in which several same-named packages are first mentioned inside one expression, 16-40 fresh-process repeats; a package using an internal package named by directory, by file list (two orders) and by '.'. Copied declarations in both injector files.",
 "C17": "check under construction in this session (CLI contract) Unusable header kinds: missing, a directory, plain text, an unterminated comment (gen: non-zero exit and untouched tree; diff: exit 2); prefixes containing a path separator must not make gen write anywhere. Header kind with a //go:build line of its own (refused, or written with !wireinject kept); one fixed scenario per unusable header kind with a package that would be written. Prior outputs longer / shorter than the new one; header spellings //go:build<TAB>, indented; -tags with line breaks; prefixes the go tool ignores (the written file must be among the package's Go files); diff over an unreadable output exits 2. A package whose generated text cannot be formatted keeps its previous output. Priors differing only in line terminators; -tags separated by commas; a header whose block comment quotes a constraint line; the default command with options.",
 "C18": "check under construction in this session (regeneration histories) Damage kind: output as an earlier gen -tags run leaves it; every third gen/diff/check step is issued from the package's own directory (\".\" or no pattern).",
 "C19": "check under construction in this session (check/show agreement) Show output is compared modulo the predeclared alternative spellings of a type. Agreement also over injector templates in unusual forms (method, type parameters, alias-typed signatures) and over injector files that start with a Code generated header. check must also report what gen refuses only while writing code out; show: two different types of one spelling both listed, same text on 8 runs; sets whose outputs need a variadic provider's slice from outside.",
 "C20": "check under construction in this session (argument-form space) Forms: variables of standard-library packages as wire.Build arguments. Forms with something missing below a field selection / struct provider / binding.",
}


# Families added after the first version of each check (appended to the description).
ADDENDA = {
 "C01": "A quarter of every generated pool runs under an adversarial consistent renaming (same names in different packages, packages sharing a name, blank/missing parameter names), a fifth blank-imports its own library packages; result kinds include funcs with (variadic) parameters, channels of channels, unicode and one-rune type names; probes with providers living in internal packages. One library package of every multi-package pool program lives under a directory whose name merely ends in \"vendor\"; injector templates as methods / with type parameters / with alias-typed parameters (internal, unexported, unnamed-struct, embedded alias = known finding F46) must be refused or compile together with a caller written in the template's form. Result kinds include interface literals that embed a named interface. Injector templates whose wire.Build call is parenthesised; doc and field comments that read as build constraints; several value variables of one suggested name in one injector. The callee of wire.Build / panic / wire.NewSet written in parentheses. Providers in an internal package of an internal package; a value function that re-enters its injector (known finding F70). Variadic injectors whose parameters are unnamed or blank (the generated implementation must stay assignable to the template's function type). Signatures naming an exported alias of a composite type that mentions an unexported foreign type (twelve positions). The twin-library value program (compile clause).",
 "C02": "Added families: interface / concrete type / its input requested in every order (bind-order), a struct and its pointer type from two different sources with a field provider over one of them (counterparts), a parameter named like a later local of an assignable type, twin packages with same-named values; a compile error 'cannot use X as T in argument/struct literal/return' in wire_gen.go also counts as wrong wiring; zero-call injectors with two assignable arguments (pass-through-args); two packages sharing package clause and member names (twin packages). One type under two spellings (rune/int32, byte/uint8, any/interface{}; directly, as element, key, parameter, behind a pointer) supplied once and consumed three times, from five source kinds. Number, rune and string literals in every spelling as value sources. A function-local var / := / const spelled like a package-level set variable, in a file before or after the set's. Unnamed composite types on both sides of a diamond (six kinds, both argument orders); structs with two fields differing only in case. Bindings spelled three ways with both T and *T provided; two sets declared in one var spec.",
 "C03": "Added: the full product of provider result shapes over chains (links through bindings and struct fields, providers in two packages), the result-kind matrix (zero value per kind, judged on the typed result variable so a typed nil in an interface is non-zero). Cleanup chains of 12 and 23 providers (thorough 37, 104): cleanup variable numbering beyond 10 and 100. Cleanup providers sharing one function name across packages. Injector templates with named results (seven name triples meeting cleanup / err / the local of a type). Unnamed composite types on both sides of a diamond.",
 "C04": "Added: the full product of provider result shapes over chains, injectors without an error result and with a single cleanup. Cleanup providers sharing one function name across packages (also packages of one name). Injector templates with named results (seven name triples); an injector call that produces more than 200 000 trace events is cut off and counted as a panic (endless recursion in a generated cleanup). Unnamed composite types on both sides of a diamond.",
 "C05": "Added source kind: a second binding to the same concrete type; placements inline / two levels / inline siblings; the same set listed twice; class SPELL: one type written in two spellings ([]byte/[]uint8, rune/int32, any/interface{}). Source kind bindVia: a binding that can only be resolved after a later one of the same group, in four placements and both orders. Two injector parameters of identical types are always tried in the injector's own signature. Every other cell spells its injector parameters _.",
 "C06": "Added near-miss rows: FieldsOf parent counterparts, variadic providers whose slice type has no source (nothing / element / array / pointer-to-slice provided). Near-miss forms: another instantiation of the same generic type (also nested), the other spelling of a type (accepted); positions: a later parameter / field of the provider that also takes the provided near miss. Positions: embedded field under \"*\", an input of the provider of a struct a field is selected from. A type provided only by the blank-named sibling initialiser of the listed set's var spec.",
 "C07": "Every graph family also comes with its sources spread over several set variables (5 layouts incl. sub-sets listed directly in wire.Build); scaling lattices through struct fields, bindings and field providers. Added: binding chains (50/200/400 long, listed from either end) with a step counter on the used-bindings walk; an erroneous leaf set under 4/8/16 levels of doubled set inclusion, judged on the number of diagnostic lines (linear budget, at most tripling when depth doubles); the spelling-twins programs under the step cap. Sets of interface bindings that only lead to each other (loops, tails into loops); every wire process runs under a CPU-time cap whose exhaustion is reported like a step-cap event. Layouts 5 and 6: bindings in the including set / directly in Build over one Base set; adapters between function types with permuted parameters must not be reported as cycles. Refused programs (removal mutants rich in field selections) must be refused within the step cap.",
 "C08": "Added: bind-order family as contributing controls; pass-through injectors (result is a parameter, directly or behind a binding; value only; field of a parameter) x every superfluous kind. Controls: a FieldsOf item listing several fields of which one is needed, listed directly in wire.Build (value and pointer parents, pointer-to-field). A superfluous binding at every position around binding chains listed in five orders. Superfluous items spelled exactly like a used one (same name, same package clause, other import path).",
 "C09": "Duplicate parameter / field types in 9 kinds (named, alias, *T, []T, map, func, chan, array, **T) written out twice; injector-needs rule through bindings, struct fields, field parents, nested and foreign sets, and NOT for unneeded set members. Needs rule also with a harmless provider of the same name called earlier (other package; two packages sharing a package name) and after a struct provider used in both forms. Duplicate parameter / field / injector-parameter types written in two spellings (rune/int32, byte/uint8, any/interface{}). Illegal providers nobody needs, inside used nested sets. One struct field named twice or three times in wire.Struct.",
 "C10": "Added: a base set shared by 3-4 wrapper sets each adding a different source for one interface; C13's relocation-sensitive value expressions placed in the injector's package and in another package's set. Adapters between function types that differ only in parameter order. Two sets declared in one var spec, either first, either listed first, also nested.",
 "C11": "Added: bind-order family (executed), order-dependent negatives (legal *C binding first, illegal C binding later), interface-to-interface negatives. Two thirds of all programs spell the arguments of wire.Bind as typed nil pointers instead of new(...). Zero-call injectors returning the parameter an interface binding designates. Negatives: a binding in an inline nested set whose concrete type only the enclosing set or Build provides (four placements). Bindings spelled three ways with both T and *T provided.",
 "C12": "Added: both forms S and *S of one struct provider in one injector with a provider writing through the pointer (all 24 parameter orders); promoted-field negatives. Tags that merely look like wire's (protowire:\"-\", json:\"-\", a quoted wire:\"-\" inside another value). Field names made of underscores only (__, ___) next to _x and X_. Dotted field names (type, field, package, parent prefix) are not fields. Structs with two fields differing only in case.",
 "C13": "Added: literals with identifier keys, InterfaceValue cases (untyped nil, pointer-only implementers, typed nil; calls/receives = known finding F19), more wrapper productions (slice bounds, selectors/indexes of literals); non-constant builtin calls must be refused, constant ones accepted; value hazards: internal packages the injector cannot import, predeclared identifiers the injector's package redeclares (refused, or compiled and equal). Twin libraries that each import a different package under the same default name (region): value expressions of both end up in one generated file. InterfaceValue with values of interface type (unrelated, empty, wider, converted). A second application package in the twin program names one library differently.",
 "C14": "Added families: late imports (struct literal / value variable of a package nothing else names) vs parameters and locals of that name, invented parameter names, parameter/local collisions of assignable types, package name vs directory name (bar in bar2). Injector templates with named results; a copied helper that is the first declaration to need an import spelled under an alias, with a local / parameter / result / type-switch variable / closure variable spelled like the generated import name. Variadic injectors with unnamed / blank parameters. Copied helpers with a local const / type / label / type parameter spelled like the generated import name.",
 "C15": "Corpus additions: locals used as literal keys, local consts/types/type parameters named like generated imports, type-switch variables, embedded imported fields, numbered siblings; two injector files; every snippet meets every scheme in the quick tier. Nine schemes: the anchors that keep imports used may come last (a snippet is then the first to need its imports, plus dedicated first-use programs), and the second injector file may spell its imports differently from the first (same qualifier for different packages). Snippets for F71 (type-switch variable and local whose new names coincide) and F72 (local alias shadowing a package-level name, embedded in unnamed structs). go:embed detached by further comment groups. Init statements of type switch, switch, if / else-if, for, select.",
 "C16": "Added layout: GOPATH with the vendor directory inside the injector package's directory; value types of the same name in two packages plus neighbour programs in the same invocation, incl. neighbours that import the program's own library packages in both orders. The injector file blank-imports the program's own library packages (vendored in the GOPATH+vendor layouts). File lists named from the module root and by absolute paths.",
 "C17": "Added no-injector package variants (blank imports + init; a wireinject-tagged file without injector; a directory with only a _test.go file) and bad patterns (missing directory / all files excluded) x 4 commands. Options written before the command name (wire <opts> gen|diff ./...): honoured exactly as after it, or refused with exit 2 and an untouched tree (F73). Header kinds with a // +build line (F74).",
 "C18": "Seven source variants (one's output a prefix of another's; helpers named like the next variant's import/locals/value variable), damage kinds incl. same-length, whitespace, comment before header, future/ancient mtime; tails regenerating one accepted variant after another. gen / diff / gen / diff under one -tags list in five spellings inside histories.",
 "C19": "Agreement cases: later injectors (second in file / second file / panic form / with parameters) x {missing, need-err, need-cleanup, unused, conflict}; inaccessible values x the four injector result shapes; alias and grouped set variables in show. gen and check under -tags that select which injector files belong to the package (tags \"\", prod, other; two packages). Unreferenced set variables made only of other sets (plus a binding) whose union is cyclic. show on layered programs whose sets all carry one variable name. Every batch is also run through wire show: a package that gen and check refuse must get an error from show as well.",
 "C20": "Forms added: long/duplicate name lists, InterfaceValue into the empty interface; the result-kind matrix is judged by the full oracle (positioned diagnostic or output). Bind with interface-typed and other odd second arguments. Unusable foreign declarations named through dot imports and renamed imports.",
}

def main():
    claimed = sys.argv[1:] if len(sys.argv) > 1 else sorted(CHECKS)
    checks = []
    for pid in sorted(CHECKS):
        if pid not in claimed:
            continue
        level, ref, text, note, tech = CHECKS[pid]
        if pid in ADDENDA:
            text = text + " " + ADDENDA[pid]
        checks.append({
            "property_id": pid,
            "quick_cmd": f"{ENV} bin/verif check {pid} --tier quick",
            "thorough_cmd": f"{ENV} bin/verif check {pid} --tier thorough",
            "evidence_file": f"/verif/evidence/{pid}.json",
            "replay_cmd_template": f"{ENV} bin/verif replay {{path}}",
            "engine": "verif",
            "level_claimed": {"category": level, "text": text, "design_ref": "DESIGN.md section " + ref},
            "level_note": note,
            "technique": tech,
        })
    na = [{"property_id": k, "reason": v} for k, v in sorted(PENDING.items()) if k not in CHECKS]
    m = {
        "version": 1,
        "setup_cmd": f"cd /verif && {ENV} go build -o bin/verif ./cmd/verif && {ENV} bin/verif warm",
        "hooks": {
            "guard": "verif",
            "enable": "go build -tags verif -o <scratch>/wire ./cmd/wire (done by every check from /repo's working tree)",
            "baseline_off_cmd": "/verif/scripts/baseline_off.sh",
            "source_commits": hook_commits(),
            "add_only": True,
        },
        "engines": [{"name": "verif", "path": "/verif/bin/verif", "serves_properties": sorted(c["property_id"] for c in checks),
                     "kind_free_text": "Go driver: renders programs from a Spec, runs the real wire binary built from /repo, executes the generated code with a trace runtime, checks logs/exit codes/file trees offline against a reference model"}],
        "checks": checks,
        "not_applicable": na,
        "notes": "Every check rebuilds wire from /repo's working tree (with -tags verif, falling back to an untagged build). VERIF_SEED seeds all random choices; case lists are fixed by tier and seed. Exit 0 held / 1 VIOLATION / 2 inconclusive (nothing observed or framework failure).",
    }
    json.dump(m, open("/verif/MANIFEST.json", "w"), indent=1)
    print("wrote MANIFEST.json with", len(checks), "checks,", len(na), "not_applicable")

main()
