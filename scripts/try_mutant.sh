#!/bin/bash
# usage: try_mutant.sh <patch.diff> <prop> [<prop>...]
# Applies the patch to a scratch worktree of /repo, checks that it builds and that the pinned
# suite is unchanged, then runs the given quick checks against the worktree (evidence and
# replays go to a scratch verif dir, never to /verif). Prints DETECTED/MISSED per property.
export GOFLAGS=-mod=mod GOPROXY=off GOSUMDB=off GOTOOLCHAIN=local
patch=$(readlink -f "$1"); shift
wt=/tmp/mut/wt-$$
sv=/tmp/mut/verif-$$
git -C /repo worktree add --detach "$wt" HEAD -q || exit 2
trap 'git -C /repo worktree remove --force "$wt" >/dev/null 2>&1; rm -rf "$sv"' EXIT
( cd "$wt" && git apply "$patch" ) || { echo "PATCH-DOES-NOT-APPLY"; exit 2; }
( cd "$wt" && go build ./... && go build -tags verif ./... ) || { echo "DOES-NOT-BUILD"; exit 2; }
if [ -z "$SKIP_SUITE" ]; then
  out=$(mktemp)
  ( cd "$wt" && go test -mod=mod -json -vet=off -count=1 -timeout 25m ./... > "$out" 2>/dev/null )
  python3 - "$out" <<'PY' || { echo "SUITE-CHANGED (not a suite-invisible change)"; }
import json,sys
passed=set()
for line in open(sys.argv[1]):
    try: d=json.loads(line)
    except Exception: continue
    if d.get('Action')=='pass' and d.get('Test'): passed.add(d['Package']+'::'+d['Test'])
want=set(json.load(open('/root/.vp/BASELINE.json'))['stable_pass'])
missing=sorted(want-passed)
print("suite: stable_pass=%d missing=%d %s"%(len(want),len(missing),missing[:3]))
sys.exit(1 if missing else 0)
PY
  rm -f "$out"
fi
mkdir -p "$sv/assets/tr" && cp /verif/assets/tr/tr.go "$sv/assets/tr/" && cp /verif/known_findings.jsonl "$sv/" 2>/dev/null
mkdir -p "$sv/.cache" && ln -s /verif/.cache/gocache "$sv/.cache/gocache"
for p in "$@"; do
  log="$sv/$p.log"
  /verif/bin/verif check "$p" --tier ${TIER:-quick} --repo "$wt" --verif "$sv" > "$log" 2>&1
  rc=$?
  nv=$(grep -c "^VIOLATION" "$log")
  if [ $rc -eq 1 ] && [ $nv -gt 0 ]; then
    echo "DETECTED $p violations=$nv first: $(grep -m1 '^VIOLATION' "$log" | cut -c1-260)"
  else
    echo "MISSED $p rc=$rc $(grep SUMMARY "$log" | cut -c1-200)"
  fi
done
