#!/usr/bin/env python3
"""Creates /verif/seeded/own-*/patch.diff: the calibration mutants of DESIGN.md section 10.
Needs a scratch worktree of /repo at /tmp/mut/wt."""
import subprocess,os,json,sys
W='/tmp/mut/wt'
def sh(c): return subprocess.run(c,shell=True,cwd=W,capture_output=True,text=True)
def mk(name, prop, needs, edits):
    sh('git checkout -- .')
    for f,old,new in edits:
        p=os.path.join(W,f); s=open(p).read()
        if old not in s:
            print('FAILED',name,f,repr(old[:70])); sh('git checkout -- .'); return
        s=s.replace(old,new,1); open(p,'w').write(s)
    d='/verif/seeded/own-%s'%name
    os.makedirs(d,exist_ok=True)
    open(d+'/patch.diff','w').write(sh('git diff').stdout)
    meta={"id":"own-"+name,"origin":"own calibration mutant (DESIGN.md section 10)","breaks":prop,"needs_to_manifest":needs}
    if os.path.exists(d+'/meta.json'):
        try:
            old=json.load(open(d+'/meta.json')); 
            for k in old:
                if k not in meta: meta[k]=old[k]
        except Exception: pass
    json.dump(meta,open(d+'/meta.json','w'),indent=1)
    sh('git checkout -- .')
    print('ok',name)

WG='internal/wire/wire.go'; AN='internal/wire/analyze.go'; PA='internal/wire/parse.go'; CA='internal/wire/copyast.go'; MA='cmd/wire/main.go'

mk('C01-array-zero','C01','injector with an array result type and an error-returning provider',[(WG,'''	case *types.Array, *types.Struct:
		return types.TypeString(t, qf) + "{}"''','''	case *types.Struct:
		return types.TypeString(t, qf) + "{}"
	case *types.Array:
		return "nil"''')])
mk('C02-bind-last-local','C02','interface binding resolved after more than two steps were planned',[(AN,'''			index.Set(curr.t, i)
			continue
		}

		switch pv := set.For(curr.t); {''','''			if n := given.Len() + len(calls); len(calls) > 2 {
				i = n - 1
			}
			index.Set(curr.t, i)
			continue
		}

		switch pv := set.For(curr.t); {''')])
mk('C03-unwind-skips-first','C03','more than two cleanups acquired before the failing provider',[(WG,'''		for i := prevCleanup - 1; i >= 0; i-- {
			ig.p("\\t\\t%s()\\n", ig.cleanupNames[i])
		}''','''		lo := 0
		if prevCleanup > 2 {
			lo = 1
		}
		for i := prevCleanup - 1; i >= lo; i-- {
			ig.p("\\t\\t%s()\\n", ig.cleanupNames[i])
		}''')])
mk('C04-forward-when-many','C04','more than two cleanup-returning providers on the success path',[(WG,'''		for i := len(ig.cleanupNames) - 1; i >= 0; i-- {
			ig.p("\\t\\t%s()\\n", ig.cleanupNames[i])
		}
		ig.p("\\t}")''','''		if len(ig.cleanupNames) > 2 {
			for i := 0; i < len(ig.cleanupNames); i++ {
				ig.p("\\t\\t%s()\\n", ig.cleanupNames[i])
			}
		} else {
			for i := len(ig.cleanupNames) - 1; i >= 0; i-- {
				ig.p("\\t\\t%s()\\n", ig.cleanupNames[i])
			}
		}
		ig.p("\\t}")''')])
mk('C05-fields-no-dupcheck','C05','a field provider colliding with an earlier source of the same type',[(AN,'''		src := &providerSetSrc{Field: f}
		for _, typ := range f.Out {
			if prevSrc := srcMap.At(typ); prevSrc != nil {
				ec.add(bindingConflictError(fset, typ, set, src, prevSrc.(*providerSetSrc)))
				continue
			}''','''		src := &providerSetSrc{Field: f}
		for _, typ := range f.Out {''')])
mk('C06-ptr-missing-unnamed','C06','a missing pointer-typed dependency below the root',[(AN,'''			fmt.Fprintf(sb, "no provider found for %s", types.TypeString(curr.t, nil))
			for f := curr.up''','''			if _, isPtr := curr.t.(*types.Pointer); isPtr {
				fmt.Fprintf(sb, "no provider found for a dependency")
			} else {
				fmt.Fprintf(sb, "no provider found for %s", types.TypeString(curr.t, nil))
			}
			for f := curr.up''')])
mk('C07-visited-before-trail','C07','a cycle closed through a node that was already visited',[(AN,'''				for _, a := range args {
					hasCycle := false''','''				for _, a := range args {
					if v, _ := visited.At(a).(bool); v && !types.Identical(a, head) {
						continue
					}
					hasCycle := false''')])
mk('C07-no-visited-shortcut','C07','a diamond lattice with exponentially many paths',[(AN,'''			if v, _ := visited.At(head).(bool); v {
				continue
			}
			visited.Set(head, true)''','''			visited.Set(head, true)''')])
mk('C08-later-import-counts-used','C08','an unused provider set that is not the first imported set while another set is used',[(AN,'''	for _, imp := range set.Imports {
		found := false
		for _, u := range used {
			if u.Import == imp {
				found = true
				break
			}
		}''','''	anyImportUsed := false
	for _, u := range used {
		if u.Import != nil {
			anyImportUsed = true
		}
	}
	for k, imp := range set.Imports {
		found := k > 0 && anyImportUsed
		for _, u := range used {
			if u.Import == imp {
				found = true
				break
			}
		}''')])
mk('C09-named-cleanup-type','C09','a provider whose second result is a named func() type',[(PA,'''		case types.Identical(t, cleanupType):
			return outputSignature{out: out, cleanup: true}, nil''','''		case types.Identical(t.Underlying(), cleanupType):
			return outputSignature{out: out, cleanup: true}, nil''')])
mk('C10-bindings-before-fields','C10','a binding whose concrete type is provided by a field provider',[(AN,'''	for _, f := range set.Fields {
		src := &providerSetSrc{Field: f}''','''	fieldTypes := new(typeutil.Map)
	for _, f := range set.Fields {
		for _, typ := range f.Out {
			fieldTypes.Set(typ, true)
		}
	}
	for _, b := range set.Bindings {
		if fieldTypes.At(b.Provided) != nil && providerMap.At(b.Provided) == nil {
			ec.add(notePosition(fset.Position(b.Pos), fmt.Errorf("wire.Bind of concrete type %q to interface %q, but provider set does not include a provider for %q", b.Provided, b.Iface, b.Provided)))
		}
	}
	for _, f := range set.Fields {
		src := &providerSetSrc{Field: f}''')])
mk('C11-no-implements-for-pointers','C11','binding a pointer type that lacks the interface methods',[(PA,'''	if !types.Implements(provided, methodSet) {
		return nil, notePosition(fset.Position(call.Pos()),
			fmt.Errorf("%s does not implement %s", types.TypeString(provided, nil), types.TypeString(iface, nil)))
	}
	return &IfaceBinding{''','''	if _, isPtr := provided.(*types.Pointer); !isPtr && !types.Implements(provided, methodSet) {
		return nil, notePosition(fset.Position(call.Pos()),
			fmt.Errorf("%s does not implement %s", types.TypeString(provided, nil), types.TypeString(iface, nil)))
	}
	return &IfaceBinding{''')])
mk('C12-star-ignores-tag-on-unexported','C12','wire.Struct "*" on a struct with an unexported field tagged wire:"-"',[(PA,'''			if isPrevented(st.Tag(i)) {
				continue
			}
			f := st.Field(i)''','''			if isPrevented(st.Tag(i)) && st.Field(i).Exported() {
				continue
			}
			f := st.Field(i)''')])
mk('C13-allow-niladic-calls','C13','a value expression containing a call without arguments',[(PA,'''				if _, isFunc := t.Underlying().(*types.Signature); isFunc {
					ok = false
					return false
				}''','''				if _, isFunc := t.Underlying().(*types.Signature); isFunc && len(expr.Args) > 0 {
					ok = false
					return false
				}''')])
mk('C13-inline-composite-values','C13','a pointer-like composite value requested twice',[(WG,'''func (ig *injectorGen) valueExpr(lname string, c *call) {
	ig.p("\\t%s := %s\\n", lname, ig.g.values[c.valueExpr])
}''','''func (ig *injectorGen) valueExpr(lname string, c *call) {
	if u, ok := c.valueExpr.(*ast.UnaryExpr); ok && u.Op == token.AND {
		if _, isLit := u.X.(*ast.CompositeLit); isLit {
			ig.p("\\t%s := ", lname)
			if !ig.discard {
				ig.g.writeAST(c.valueTypeInfo, c.valueExpr)
			}
			ig.p("\\n")
			return
		}
	}
	ig.p("\\t%s := %s\\n", lname, ig.g.values[c.valueExpr])
}''')])
mk('C14-third-cleanup-name-forgotten','C14','three or more cleanup providers plus a later local whose type is named Cleanup3',[(WG,'''	for _, l := range ig.cleanupNames {
		if l == name {
			return true
		}
	}
	return ig.g.nameInFileScope(name)''','''	for i, l := range ig.cleanupNames {
		if l == name && i < 2 {
			return true
		}
	}
	return ig.g.nameInFileScope(name)''')])
mk('C15-drop-slice-max','C15','a 3-index slice expression in a copied declaration',[(CA,'''				Max:    exprFromMap(m, node.Max),''','''				Max:    nil,''')])
mk('C16-values-in-map-order','C16','two or more value providers in one injector',[(WG,'''		for _, pv := range pendingVars {
			g.p("\\t%s = ", pv.name)
			g.writeAST(pv.typeInfo, pv.expr)
			g.p("\\n")
		}''','''		byName := map[string]pendingVar{}
		for _, pv := range pendingVars {
			byName[pv.name] = pv
		}
		for _, pv := range byName {
			g.p("\\t%s = ", pv.name)
			g.writeAST(pv.typeInfo, pv.expr)
			g.p("\\n")
		}''')])
mk('C16-keep-vendored-path','C16','dependencies resolved from a vendor directory',[(WG,'''	if info, ok := g.imports[unvendored]; ok {
		return info.name
	}''','''	unvendored = path
	if info, ok := g.imports[unvendored]; ok {
		return info.name
	}''')])
mk('C17-commit-despite-errors','C17','a package whose analysis fails next to packages that succeed',[(MA,'''		if len(out.Content) == 0 {
			// No Wire output. Maybe errors, maybe no Wire directives.
			continue
		}
		if err := out.Commit(); err == nil {''','''		if len(out.Content) == 0 && len(out.Errs) > 0 && out.OutputPath != "" {
			out.Content = []byte("// generation failed\\n")
		}
		if len(out.Content) == 0 {
			// No Wire output. Maybe errors, maybe no Wire directives.
			continue
		}
		if err := out.Commit(); err == nil {''')])
mk('C17-diff-ok-on-failure','C17','wire diff over a failing package while all other outputs are up to date',[(MA,'''	if !success {
		log.Println("at least one generate failure")
		return errReturn
	}
	if hadDiff {''','''	if !success && hadDiff {
		log.Println("at least one generate failure")
		return errReturn
	}
	if hadDiff {''')])
mk('C18-no-truncate','C18','regenerating a shorter file over a longer stale one',[(WG,'''	return ioutil.WriteFile(gen.OutputPath, gen.Content, 0666)''','''	f, err := os.OpenFile(gen.OutputPath, os.O_WRONLY|os.O_CREATE, 0666)
	if err != nil {
		return err
	}
	defer f.Close()
	_, err = f.Write(gen.Content)
	return err'''),(WG,'''	"io/ioutil"
''','''	"os"
''')])
mk('C19-check-skips-unexported-sets','C19','a malformed provider set variable with an unexported name that no injector uses',[(PA,'''			if !isProviderSetType(obj.Type()) {
				continue
			}''','''			if !isProviderSetType(obj.Type()) || !obj.Exported() {
				continue
			}''')])
mk('C19-show-merges-subset-groups','C19','two output groups where one input set is a subset of the other',[(MA,'''func sameTypeKeys(a, b *typeutil.Map) bool {
	if a.Len() != b.Len() {
		return false
	}''','''func sameTypeKeys(a, b *typeutil.Map) bool {
	if a.Len() > b.Len() || (a.Len() == 0) != (b.Len() == 0) {
		return false
	}''')])
mk('C20-paren-assert','C20','a parenthesised non-identifier argument',[(PA,'''	exprPos := oc.fset.Position(expr.Pos())
	expr = astutil.Unparen(expr)''','''	exprPos := oc.fset.Position(expr.Pos())
	if p, ok := expr.(*ast.ParenExpr); ok {
		_ = p.X.(*ast.Ident).Name
	}
	expr = astutil.Unparen(expr)''')])
