#!/bin/bash
# Runs every seeded change (seeded/*/patch.diff) through try_mutant.sh with the quick check of the
# property it breaks, four at a time, and prints one line per change. Suite comparison is skipped
# (it was done when the change was imported); set FULL=1 to repeat it.
cd /verif
[ -n "$FULL" ] || export SKIP_SUITE=1
out=${1:-/tmp/validate_seeds.txt}
: > "$out"
ls -d seeded/*/ | xargs -P 4 -I{} bash -c '
  d={}; name=$(basename $d)
  prop=$(python3 -c "import json;d=json.load(open(\"$d/meta.json\"));print(d.get(\"detected_by\", d[\"breaks\"]))")
  if grep -q "\"base_commit\"" $d/meta.json; then echo "$name SUPERSEDED (applies to an earlier /repo commit only, see meta.json)" >> '"$out"'; exit 0; fi
  r=$(/verif/scripts/try_mutant.sh $d/patch.diff $prop 2>&1 | grep -E "DETECTED|MISSED|PATCH|BUILD" | cut -c1-160)
  echo "$name $r" >> '"$out"'
'
sort "$out"
echo "detected=$(grep -c DETECTED "$out") missed=$(grep -c MISSED "$out") superseded=$(grep -c SUPERSEDED "$out") total=$(ls -d seeded/*/ | wc -l)"
