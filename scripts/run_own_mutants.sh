#!/bin/bash
# Runs every own-* calibration mutant through try_mutant.sh with the check of its property.
cd /verif
for d in seeded/own-*/; do
  name=$(basename $d)
  prop=$(python3 -c "import json;print(json.load(open('$d/meta.json'))['breaks'])")
  echo "=== $name ($prop)"
  /verif/scripts/try_mutant.sh $d/patch.diff $prop 2>&1 | grep -v "^WARNING conda"
done
