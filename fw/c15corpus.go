package fw

// The declaration corpus of C15. Placeholders:
//
//	$N      unique suffix per instantiation
//	{FMT}   qualifier of package fmt ("fmt." or alias)
//	{STR}   qualifier of package strings ("strings.", alias, or "" when dot-imported)
//	{LIB}   qualifier of the program's lib package
//	{SORT}  qualifier of package sort
//
// Probe is an expression of type string evaluated by the driver under both tag sets.
type snippet struct {
	Name  string
	Decl  string
	Probe string
}

var c15Corpus = []snippet{
	{"const-iota", `// Weekday$N is a documented constant group.
const (
	Sun$N = iota
	Mon$N
	Tue$N = iota * 10
	skip$N, Other$N = "s", 'r'
)`, `{FMT}Sprint(Sun$N, Mon$N, Tue$N, skip$N, Other$N)`},
	{"typed-const", `const Pi$N float64 = 3.25
const Big$N = 1 << 40`, `{FMT}Sprint(Pi$N, Big$N)`},
	{"var-group", `var (
	a$N, b$N = 1, "two"
	c$N      []int
	d$N      = [...]string{2: "x", 0: "y"}
)`, `{FMT}Sprint(a$N, b$N, c$N == nil, d$N)`},
	{"struct-tags", `// Rec$N has tags, embedded and anonymous fields.
type Rec$N struct {
	Name  string ` + "`json:\"name,omitempty\" xml:\"n\"`" + `
	Count int    ` + "`json:\"-\"`" + `
	{LIB}Exported
	*{LIB}Other
	inner struct {
		X, Y int
	}
	fn   func(int, ...string) (bool, error)
	ch   <-chan int
	snd  chan<- string
	both chan struct{}
	m    map[string][]*Rec$N
	arr  [3][]int
}`, `{FMT}Sprintf("%+v", Rec$N{Name: "n", Count: 2}.inner)`},
	{"interface-type", `type Iface$N interface {
	{FMT}Stringer
	Do(x int, ys ...string) (n int, err error)
	inner()
}`, ``},
	{"generic-type", `type Box$N[T any] struct {
	V    T
	Next *Box$N[T]
}

func (b *Box$N[T]) Get() T { return b.V }`, `{FMT}Sprint((&Box$N[int]{V: 7}).Get())`},
	{"generic-constraint", `type Num$N interface {
	~int | ~int64 | ~float64
}

func Sum$N[T Num$N](xs ...T) T {
	var s T
	for _, x := range xs {
		s += x
	}
	return s
}`, `{FMT}Sprint(Sum$N(1, 2, 3), Sum$N[float64](1.5, 2))`},
	{"generic-two-params", `type Pair$N[K comparable, V any] struct {
	Key K
	Val V
}

func MakePair$N[K comparable, V any](k K, v V) Pair$N[K, V] {
	return Pair$N[K, V]{Key: k, Val: v}
}

var pairs$N = map[string]Pair$N[string, int]{"a": MakePair$N[string, int]("a", 1)}`, `{FMT}Sprint(pairs$N["a"], MakePair$N(2, "b"))`},
	{"func-labels", `func Labels$N(n int) string {
	out := ""
outer:
	for i := 0; i < n; i++ {
		for j := 0; ; j++ {
			switch {
			case j > i:
				continue outer
			case i == 3:
				break outer
			}
			out += {FMT}Sprint(i, j, ";")
		}
	}
	goto done
done:
	return out
}`, `Labels$N(5)`},
	{"closures-shadowing", `func Closures$N() string {
	fmt := "shadow-of-fmt"
	strings := []string{"a", "b"}
	x := 1
	f := func(x int) func() int {
		return func() int { x++; return x }
	}(x + 10)
	{
		x := "inner"
		_ = x
	}
	return {LIB}Join(strings, fmt) + {LIB}Itoa(f()+f())
}`, `Closures$N()`},
	{"alias-named-locals", `func Locals$N(s string) string {
	lib := {STR}ToUpper(s)
	sort := {STR}Repeat(lib, 2)
	err := {FMT}Sprintf("%s|%s", lib, sort)
	return err
}`, `Locals$N("ab")`},
	{"select-chan", `func Select$N() string {
	c := make(chan int, 1)
	d := make(chan string)
	var sendOnly chan<- int = c
	sendOnly <- 4
	go func() { d <- "go" }()
	res := <-d
	select {
	case v, ok := <-c:
		res += {FMT}Sprint(v, ok)
	case d <- "never":
	default:
		res += "default"
	}
	close(c)
	return res
}`, `Select$N()`},
	{"type-switch", `func TypeSwitch$N(v interface{}) string {
	switch x := v.(type) {
	case nil:
		return "nil"
	case int, int64:
		return {FMT}Sprint("int", x)
	case []string:
		return {STR}Join(x, "+")
	case error:
		return x.Error()
	case func() string:
		return x()
	default:
		_ = x
	}
	if s, ok := v.({FMT}Stringer); ok {
		return s.String()
	}
	return "other"
}`, `TypeSwitch$N(3) + TypeSwitch$N([]string{"a", "b"}) + TypeSwitch$N(nil) + TypeSwitch$N(2.5)`},
	{"switch-fallthrough", `func Switch$N(n int) (r string) {
	switch y := n * 2; {
	case y > 10:
		r = "big"
		fallthrough
	case y > 4:
		r += "mid"
	default:
		r = "small"
	}
	switch n {
	case 1, 2:
		r += "12"
	}
	return
}`, `Switch$N(1) + Switch$N(3) + Switch$N(9)`},
	{"slices-3index", `func Slices$N() string {
	a := [6]int{0, 1, 2, 3, 4, 5}
	s := a[1:4:5]
	t := s[:cap(s)]
	u := a[:]
	p := &a
	q := p[2:]
	return {FMT}Sprint(s, len(t), cap(t), len(u), q[0], a[len(a)-1])
}`, `Slices$N()`},
	{"variadic-spread", `func variadic$N(prefix string, xs ...int) string {
	return {FMT}Sprint(prefix, len(xs), xs)
}

func Spread$N() string {
	v := []int{1, 2, 3}
	return variadic$N("a") + variadic$N("b", v...) + variadic$N("c", 4, 5)
}`, `Spread$N()`},
	{"defer-recover", `func Defer$N() (s string) {
	defer func() {
		if r := recover(); r != nil {
			s = {FMT}Sprint("recovered:", r)
		}
	}()
	var m map[string]int
	m["x"] = 1
	return "unreachable"
}`, `Defer$N()`},
	{"methods", `type Cnt$N int

func (c *Cnt$N) Inc() Cnt$N { *c++; return *c }
func (c Cnt$N) String() string { return {FMT}Sprintf("cnt(%d)", int(c)) }
func (Cnt$N) unused(_ int, _ string) {}`, `func() string { var c Cnt$N; c.Inc(); c.Inc(); return c.String() }()`},
	{"method-values", `func MethodVals$N() string {
	var c Cnt2$N = 5
	f := c.Twice
	g := Cnt2$N.Twice
	h := (*Cnt2$N).Set
	h(&c, 9)
	return {FMT}Sprint(f(), g(c))
}

type Cnt2$N int

func (c Cnt2$N) Twice() int  { return int(c) * 2 }
func (c *Cnt2$N) Set(v int) { *c = Cnt2$N(v) }`, `MethodVals$N()`},
	{"composite-literals", `var table$N = map[string][]struct {
	A int
	B *{LIB}Other
}{
	"k": {{A: 1}, {2, nil}, {B: &{LIB}Other{O: 3}}},
}

var matrix$N = [2][2]float64{{1, 2}, {3, 4}}
var ptrs$N = []*{LIB}Exported{{E: 1}, nil}`, `{FMT}Sprint(len(table$N["k"]), table$N["k"][2].B.O, matrix$N[1][0], ptrs$N[0].E)`},
	{"operators", `func Ops$N(a, b int) string {
	x := a + b*2 - (a%3)<<1 | b&^1 ^ a
	x += 3
	x <<= 1
	x--
	y := !(a > b) && a != b || a <= b
	z := -a + ^b
	p := &x
	*p *= 2
	f := 1.5e3 + 0x1p-2
	c := 1 + 2i
	r := 'a' + '\n'
	s := "raw" + ` + "`back\\tick`" + `
	return {FMT}Sprint(x, y, z, f, real(c), r, s)
}`, `Ops$N(5, 3)`},
	{"for-range-forms", `func Ranges$N() string {
	s := ""
	for i := range []int{7, 8} {
		s += {FMT}Sprint(i)
	}
	for k, v := range map[string]int{"a": 1} {
		s += k + {FMT}Sprint(v)
	}
	for _, r := range "hé" {
		s += string(r)
	}
	var i int
	for i = 0; i < 2; i++ {
	}
	for i < 4 {
		i++
	}
	for {
		break
	}
	for range [3]struct{}{} {
		i++
	}
	return s + {FMT}Sprint(i)
}`, `Ranges$N()`},
	{"if-else-chains", `func IfElse$N(n int) string {
	if x := n * 2; x > 10 {
		return "a"
	} else if y := x + 1; y > 5 {
		return "b" + {FMT}Sprint(y)
	} else {
		return "c" + {FMT}Sprint(x, y)
	}
}`, `IfElse$N(1) + IfElse$N(3) + IfElse$N(7)`},
	{"func-types", `type Handler$N func(w {FMT}Stringer, args ...interface{}) (n int, err error)

var handler$N Handler$N = func(w {FMT}Stringer, args ...interface{}) (int, error) {
	return len(args), nil
}

func apply$N(f func(int) int, xs []int) (out []int) {
	for _, x := range xs {
		out = append(out, f(x))
	}
	return
}`, `{FMT}Sprint(apply$N(func(i int) int { return i * i }, []int{1, 2, 3}))`},
	{"embedded-and-promoted", `type Base$N struct{ ID int }

func (b Base$N) Describe() string { return {FMT}Sprint("base", b.ID) }

type Derived$N struct {
	Base$N
	*{LIB}Other
	Name string
}`, `Derived$N{Base$N: Base$N{ID: 4}, Other: &{LIB}Other{O: 2}}.Describe()`},
	{"cross-package-use", `var libVal$N = {LIB}Exported{E: {LIB}Const + 1}

func UseLib$N() string {
	o := {LIB}NewOther(3)
	var s {FMT}Stringer = o
	return s.String() + {LIB}Itoa(libVal$N.E) + {LIB}Join([]string{"x"}, "")
}`, `UseLib$N()`},
	{"sort-closure", `func Sorted$N(xs []string) []string {
	out := append([]string(nil), xs...)
	{SORT}Slice(out, func(i, j int) bool { return out[i] < out[j] })
	return out
}`, `{FMT}Sprint(Sorted$N([]string{"b", "a", "c"}))`},
	{"named-results-naked-return", `func Div$N(a, b int) (q, r int, err error) {
	if b == 0 {
		err = {FMT}Errorf("div %d by zero", a)
		return
	}
	q, r = a/b, a%b
	return
}`, `func() string { q, r, e := Div$N(7, 2); _, _, e2 := Div$N(1, 0); return {FMT}Sprint(q, r, e, e2) }()`},
	{"type-decls-misc", `type (
	Str$N     string
	StrPtr$N  *Str$N
	Fn$N      func() Str$N
	Chan$N    chan<- Fn$N
	Alias$N = map[Str$N]StrPtr$N
	Arr$N     [4]Str$N
	Any$N     interface{}
	Anyp$N    = any
)`, `{FMT}Sprint(len(Arr$N{}), Alias$N{"a": nil}["a"] == nil)`},
	{"init-order-vars", `var first$N = second$N + 1
var second$N = third$N()

func third$N() int { return 40 }`, `{FMT}Sprint(first$N)`},
	{"blank-and-underscore", `var _ = {FMT}Sprint
var _, blank$N = 1, 2

func Blank$N(_ int, _ string) (_ int) {
	_ = blank$N
	for range []int{1} {
	}
	return
}`, `{FMT}Sprint(Blank$N(1, ""))`},
	{"goto-and-empty", `func Goto$N(n int) (c int) {
loop:
	if n > 0 {
		n--
		c++
		goto loop
	}
	;
	return
}`, `{FMT}Sprint(Goto$N(4))`},
	{"conversions-assertions", `func Conv$N(v interface{}) string {
	b := []byte("héllo")
	r := []rune(string(b))
	f := float64(len(r)) / 2
	u := uint8(int(f) + 250)
	n, ok := v.(int)
	var e error = {FMT}Errorf("e")
	_, isS := e.({FMT}Stringer)
	return {FMT}Sprint(len(b), len(r), f, u, n, ok, isS, (*int)(nil) == nil)
}`, `Conv$N(3) + Conv$N("x")`},
	{"struct-compare-anon", `func Anon$N() string {
	p := struct {
		X, Y int
		T    struct{ Z string }
	}{X: 1, T: struct{ Z string }{"z"}}
	q := p
	q.Y = 2
	pp := &p
	pp.T.Z += "!"
	return {FMT}Sprint(p == q, p.T.Z, (*pp).X)
}`, `Anon$N()`},
	{"renamed-locals-in-closures-fields-labels", `type Named$N struct{ fmt, strings string }

func (n Named$N) lib() string { return n.fmt + n.strings }

func Renamed$N() string {
	fmt := "f"
	strings := "s"
	lib := 3
	sort := []int{2, 1}
	get := func() string {
		inner := fmt + strings
		{
			sort := inner + "!"
			return sort + string(rune('0'+lib))
		}
	}
	h := Named$N{fmt: fmt, strings: strings}
strings:
	for i := range sort {
		if i > 0 {
			continue strings
		}
		lib += sort[i]
	}
	return get() + h.lib() + string(rune('0'+lib))
}`, `Renamed$N()`},
	{"shadowing-parameters-and-results", `func Shadow$N(fmt string, lib int) (strings string, sort error) {
	strings = fmt + string(rune('0'+lib))
	func(fmt int) {
		strings += string(rune('a' + fmt))
	}(lib + 1)
	return strings, sort
}`, `func() string { s, e := Shadow$N("p", 4); return {FMT}Sprint(s, e) }()`},
	{"generic-method-instantiation", `type Stack$N[T any] []T

func (s *Stack$N[T]) Push(v T) { *s = append(*s, v) }
func (s Stack$N[T]) Map(f func(T) T) Stack$N[T] {
	out := make(Stack$N[T], 0, len(s))
	for _, v := range s {
		out.Push(f(v))
	}
	return out
}

func UseStack$N() string {
	var s Stack$N[string]
	s.Push("a")
	s.Push("b")
	return {FMT}Sprint(s.Map({STR}ToUpper), Apply$N[int, string](3, func(i int) string { return {FMT}Sprint(i) }))
}

func Apply$N[A, B any](a A, f func(A) B) B { return f(a) }`, `UseStack$N()`},
	{"renamed-locals-as-literal-keys", `var scale$N = 3

type KeyRec$N struct{ fmt, scale$N int }

func Keys$N(zoom int) string {
	scale$N := scale$N
	if zoom > 0 {
		scale$N = zoom * 2
	}
	const fmt = 1
	const lib = 2
	sort := "k"
	strings := 4
	m := map[int]string{0: "origin", scale$N: "unit", 2 * scale$N: "double", fmt: "one", strings + 20: "far"}
	arr := [...]string{lib: "two", fmt: "one"}
	sl := []int{fmt: scale$N, lib: fmt}
	ms := map[string]int{sort: fmt, sort + "x": lib}
	rec := KeyRec$N{fmt: fmt, scale$N: scale$N}
	nested := map[int]map[string]int{strings: {sort: scale$N}}
	byVar := map[int]int{strings: strings, scale$N: fmt}
	keys := ""
	for k := 0; k < 64; k++ {
		if v, ok := m[k]; ok {
			keys += string(rune('0'+k%10)) + v
		}
	}
	return keys + arr[lib] + arr[fmt] + string(rune('0'+sl[fmt])) + string(rune('0'+ms[sort]+ms[sort+"x"])) +
		string(rune('0'+rec.fmt+rec.scale$N)) + string(rune('0'+nested[strings][sort]+len(arr)+len(sl))) + string(rune('0'+byVar[strings]+byVar[scale$N]))
}`, `Keys$N(0) + "|" + Keys$N(4)`},
	{"locals-consts-types-typeparams-named-like-generated-imports", `func Pad$N(s string) string {
	const strings = 3
	return {STR}Repeat(s, strings)
}

func Join$N[strings any](xs []strings, f func(strings) string) string {
	var parts []string
	for _, x := range xs {
		parts = append(parts, f(x))
	}
	return {STR}Join(parts, ",")
}

func Shout$N(s string) string {
	type strings struct{ v string }
	x := strings{v: s}
	return {STR}ToUpper(x.v)
}`, `Pad$N("ab") + Join$N([]int{1, 2}, func(i int) string { return {FMT}Sprint(i * i) }) + Shout$N("hey")`},
	{"typeswitch-var-named-like-import", `func TS$N(v interface{}) string {
	switch strings := v.(type) {
	case int:
		return string(rune('0' + strings + 1))
	case string:
		return strings + "!"
	}
	return "?"
}`, `TS$N(1) + TS$N("a")`},
	{"embedded-imported-field", `type Emb$N struct {
	{STR}Builder
	n int
}

func UseEmb$N() string {
	var e Emb$N
	e.WriteString("x")
	e.n++
	return e.String() + {FMT}Sprint(e.n)
}`, `UseEmb$N()`},
	{"renamed-local-next-to-its-numbered-sibling", `func Two$N() string {
	strings := "a"
	strings2 := "b"
	sort, sort2, sort3 := 1, 2, 3
	f := func(fmt2 int) int {
		fmt := fmt2 * 2
		return fmt + fmt2
	}
	return strings + strings2 + string(rune('0'+sort+sort2*2+sort3*3)) + string(rune('0'+f(1)))
}`, `Two$N()`},
	{"typeswitch-var-and-local-whose-new-names-coincide", `var gx$N, gx$N_ = 100, 200

func Guard$N(v interface{}) int {
	switch gx$N := v.(type) {
	case int:
		{
			gx$N_ := 10
			return gx$N + gx$N_
		}
	case string:
		return len(gx$N)
	}
	return gx$N + gx$N_
}`, `{FMT}Sprint(Guard$N(5), Guard$N("abc"), Guard$N(nil))`},
	{"local-alias-shadowing-a-package-level-name-embedded-in-unnamed-structs", `var ecfg$Nq = 1

func mkEmb$N() interface{} {
	type ecfg$Nq = int
	return struct{ ecfg$Nq }{7}
}

func rdEmb$N(v interface{}) int {
	type ecfg$Nq = int
	ecfg$Nq2 := 0
	_ = ecfg$Nq2
	s, ok := v.(struct{ ecfg$Nq })
	if !ok {
		return -1
	}
	return s.ecfg$Nq
}

type esb$Nq = {STR}Builder

type EP$N struct{ esb$Nq }

func EG$N() EP$N {
	type esb$Nq = {STR}Builder
	var x struct{ esb$Nq }
	x.WriteString("hi")
	return EP$N(x)
}`, `func() string { p := EG$N(); return {FMT}Sprint(rdEmb$N(mkEmb$N()), ecfg$Nq, p.Len()) }()`},
	{"typeswitch-var-spelled-like-the-next-candidate", `func tagfn$Nq(s string) string { return "<" + s + ">" }

func Describe$N(v interface{}) string {
	switch tagfn$Nq2 := v.(type) {
	case string:
		if tagfn$Nq2 != "" {
			tagfn$Nq := "s:"
			return tagfn$Nq + tagfn$Nq2
		}
	case int:
		return {FMT}Sprint("i:", tagfn$Nq2)
	}
	return tagfn$Nq("?")
}`, `Describe$N("x") + Describe$N(7) + Describe$N(nil)`},
	{"renamed-local-type-used-as-embedded-field", `type cfg$Nq struct{ name string }

func (cfg$Nq) Who() string { return "package-level" }

type whoer$N interface{ Who() string }

func RunEmb$N() string {
	type cfg$Nq struct{ n int }
	type wrapper struct {
		cfg$Nq
		extra int
	}
	type pwrapper struct {
		*cfg$Nq
		extra int
	}
	w := wrapper{cfg$Nq: cfg$Nq{n: 7}, extra: 1}
	p := pwrapper{&w.cfg$Nq, 2}
	p.cfg$Nq.n++
	out := {FMT}Sprint(w.cfg$Nq.n, w.n, p.n, p.extra)
	var i interface{} = w
	if x, ok := i.(whoer$N); ok {
		return out + " has Who: " + x.Who()
	}
	return out + " no Who"
}`, `RunEmb$N() + cfg$Nq{}.Who()`},
	{"ungrouped-var-ending-in-a-qualified-name-with-literal-params-named-like-imports", `var total$N = func(strings string, n int) int { return len({STR}ToUpper(strings))*{LIB}Const + n }("ab", 3) + {LIB}Const

var fn$N func(fmt string) *{LIB}Other

type handler$N func(strings string, fmt int) {LIB}Exported`, `total$N`},
	{"go-embed-directive-attached", `//go:embed embed_data.txt
var embedded$N string

// embeddedGroup$N holds a second copy.
var (
	//go:embed embed_data.txt
	embeddedBytes$N []byte
)`, `embedded$N + string(embeddedBytes$N)`},
	{"go-embed-directive-detached-by-a-blank-line", `//go:embed embed_data.txt

var detached$N string`, `detached$N`},
	{"init-statements-of-every-statement-kind", `func unwrapInit$N(v interface{}) interface{} {
	if p, ok := v.(*int); ok {
		return *p
	}
	return v
}

func TSInit$N(v interface{}) string {
	switch v := unwrapInit$N(v); t := v.(type) {
	case int:
		return {FMT}Sprint("int ", t)
	case string:
		return "string " + t
	default:
		_ = v
		return "other"
	}
}

func OtherInits$N(n int) string {
	out := ""
	switch m := n * 2; {
	case m > 4:
		out += "big"
	default:
		out += "small"
	}
	switch m := n + 1; m {
	case 3:
		out += "three"
	}
	if m := n - 1; m == 1 {
		out += "one"
	} else if k := m * 3; k > 5 {
		out += "k"
	}
	for i, j := 0, n; i < j; i, j = i+1, j-1 {
		out += "."
	}
	c := make(chan int, 1)
	c <- n
	select {
	case v, ok := <-c:
		out += {FMT}Sprint(v, ok)
	}
	return out
}`, `func() string { x := 7; return TSInit$N(&x) + TSInit$N("s") + TSInit$N(3.5) + OtherInits$N(2) + OtherInits$N(5) }()`},
	{"go-embed-directive-detached-with-other-comment-groups-between", `//go:embed embed_data.txt

// TODO(someone): a free-standing note between the directive and the variable.

// farDetached$N is documented as well.
var farDetached$N string

//go:embed embed_data.txt

/* a block comment in between */

var farDetachedB$N []byte`, `farDetached$N + string(farDetachedB$N)`},
	{"local-generic-type-named-like-import-embedded-and-selected", `func GenEmb$N(s string) string {
	type strings[T any] struct{ v T }
	type W[T any] struct {
		strings[T]
		o T
	}
	w := W[int]{strings: strings[int]{v: 1}, o: 2}
	p := &W[string]{strings[string]{v: s}, s}
	return {STR}ToUpper(s) + {STR}Repeat("x", w.strings.v+w.v+w.o) + p.strings.v + p.v + p.o
}`, `GenEmb$N("ge")`},
	{"local-generic-type-with-method-like-fields-used-through-instances", `type box$N[T any] struct {
	strings T
	sort   []T
}

func (b box$N[T]) first() T { return b.sort[0] }

func UseBox$N() string {
	b := box$N[string]{strings: "s", sort: []string{"z", "a"}}
	c := box$N[int]{sort: []int{3}}
	return {STR}ToUpper(b.strings+b.first()) + {FMT}Sprint(c.first(), len(c.sort))
}`, `UseBox$N()`},
}

// c15NeedsStrAlias: snippets that declare a local named "strings" and use package strings inside
// its scope — legal only where the user's own name for that package is something else.
var c15NeedsStrAlias = map[string]bool{"locals-consts-types-typeparams-named-like-generated-imports": true, "local-generic-type-named-like-import-embedded-and-selected": true, "ungrouped-var-ending-in-a-qualified-name-with-literal-params-named-like-imports": true}
