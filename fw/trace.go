package fw

import (
	"bufio"
	"encoding/json"
	"fmt"
	"os"
	"sort"
	"strconv"
	"strings"
)

// D mirrors tr.D.
type D struct {
	K    string `json:"k"`
	ID   int64  `json:"id,omitempty"`
	Addr uint64 `json:"addr,omitempty"`
	T    string `json:"t,omitempty"`
	V    string `json:"v,omitempty"`
	F    []DF   `json:"f,omitempty"`
	E    []*D   `json:"e,omitempty"`
}

type DF struct {
	N    string `json:"n"`
	Addr uint64 `json:"addr,omitempty"`
	D    *D     `json:"d"`
}

// Canon renders a descriptor without addresses and Go type names.
func (d *D) Canon() string {
	if d == nil {
		return "nil"
	}
	switch d.K {
	case "zero":
		return "zero"
	case "id":
		return "#" + strconv.FormatInt(d.ID, 10)
	case "struct":
		if d.V == "zero" {
			return "zero"
		}
		s := ""
		if d.ID != 0 {
			s = "#" + strconv.FormatInt(d.ID, 10)
		}
		if len(d.F) == 0 {
			if s == "" {
				return "zero"
			}
			return s
		}
		var fs []string
		for _, f := range d.F {
			fs = append(fs, f.N+":"+f.D.Canon())
		}
		return s + "{" + strings.Join(fs, ",") + "}"
	case "ptr":
		return "*" + d.E[0].Canon()
	case "list":
		var es []string
		for _, e := range d.E {
			es = append(es, e.Canon())
		}
		return "[" + strings.Join(es, ",") + "]"
	case "map":
		var fs []string
		for _, f := range d.F {
			fs = append(fs, f.N+":"+f.D.Canon())
		}
		return "map{" + strings.Join(fs, ",") + "}"
	case "func":
		if len(d.E) == 1 {
			return "fn(" + d.E[0].Canon() + ")"
		}
		return "fn"
	case "bool":
		return "true"
	case "str":
		return "str:" + d.V
	}
	return d.K
}

// Field returns the named field's descriptor entry.
func (d *D) Field(name string) *DF {
	if d == nil {
		return nil
	}
	if d.K == "ptr" && len(d.E) == 1 {
		return d.E[0].Field(name)
	}
	for i := range d.F {
		if d.F[i].N == name {
			return &d.F[i]
		}
	}
	return nil
}

// Event is one trace record.
type Event struct {
	Seq       int64    `json:"seq"`
	Ev        string   `json:"ev"`
	Prog      string   `json:"prog,omitempty"`
	Call      int64    `json:"call,omitempty"`
	Inj       string   `json:"inj,omitempty"`
	Plan      string   `json:"plan,omitempty"`
	Key       string   `json:"key,omitempty"`
	In        []*D     `json:"in,omitempty"`
	Out       *D       `json:"out,omitempty"`
	Args      []*D     `json:"args,omitempty"`
	Res       *D       `json:"res,omitempty"`
	Dd        *D       `json:"d,omitempty"`
	Home      *D       `json:"home,omitempty"`
	Err       int64    `json:"err,omitempty"`
	ErrText   string   `json:"err_text,omitempty"`
	HasCu     bool     `json:"has_cu,omitempty"`
	CuNil     bool     `json:"cu_nil,omitempty"`
	HasErr    bool     `json:"has_err,omitempty"`
	IsZero    bool     `json:"is_zero,omitempty"`
	Msg       string   `json:"msg,omitempty"`
	Kind      string   `json:"kind,omitempty"`
	Name      string   `json:"name,omitempty"`
	Vals      []string `json:"vals,omitempty"`
	Known     bool     `json:"known,omitempty"`
	DeepEqual bool     `json:"deep_equal,omitempty"`
	SamePtr   bool     `json:"same_ptr,omitempty"`
}

func (e Event) Short() string {
	switch e.Ev {
	case "prov":
		var ins []string
		for _, d := range e.In {
			ins = append(ins, d.Canon())
		}
		return fmt.Sprintf("%d prov %s(%s) -> %s", e.Seq, e.Key, strings.Join(ins, ", "), e.Out.Canon())
	case "prov_fail":
		return fmt.Sprintf("%d prov_fail %s err=%d", e.Seq, e.Key, e.Err)
	case "cleanup", "poison":
		return fmt.Sprintf("%d %s %s", e.Seq, e.Ev, e.Key)
	case "inj_enter":
		var ins []string
		for _, d := range e.Args {
			ins = append(ins, d.Canon())
		}
		return fmt.Sprintf("%d inj_enter %s(%s)", e.Seq, e.Inj, strings.Join(ins, ", "))
	case "inj_ret":
		return fmt.Sprintf("%d inj_ret %s res=%s zero=%v cu_nil=%v err=%d", e.Seq, e.Inj, e.Res.Canon(), e.IsZero, e.CuNil, e.Err)
	case "call_begin":
		return fmt.Sprintf("%d call_begin %s plan=%q", e.Seq, e.Inj, e.Plan)
	}
	return fmt.Sprintf("%d %s", e.Seq, e.Ev)
}

// LoadTrace reads a JSONL trace.
func LoadTrace(path string) ([]Event, error) {
	f, err := os.Open(path)
	if err != nil {
		return nil, err
	}
	defer f.Close()
	var evs []Event
	sc := bufio.NewScanner(f)
	sc.Buffer(make([]byte, 1<<20), 1<<26)
	for sc.Scan() {
		var e Event
		if err := json.Unmarshal(sc.Bytes(), &e); err != nil {
			return evs, fmt.Errorf("bad trace line: %v", err)
		}
		evs = append(evs, e)
	}
	return evs, sc.Err()
}

// CallTrace is the events of one injector call.
type CallTrace struct {
	Prog, Inj, Plan string
	Call            int64
	Events          []Event
}

// SplitCalls groups a trace by program and call.
func SplitCalls(evs []Event) map[string][]*CallTrace {
	out := map[string][]*CallTrace{}
	var cur *CallTrace
	for _, e := range evs {
		switch e.Ev {
		case "call_begin":
			cur = &CallTrace{Prog: e.Prog, Inj: e.Inj, Plan: e.Plan, Call: e.Call}
			out[e.Prog] = append(out[e.Prog], cur)
		case "call_end":
			cur = nil
		default:
			if cur != nil && e.Call == cur.Call {
				cur.Events = append(cur.Events, e)
			}
		}
	}
	return out
}

func (ct *CallTrace) Dump() string {
	var b strings.Builder
	fmt.Fprintf(&b, "call %d %s/%s plan=%q\n", ct.Call, ct.Prog, ct.Inj, ct.Plan)
	for _, e := range ct.Events {
		b.WriteString("  " + e.Short() + "\n")
	}
	return b.String()
}

// ---------------------------------------------------------------------------
// Expected descriptors from the model

// constDesc mirrors fileCtx.mk(t, id, konst=true).
func constDesc(t *Ty, id int64) *D {
	switch t.K {
	case "named":
		d := t.Decl
		if d.Alias {
			return constDesc(d.Under, id)
		}
		switch d.Carrier {
		case "struct":
			r := &D{K: "struct", ID: id}
			for _, f := range d.Under.Fields {
				if f.Name != "ID_" {
					r.F = append(r.F, DF{N: fieldName(f), D: &D{K: "zero"}})
				}
			}
			return r
		case "int", "string":
			return &D{K: "id", ID: id}
		case "wrap":
			return constDesc(d.Under, id)
		case "iface":
			return constDesc(d.Under.Params[0], id)
		case "parent":
			r := &D{K: "struct", ID: id}
			n := 1
			for _, f := range d.Under.Fields {
				if f.Name == "ID_" {
					continue
				}
				if isPrevented(f) && f.Ty.K == "basic" {
					r.F = append(r.F, DF{N: fieldName(f), D: &D{K: "zero"}})
					continue
				}
				fid, _ := strconv.ParseInt(strconv.FormatInt(id, 10)+strconv.Itoa(n), 10, 64)
				n++
				r.F = append(r.F, DF{N: fieldName(f), D: constDesc(f.Ty, fid)})
			}
			return r
		}
	case "basic":
		if t.Name == "bool" {
			return &D{K: "bool", V: "true"}
		}
		return &D{K: "id", ID: id}
	case "ptr":
		return &D{K: "ptr", E: []*D{constDesc(t.Elem, id)}}
	case "slice":
		return &D{K: "list", E: []*D{constDesc(t.Elem, id)}}
	case "array":
		r := &D{K: "list", E: []*D{constDesc(t.Elem, id)}}
		for i := 1; i < t.N; i++ {
			r.E = append(r.E, &D{K: "zero"})
		}
		return r
	case "map":
		k := "id"
		if t.MapKey.K == "basic" && t.MapKey.Name != "string" {
			k = "0"
		}
		return &D{K: "map", F: []DF{{N: k, D: constDesc(t.Elem, id)}}}
	case "struct":
		r := &D{K: "struct", ID: id}
		for _, f := range t.Fields {
			if f.Name != "ID_" {
				r.F = append(r.F, DF{N: fieldName(f), D: &D{K: "zero"}})
			}
		}
		return r
	}
	return &D{K: "unknown"}
}

// expecter computes expected descriptors for one call from the model and log.
type expecter struct {
	p       *Program
	pl      *InjPlan
	provOut map[string]*D // item key -> out descriptor logged in this call
	args    []*D
	memo    map[string]*D
	err     string
}

func (x *expecter) expect(k string) *D {
	if d, ok := x.memo[k]; ok {
		return d
	}
	pv := x.pl.Info.prov[k]
	var d *D
	switch {
	case pv == nil:
		x.err = "model: no provision for " + k
		d = &D{K: "unknown"}
	case pv.Item == nil:
		if pv.Arg < len(x.args) {
			d = x.args[pv.Arg]
		} else {
			x.err = "log: missing arg"
			d = &D{K: "unknown"}
		}
	default:
		it := pv.Item
		switch it.Kind {
		case KFunc:
			d = x.provOut[it.Key]
			if d == nil {
				x.err = "log: provider " + it.Key + " did not run"
				d = &D{K: "unknown"}
			}
		case KValue:
			if it.Expr != "" {
				d = &D{K: "any"}
			} else {
				d = constDesc(it.Out, it.ValID)
			}
		case KIfaceValue:
			if it.Expr != "" {
				d = &D{K: "any"}
			} else {
				d = constDesc(it.Concrete, it.ValID)
			}
		case KBind:
			d = x.expect(pv.Via)
		case KStruct, KStructLit:
			s := &D{K: "struct"}
			sel := map[string]bool{}
			for _, f := range x.p.StructSel(it) {
				sel[fieldName(f)] = true
			}
			allZero := true
			for _, f := range structFields(it.Struct) {
				n := fieldName(f)
				if sel[n] {
					fd := x.expect(f.Ty.Key(x.p))
					if fd.Canon() != "zero" {
						allZero = false
					}
					s.F = append(s.F, DF{N: n, D: fd})
				} else {
					s.F = append(s.F, DF{N: n, D: &D{K: "zero"}})
				}
			}
			if allZero {
				s = &D{K: "zero"}
			}
			if pv.OutIdx == 1 {
				// through the pointer the scratch field is not compared (see tr.descStruct)
				if s.K == "struct" {
					cp := &D{K: "struct"}
					for _, f := range s.F {
						if f.N != "Scratch_" {
							cp.F = append(cp.F, f)
						}
					}
					s = cp
				}
				d = &D{K: "ptr", E: []*D{s}}
			} else {
				d = s
			}
		case KFields:
			parent := x.expect(it.Parent.Key(x.p))
			f := parent.Field(pv.Via)
			if f == nil {
				if parent.K == "any" {
					d = &D{K: "any"}
				} else {
					if x.err == "" {
						x.err = "model: parent descriptor " + parent.Canon() + " has no field " + pv.Via
					} else {
						x.err = "the field's designated parent was not produced: " + x.err
					}
					d = &D{K: "unknown"}
				}
			} else if pv.OutIdx == 1 {
				d = &D{K: "ptr", Addr: f.Addr, E: []*D{f.D}}
			} else {
				d = f.D
			}
		}
	}
	x.memo[k] = d
	return d
}

// sameDesc compares observed and expected descriptors ("any" matches anything).
func sameDesc(obs, exp *D) bool {
	if exp.K == "any" {
		return true
	}
	if obs.Canon() == exp.Canon() {
		return true
	}
	return eqDesc(obs, exp)
}

// eqDesc compares descriptors structurally; a subtree cut off by the runtime's
// depth limit ("deep") matches anything (the same value is reached at different
// depths through different paths).
func eqDesc(a, b *D) bool {
	if a == nil || b == nil {
		return a == b
	}
	if a.K == "deep" || b.K == "deep" || a.K == "any" || b.K == "any" {
		return true
	}
	az, bz := a.Canon() == "zero", b.Canon() == "zero"
	if az || bz {
		return az == bz
	}
	if a.K != b.K || a.ID != b.ID || len(a.F) != len(b.F) || len(a.E) != len(b.E) {
		return false
	}
	if (a.K == "str" || a.K == "bool") && a.V != b.V {
		return false
	}
	for i := range a.F {
		if a.F[i].N != b.F[i].N || !eqDesc(a.F[i].D, b.F[i].D) {
			return false
		}
	}
	for i := range a.E {
		if !eqDesc(a.E[i], b.E[i]) {
			return false
		}
	}
	return true
}

func sortedKeys(m map[string]bool) []string {
	var r []string
	for k := range m {
		r = append(r, k)
	}
	sort.Strings(r)
	return r
}
