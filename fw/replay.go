package fw

import (
	"fmt"
	"os"
	"path/filepath"
	"strings"
)

// replay re-runs wire gen on the saved module and prints what happens now.
func replay(path string) int {
	mod := filepath.Join(path, "module")
	if _, err := os.Stat(mod); err != nil {
		fmt.Fprintln(os.Stderr, "no module directory in", path)
		return 2
	}
	wd, _ := os.Getwd()
	e, err := NewEnv("/repo", wd, "quick", 1)
	if err != nil {
		fmt.Fprintln(os.Stderr, err)
		return 2
	}
	defer e.Close()
	root := filepath.Join(e.Scratch, "replay")
	os.MkdirAll(root, 0o755)
	if err := WriteModule(root, e.Repo, e.TrSrc); err != nil {
		fmt.Fprintln(os.Stderr, err)
		return 2
	}
	filepath.Walk(mod, func(p string, info os.FileInfo, err error) error {
		if err != nil || info.IsDir() {
			return nil
		}
		rel, _ := filepath.Rel(mod, p)
		if strings.HasSuffix(rel, "wire_gen.go") {
			return nil
		}
		b, _ := os.ReadFile(p)
		dst := filepath.Join(root, rel)
		os.MkdirAll(filepath.Dir(dst), 0o755)
		os.WriteFile(dst, b, 0o644)
		return nil
	})
	if v, err := os.ReadFile(filepath.Join(path, "verdict.txt")); err == nil {
		fmt.Printf("--- recorded verdict\n%s\n", v)
	}
	res := e.Wire(root, nil, "gen", "./...")
	fmt.Printf("--- wire gen ./... exit=%d\n%s%s\n", res.Exit, res.Stdout, res.Stderr)
	b := e.Run(root, e.GoEnv(), 300e9, "go", "build", "./...")
	fmt.Printf("--- go build ./... exit=%d\n%s%s\n", b.Exit, b.Stdout, b.Stderr)
	if res.Crashed() || b.Exit != 0 {
		return 1
	}
	return 0
}
