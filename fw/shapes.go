package fw

import (
	"encoding/json"
	"fmt"
)

func marshalIndent(v interface{}) string {
	b, err := json.MarshalIndent(v, "", " ")
	if err != nil {
		return "marshal error: " + err.Error()
	}
	return string(b)
}

// PB is a small builder for hand-shaped programs.
type PB struct {
	P *Program
	n int
}

func NewPB(id string, pkgs ...string) *PB {
	p := &Program{ID: id, Module: ModulePath, Feat: map[string]string{}}
	if len(pkgs) == 0 {
		pkgs = []string{"app"}
	}
	for _, n := range pkgs {
		p.Pkgs = append(p.Pkgs, &Pkg{Name: n, Dir: n})
	}
	return &PB{P: p}
}

func (b *PB) next() int { b.n++; return b.n }

var idField = FieldT{Name: "ID_", Ty: Basic("tr.ID")}

// Carrier declares a fresh named carrier struct.
func (b *PB) Carrier(pkg int, name string) *Ty {
	if name == "" {
		name = fmt.Sprintf("T%d", b.next())
	}
	return Named(b.P.NewDecl(pkg, name, StructOf(idField), "struct"))
}

func (b *PB) NamedOf(pkg int, name string, under *Ty, carrier string) *Ty {
	return Named(b.P.NewDecl(pkg, name, under, carrier))
}

// Func declares a provider function.
func (b *PB) Func(pkg int, name string, out *Ty, cleanup, err bool, params ...*Ty) *Item {
	if name == "" {
		name = fmt.Sprintf("New%d", b.next())
	}
	return b.P.AddItem(&Item{Kind: KFunc, Pkg: pkg, Name: name, Out: out, Cleanup: cleanup, Err: err, Params: params})
}

func (b *PB) Value(t *Ty) *Item {
	return b.P.AddItem(&Item{Kind: KValue, Out: t, ValID: int64(1000000 + b.next())})
}

func (b *PB) Struct(t *Ty, star bool, names ...string) *Item {
	return b.P.AddItem(&Item{Kind: KStruct, Struct: t, Star: star, Names: names})
}

func (b *PB) Fields(parent *Ty, names ...string) *Item {
	it := b.P.AddItem(&Item{Kind: KFields, Parent: parent, Names: names})
	it.Key = fmt.Sprintf("f%d", it.ID)
	return it
}

// Iface declares an interface with one method implemented by impl (T or *T).
func (b *PB) Iface(pkg int, name string, impl *Ty, ptrRecv bool) *Ty {
	m := fmt.Sprintf("M%d", b.next())
	base := methodBase(impl)
	base.Methods = append(base.Methods, Method{Name: m, PtrRecv: ptrRecv})
	if name == "" {
		name = fmt.Sprintf("I%d", b.n)
	}
	return Named(b.P.NewDecl(pkg, name, &Ty{K: "iface", Meths: []string{m}, Params: []*Ty{impl}}, "iface"))
}

func (b *PB) Bind(iface, concrete *Ty) *Item {
	return b.P.AddItem(&Item{Kind: KBind, Iface: iface, Concrete: concrete})
}

func (b *PB) IfaceValue(iface, concrete *Ty) *Item {
	return b.P.AddItem(&Item{Kind: KIfaceValue, Iface: iface, Concrete: concrete, ValID: int64(1000000 + b.next())})
}

func (b *PB) Set(pkg int, name string, members ...Ref) *Set {
	return b.P.AddSet(&Set{Pkg: pkg, Name: name, Members: members})
}

func (b *PB) Inj(name string, result *Ty, cleanup, err bool, params []Param, build ...Ref) *Injector {
	in := &Injector{Name: name, Result: result, Cleanup: cleanup, Err: err, Params: params, Build: build}
	b.P.Injs = append(b.P.Injs, in)
	return in
}

func refs(items ...*Item) []Ref {
	var r []Ref
	for _, it := range items {
		r = append(r, ItemRef(it.ID))
	}
	return r
}

// ---------------------------------------------------------------------------
// Result-kind matrix (C01, C20): every type kind as injector result x result shape

type kindSpec struct {
	name string
	mk   func(b *PB, pkg int) *Ty
}

func resultKinds() []kindSpec {
	basic := func(n string) kindSpec {
		return kindSpec{"basic-" + n, func(b *PB, pkg int) *Ty { return Basic(n) }}
	}
	ks := []kindSpec{
		{"named-struct", func(b *PB, pkg int) *Ty { return b.Carrier(pkg, "") }},
		{"unnamed-struct", func(b *PB, pkg int) *Ty {
			return StructOf(idField, FieldT{Name: fmt.Sprintf("Tag%d", b.next()), Ty: Basic("bool")})
		}},
		{"empty-struct", func(b *PB, pkg int) *Ty {
			return b.NamedOf(pkg, fmt.Sprintf("Empty%d", b.next()), StructOf(), "opaque")
		}},
		{"array", func(b *PB, pkg int) *Ty { return ArrayOf(3, b.Carrier(pkg, "")) }},
		{"named-array", func(b *PB, pkg int) *Ty {
			return b.NamedOf(pkg, fmt.Sprintf("Arr%d", b.next()), ArrayOf(2, b.Carrier(pkg, "")), "wrap")
		}},
		basic("bool"), basic("int"), basic("int8"), basic("int16"), basic("int32"), basic("int64"),
		basic("uint"), basic("uint8"), basic("uint16"), basic("uint32"), basic("uint64"), basic("uintptr"),
		basic("float32"), basic("float64"), basic("complex64"), basic("complex128"), basic("string"),
		basic("byte"), basic("rune"), basic("unsafe.Pointer"), basic("error"),
		{"named-int", func(b *PB, pkg int) *Ty { return b.NamedOf(pkg, fmt.Sprintf("NI%d", b.next()), Basic("int"), "int") }},
		{"named-string", func(b *PB, pkg int) *Ty {
			return b.NamedOf(pkg, fmt.Sprintf("NS%d", b.next()), Basic("string"), "string")
		}},
		{"named-bool", func(b *PB, pkg int) *Ty { return b.NamedOf(pkg, fmt.Sprintf("NB%d", b.next()), Basic("bool"), "bool") }},
		{"named-float", func(b *PB, pkg int) *Ty {
			return b.NamedOf(pkg, fmt.Sprintf("NF%d", b.next()), Basic("float64"), "int")
		}},
		{"named-complex", func(b *PB, pkg int) *Ty {
			return b.NamedOf(pkg, fmt.Sprintf("NC%d", b.next()), Basic("complex128"), "complexop")
		}},
		{"named-uptr", func(b *PB, pkg int) *Ty {
			return b.NamedOf(pkg, fmt.Sprintf("NU%d", b.next()), Basic("unsafe.Pointer"), "uptr")
		}},
		{"chan", func(b *PB, pkg int) *Ty { return ChanOf("", b.Carrier(pkg, "")) }},
		{"recv-chan", func(b *PB, pkg int) *Ty { return ChanOf("<-chan", b.Carrier(pkg, "")) }},
		{"send-chan", func(b *PB, pkg int) *Ty { return ChanOf("chan<-", b.Carrier(pkg, "")) }},
		{"named-iface", func(b *PB, pkg int) *Ty {
			impl := b.Carrier(pkg, "")
			return b.Iface(pkg, "", impl, false)
		}},
		{"empty-iface", func(b *PB, pkg int) *Ty { return &Ty{K: "iface"} }},
		// interface literals whose method set comes (partly) from an embedded interface
		{"iface-literal-embedding-named", func(b *PB, pkg int) *Ty {
			impl := b.Carrier(pkg, "")
			inner := b.Iface(pkg, "", impl, false)
			return &Ty{K: "iface", Embeds: []*Ty{inner}, Params: []*Ty{impl}}
		}},
		{"iface-literal-embedding-and-method", func(b *PB, pkg int) *Ty {
			impl := b.Carrier(pkg, "")
			inner := b.Iface(pkg, "", impl, false)
			m := fmt.Sprintf("Extra%d", b.next())
			methodBase(impl).Methods = append(methodBase(impl).Methods, Method{Name: m})
			return &Ty{K: "iface", Embeds: []*Ty{inner}, Meths: []string{m}, Params: []*Ty{impl}}
		}},
		{"slice-of-iface-literal-embedding", func(b *PB, pkg int) *Ty {
			impl := b.Carrier(pkg, "")
			inner := b.Iface(pkg, "", impl, false)
			return SliceOf(&Ty{K: "iface", Embeds: []*Ty{inner}, Params: []*Ty{impl}})
		}},
		{"map", func(b *PB, pkg int) *Ty { return MapOf(Basic("string"), b.Carrier(pkg, "")) }},
		{"pointer", func(b *PB, pkg int) *Ty { return PtrTo(b.Carrier(pkg, "")) }},
		{"ptr-ptr", func(b *PB, pkg int) *Ty { return PtrTo(PtrTo(b.Carrier(pkg, ""))) }},
		{"func", func(b *PB, pkg int) *Ty { return FuncRet(b.Carrier(pkg, "")) }},
		{"func-with-params", func(b *PB, pkg int) *Ty {
			return &Ty{K: "func", Params: []*Ty{Basic("int"), b.Carrier(pkg, "")}, Elem: b.Carrier(pkg, "")}
		}},
		{"func-variadic", func(b *PB, pkg int) *Ty {
			return &Ty{K: "func", Params: []*Ty{Basic("string"), SliceOf(b.Carrier(pkg, ""))}, Var: true, Elem: b.Carrier(pkg, "")}
		}},
		{"chan-of-recv-chan", func(b *PB, pkg int) *Ty { return ChanOf("", ChanOf("<-chan", b.Carrier(pkg, ""))) }},
		{"send-chan-of-chan", func(b *PB, pkg int) *Ty { return ChanOf("chan<-", ChanOf("", b.Carrier(pkg, ""))) }},
		{"recv-chan-of-send-chan", func(b *PB, pkg int) *Ty { return ChanOf("<-chan", ChanOf("chan<-", b.Carrier(pkg, ""))) }},
		{"map-of-func", func(b *PB, pkg int) *Ty { return MapOf(Basic("string"), FuncRet(b.Carrier(pkg, ""))) }},
		{"ptr-array", func(b *PB, pkg int) *Ty { return PtrTo(ArrayOf(2, b.Carrier(pkg, ""))) }},
		{"ptr-slice", func(b *PB, pkg int) *Ty { return PtrTo(SliceOf(b.Carrier(pkg, ""))) }},
		{"slice-of-ptr", func(b *PB, pkg int) *Ty { return SliceOf(PtrTo(b.Carrier(pkg, ""))) }},
		{"map-of-slice", func(b *PB, pkg int) *Ty { return MapOf(Basic("int"), SliceOf(b.Carrier(pkg, ""))) }},
		{"array-of-array", func(b *PB, pkg int) *Ty { return ArrayOf(2, ArrayOf(2, b.Carrier(pkg, ""))) }},
		{"named-ptr", func(b *PB, pkg int) *Ty {
			return b.NamedOf(pkg, fmt.Sprintf("NP%d", b.next()), PtrTo(b.Carrier(pkg, "")), "wrap")
		}},
		{"chan-of-unnamed-struct", func(b *PB, pkg int) *Ty {
			return ChanOf("", StructOf(idField, FieldT{Name: fmt.Sprintf("Tag%d", b.next()), Ty: Basic("bool")}))
		}},
		{"ptr-ptr-array", func(b *PB, pkg int) *Ty { return PtrTo(PtrTo(ArrayOf(2, b.Carrier(pkg, "")))) }},
		{"func-of-unnamed-struct", func(b *PB, pkg int) *Ty {
			return FuncRet(StructOf(idField, FieldT{Name: fmt.Sprintf("Tag%d", b.next()), Ty: Basic("bool")}))
		}},
		{"named-unicode", func(b *PB, pkg int) *Ty { return b.Carrier(pkg, fmt.Sprintf("Ωm%d", b.next())) }},
		{"named-unicode-own-name-collides", func(b *PB, pkg int) *Ty {
			// an unexported type of the injector's own package: the local derived from its name
			// collides with the type itself, so wire falls back to the package-prefixed spelling
			if pkg == 0 {
				return b.Carrier(pkg, fmt.Sprintf("école%d", b.next()))
			}
			return b.Carrier(pkg, fmt.Sprintf("École%d", b.next()))
		}},
		{"named-underscore", func(b *PB, pkg int) *Ty { return b.Carrier(pkg, fmt.Sprintf("T_%d_", b.next())) }},
		{"named-single-letter", func(b *PB, pkg int) *Ty {
			// one-rune exported names (Cyrillic capitals), unique per program
			k := 0
			for _, d := range b.P.Decls {
				if len([]rune(d.Name)) == 1 {
					k++
				}
			}
			return b.NamedOf(pkg, string(rune(0x410+k%32)), StructOf(idField), "struct")
		}},
		{"named-chan", func(b *PB, pkg int) *Ty {
			return b.NamedOf(pkg, fmt.Sprintf("NCh%d", b.next()), ChanOf("", b.Carrier(pkg, "")), "wrap")
		}},
		{"named-func", func(b *PB, pkg int) *Ty {
			return b.NamedOf(pkg, fmt.Sprintf("NFn%d", b.next()), FuncRet(b.Carrier(pkg, "")), "wrap")
		}},
		{"slice", func(b *PB, pkg int) *Ty { return SliceOf(b.Carrier(pkg, "")) }},
		{"named-slice", func(b *PB, pkg int) *Ty {
			return b.NamedOf(pkg, fmt.Sprintf("NSl%d", b.next()), SliceOf(b.Carrier(pkg, "")), "wrap")
		}},
		{"named-map", func(b *PB, pkg int) *Ty {
			return b.NamedOf(pkg, fmt.Sprintf("NM%d", b.next()), MapOf(Basic("int"), b.Carrier(pkg, "")), "wrap")
		}},
		{"generic", func(b *PB, pkg int) *Ty {
			var box *TypeDecl
			for _, d := range b.P.Decls {
				if d.Pkg == pkg && d.TParams == 1 {
					box = d
				}
			}
			if box == nil {
				box = b.P.NewDecl(pkg, "Box", StructOf(idField, FieldT{Name: "V", Ty: Basic("T0")}), "struct")
				box.TParams = 1
			}
			return &Ty{K: "named", Decl: box, DeclID: box.ID, TArgs: []*Ty{b.Carrier(pkg, "")}}
		}},
		{"alias", func(b *PB, pkg int) *Ty {
			c := b.Carrier(pkg, "")
			a := b.P.NewDecl(pkg, fmt.Sprintf("Al%d", b.next()), c, "")
			a.Alias = true
			return Named(a)
		}},
	}
	return ks
}

// resultKindMatrix: every kind x 4 result shapes x 2 failure placements, packed
// several injectors per package, in the injector package and in another package.
func resultKindMatrix(e *Env) []*Program {
	var progs []*Program
	kinds := resultKinds()
	perProg := 6
	for pkgVariant := 0; pkgVariant < 2; pkgVariant++ {
		for start := 0; start < len(kinds); start += perProg {
			end := start + perProg
			if end > len(kinds) {
				end = len(kinds)
			}
			b := NewPB(fmt.Sprintf("rk%d_%02d", pkgVariant, start), "app", "libk")
			b.P.Note = "result-kind-matrix"
			tpkg := pkgVariant // types in app or in lib
			names := ""
			for ki := start; ki < end; ki++ {
				k := kinds[ki]
				names += k.name + " "
				inj := 0
				addInj := func(res *Ty, cu, er bool, build ...*Item) {
					inj++
					b.Inj(fmt.Sprintf("K%dS%d", ki, inj), res, cu, er, nil, refs(build...)...)
				}
				// shape T
				{
					r := k.mk(b, tpkg)
					addInj(r, false, false, b.Func(tpkg, "", r, false, false))
				}
				// shape T,error
				{
					r := k.mk(b, tpkg)
					addInj(r, false, true, b.Func(tpkg, "", r, false, true))
				}
				// shape T,func()
				{
					r := k.mk(b, tpkg)
					c := b.Carrier(tpkg, "")
					addInj(r, true, false, b.Func(tpkg, "", c, true, false), b.Func(tpkg, "", r, false, false, c))
				}
				// shape T,func(),error ; failing provider after a cleanup
				{
					r := k.mk(b, tpkg)
					c := b.Carrier(tpkg, "")
					addInj(r, true, true, b.Func(tpkg, "", c, true, false), b.Func(tpkg, "", r, false, true, c))
				}
				// shape T,func(),error ; failing provider first, result produced by a cleanup provider
				{
					r := k.mk(b, tpkg)
					c := b.Carrier(tpkg, "")
					addInj(r, true, true, b.Func(tpkg, "", c, false, true), b.Func(tpkg, "", r, true, true, c))
				}
			}
			b.P.Feat = map[string]string{"matrix": "result-kind", "kinds": names, "typepkg": fmt.Sprint(tpkg)}
			progs = append(progs, b.P)
		}
	}
	return progs
}

// crossPkgAccessProgs: exported sets whose members are unexported in their home
// package; expected: a diagnostic or compilable output, never exit 0 + broken output.
func crossPkgAccessProgs(e *Env) []*Program {
	var progs []*Program
	{
		b := NewPB("xp_func", "app", "libx")
		a := b.Carrier(1, "A")
		f := b.Func(1, "newA", a, false, false)
		s := b.Set(1, "Set", ItemRef(f.ID))
		b.Inj("Init", a, false, false, nil, SetRef(s.ID))
		b.P.Note = "xpkg-unexported-func"
		b.P.RejectOK = true
		b.P.Feat = map[string]string{"matrix": "xpkg", "what": "unexported provider func in exported set"}
		progs = append(progs, b.P)
	}
	{
		b := NewPB("xp_field", "app", "libx")
		a := b.Carrier(1, "A")
		c := b.Carrier(1, "C")
		s := b.NamedOf(1, "S", StructOf(FieldT{Name: "Pub", Ty: a}, FieldT{Name: "priv", Ty: c}), "none")
		fa := b.Func(1, "NewA", a, false, false)
		fc := b.Func(1, "NewC", c, false, false)
		st := b.Struct(s, true)
		b.Inj("Init", s, false, false, nil, refs(fa, fc, st)...)
		b.P.Note = "xpkg-unexported-field"
		b.P.RejectOK = true
		b.P.Feat = map[string]string{"matrix": "xpkg", "what": "struct provider \"*\" with unexported field of another package"}
		progs = append(progs, b.P)
	}
	for _, v := range []string{"func", "struct", "visible"} {
		// a set of package liby lists a provider that lives in liby/internal/impl
		b := NewPB("xp_internal_"+v, "app", "liby", "impl", "libt")
		b.P.Pkgs[2].Dir = "liby/internal/impl"
		if v == "visible" {
			// control: the internal directory belongs to a tree the injector's package is part of
			b.P.Pkgs[2].Dir = "internal/impl"
		}
		a := b.Carrier(3, "A")
		var members []Ref
		result := a
		switch v {
		case "func", "visible":
			members = []Ref{ItemRef(b.Func(2, "NewA", a, false, false).ID)}
		case "struct":
			sd := b.NamedOf(2, "S", StructOf(FieldT{Name: "A", Ty: a}), "none")
			bt := b.Carrier(3, "B")
			members = refs(b.Func(3, "NewA", a, false, false), b.Struct(sd, true), b.Func(1, "NewB", bt, false, false, sd))
			result = bt
		}
		set := b.Set(1, "Set", members...)
		b.Inj("Init", result, false, false, nil, SetRef(set.ID))
		b.P.Note = "xpkg-internal-" + v
		b.P.RejectOK = v != "visible"
		b.P.Feat = map[string]string{"matrix": "xpkg", "what": "provider in an internal package: " + v}
		progs = append(progs, b.P)
	}
	for _, v := range []string{"provider", "value"} {
		// internal inside internal: app may import <root>/internal/svc but not
		// <root>/internal/svc/internal/impl, which a set of svc refers to
		b := NewPB("xp_nested_internal_"+v, "app", "svc", "impl", "cmdapp")
		b.P.Pkgs[1].Dir = "internal/svc"
		b.P.Pkgs[2].Dir = "internal/svc/internal/impl"
		b.P.Pkgs[3].Dir = "internal/svc/cmd/cmdapp"
		store := b.Carrier(2, "Store")
		service := b.Carrier(1, "Service")
		var src *Item
		if v == "value" {
			src = b.Value(store)
		} else {
			src = b.Func(2, "New", store, false, false)
		}
		set := b.Set(1, "Set", ItemRef(src.ID), ItemRef(b.Func(1, "NewService", service, false, false, store).ID))
		b.Inj("Init", service, false, false, nil, SetRef(set.ID))
		b.P.Note = "xpkg-nested-internal-" + v
		b.P.RejectOK = true
		b.P.Feat = map[string]string{"matrix": "xpkg", "what": "provider in an internal package of an internal package: " + v}
		progs = append(progs, b.P)
	}
	for _, v := range []string{"star", "named-pub", "named-priv", "fieldsof-priv"} {
		// a type of the injector's package defined over a struct of ANOTHER package that has an
		// unexported field: that field stays out of reach
		p := &Program{ID: "xp_localtype_" + v, Module: ModulePath, Extra: map[string]string{}, Feat: map[string]string{"matrix": "xpkg", "what": "local type over a foreign struct with an unexported field: " + v}, RawDriver: true, RejectOK: true}
		p.Pkgs = []*Pkg{{Name: "app", Dir: "app"}, {Name: "libx", Dir: "libx"}}
		p.Extra["1/lib.go"] = "package libx\n\ntype Hid struct {\n\tPub  int\n\tpriv string\n}\n\nfunc (h Hid) Priv() string { return h.priv }\n"
		p.Extra["0/decl.go"] = "package app\n\nimport \"" + p.ImportPath(1) + "\"\n\ntype L libx.Hid\n\nfunc NewInt() int { return 1 }\n\nfunc NewStr() string { return \"s\" }\n\nfunc NewL() L { return L{Pub: 2} }\n"
		build := map[string]string{
			"star":          "NewInt, NewStr, wire.Struct(new(L), \"*\")",
			"named-pub":     "NewInt, wire.Struct(new(L), \"Pub\")",
			"named-priv":    "NewStr, wire.Struct(new(L), \"priv\")",
			"fieldsof-priv": "NewL, wire.FieldsOf(new(L), \"priv\")",
		}[v]
		res, zero := "L", "L{}"
		if v == "fieldsof-priv" {
			res, zero = "string", "\"\""
		}
		p.Extra["0/wire.go"] = "//go:build wireinject\n// +build wireinject\n\npackage app\n\nimport \"github.com/google/wire\"\n\nfunc Init() " + res + " {\n\twire.Build(" + build + ")\n\treturn " + zero + "\n}\n"
		p.Extra["0/zz_driver.go"] = "//go:build !wireinject\n// +build !wireinject\n\npackage app\n\nfunc Scenarios() {}\n"
		p.Note = "xpkg-local-type-over-foreign-struct-" + v
		if v == "named-pub" {
			p.RejectOK = false
		}
		progs = append(progs, p)
	}
	{
		// control: everything exported
		b := NewPB("xp_ok", "app", "libx")
		a := b.Carrier(1, "A")
		c := b.Carrier(1, "C")
		s := b.NamedOf(1, "S", StructOf(FieldT{Name: "Pub", Ty: a}, FieldT{Name: "Pub2", Ty: c}), "none")
		fa := b.Func(1, "NewA", a, false, false)
		fc := b.Func(1, "NewC", c, false, false)
		st := b.Struct(s, true)
		set := b.Set(1, "Set", refs(fa, fc, st)...)
		b.Inj("Init", PtrTo(s), false, false, nil, SetRef(set.ID))
		b.P.Feat = map[string]string{"matrix": "xpkg", "what": "control"}
		progs = append(progs, b.P)
	}
	return progs
}

// cleanupChains: stress shapes for C03/C04.
func cleanupChains(e *Env) []*Program {
	var progs []*Program
	maxN := e.tierN(8, 10)
	// chains with 1..N cleanup+error providers
	// long chains: the numbering of the cleanup variables passes 10 and 20 (and 100), where
	// numeric and textual order of their names part ways
	lengths := []int{12, 23}
	if e.Tier == "thorough" {
		lengths = append(lengths, 37, 104)
	}
	for n := 1; n <= maxN; n++ {
		lengths = append(lengths, n)
	}
	for _, n := range lengths {
		for variant := 0; variant < 3; variant++ {
			if n > maxN && variant == 2 {
				continue
			}
			b := NewPB(fmt.Sprintf("ch%d_%d", n, variant), "app")
			var prev *Ty
			var items []*Item
			for k := 0; k < n; k++ {
				t := b.Carrier(0, "")
				cu, er := true, true
				switch variant {
				case 1:
					cu = k%2 == 0 // alternate cleanup / plain
				case 2:
					er = k%2 == 1
				}
				var params []*Ty
				if prev != nil {
					params = []*Ty{prev}
				}
				items = append(items, b.Func(0, "", t, cu, er, params...))
				prev = t
			}
			b.Inj("Init", prev, true, true, nil, refs(items...)...)
			b.P.Feat = map[string]string{"shape": "chain", "n": fmt.Sprint(n), "variant": fmt.Sprint(variant)}
			b.P.Note = "cleanup-chain"
			progs = append(progs, b.P)
		}
	}
	// diamonds: base <- L, R <- top ; cleanups on sibling branches, widths 2..5
	for w := 2; w <= 5; w++ {
		b := NewPB(fmt.Sprintf("dia%d", w), "app")
		base := b.Carrier(0, "")
		items := []*Item{b.Func(0, "", base, true, true)}
		var mids []*Ty
		for k := 0; k < w; k++ {
			m := b.Carrier(0, "")
			mids = append(mids, m)
			items = append(items, b.Func(0, "", m, true, k%2 == 0, base))
		}
		top := b.Carrier(0, "")
		items = append(items, b.Func(0, "", top, true, true, mids...))
		b.Inj("Init", top, true, true, nil, refs(items...)...)
		b.P.Feat = map[string]string{"shape": "diamond", "w": fmt.Sprint(w)}
		b.P.Note = "cleanup-diamond"
		progs = append(progs, b.P)
	}
	// mixed: cleanup providers interleaved with struct / field / value / bind steps
	for n := 2; n <= 6; n++ {
		b := NewPB(fmt.Sprintf("mix%d", n), "app")
		var items []*Item
		v := b.Carrier(0, "")
		items = append(items, b.Value(v))
		prev := v
		for k := 0; k < n; k++ {
			// cleanup provider consuming prev
			t := b.Carrier(0, "")
			items = append(items, b.Func(0, "", t, true, true, prev))
			// struct provider wrapping it
			s := b.NamedOf(0, fmt.Sprintf("S%d", b.next()), StructOf(FieldT{Name: "F", Ty: t}), "none")
			items = append(items, b.Struct(s, false, "F"))
			// a parent built from the struct, with a field selected
			ft := b.Carrier(0, "")
			par := b.NamedOf(0, fmt.Sprintf("P%d", b.next()), StructOf(idField, FieldT{Name: "Fld", Ty: ft}), "parent")
			items = append(items, b.Func(0, "", PtrTo(par), k%2 == 0, false, PtrTo(s)))
			items = append(items, b.Fields(PtrTo(par), "Fld"))
			prev = PtrTo(ft)
		}
		last := b.Carrier(0, "")
		items = append(items, b.Func(0, "", last, true, true, prev))
		b.Inj("Init", last, true, true, nil, refs(items...)...)
		b.P.Feat = map[string]string{"shape": "mixed", "n": fmt.Sprint(n)}
		b.P.Note = "cleanup-mixed"
		progs = append(progs, b.P)
	}
	return progs
}

// errNameProgs: the package declares its own err / cleanup identifiers.
func errNameProgs(e *Env) []*Program {
	var progs []*Program
	decls := [][]string{
		{`var err error = &%TR%Err{Key: "package-level err", N: -7}`},
		{`var cleanup = func() { panic("package-level cleanup called") }`},
		{`var err error = &%TR%Err{Key: "package-level err", N: -7}`, `var err2 error = &%TR%Err{Key: "package-level err2", N: -8}`, `var cleanup, cleanup2 = 1, 2`},
		{`func err() {}`},
		{`type err struct{}`, `type cleanup int`},
		{`const err = 3`, `const cleanup = "x"`},
	}
	for i, ds := range decls {
		b := NewPB(fmt.Sprintf("en%d", i), "app")
		t1, t2, t3 := b.Carrier(0, ""), b.Carrier(0, ""), b.Carrier(0, "")
		f1 := b.Func(0, "", t1, true, true)
		f2 := b.Func(0, "", t2, true, true, t1)
		f3 := b.Func(0, "", t3, true, true, t2)
		b.Inj("Init", t3, true, true, nil, refs(f1, f2, f3)...)
		b.P.PkgVars = ds
		b.P.PkgIdents = []string{"err", "err2", "cleanup", "cleanup2"}
		b.P.Feat = map[string]string{"shape": "pkg-scope-names", "decls": fmt.Sprint(ds)}
		b.P.Note = "pkg-scope-err-name"
		progs = append(progs, b.P)
	}
	return progs
}

// bindOrderFamily: one consumer NewTop whose parameters are an ordered selection of
// {D, I, C, J} (D an input of the concrete type's provider, I and J two interfaces bound to
// the concrete type C), times the source of C and the placement of the bindings. The order in
// which the planner meets the interface, the concrete type and the concrete type's inputs
// must change neither acceptance nor the instance delivered. sample picks 1/k of the cells.
func bindOrderFamily(idp string, seed int64, k int) []*Program {
	var out []*Program
	n := 0
	for _, sel := range orderedSubsets([]int{0, 1, 2, 3}) { // 0 D, 1 I, 2 C, 3 J
		hasI := false
		hasD := false
		for _, x := range sel {
			if x == 1 || x == 3 {
				hasI = true
			}
			if x == 0 {
				hasD = true
			}
		}
		if !hasI {
			continue
		}
		for _, src := range []string{"func0", "func1", "struct1", "func1err"} {
			for _, place := range []string{"direct", "set", "bind-outer"} {
				n++
				if !sampleCell(seed, n, k) {
					continue
				}
				b := NewPB(fmt.Sprintf("%s%04d", idp, n), "app")
				d := b.Carrier(0, "Dep")
				var concBase *TypeDecl
				if src == "struct1" {
					concBase = b.P.NewDecl(0, "Conc", StructOf(FieldT{Name: "Dep", Ty: d}), "none")
				} else {
					concBase = b.P.NewDecl(0, "Conc", StructOf(idField), "struct")
				}
				concBase.Methods = append(concBase.Methods, Method{Name: "MI", PtrRecv: true}, Method{Name: "MJ", PtrRecv: true})
				conc := PtrTo(Named(concBase))
				ifI := Named(b.P.NewDecl(0, "IfaceI", &Ty{K: "iface", Meths: []string{"MI"}, Params: []*Ty{conc}}, "iface"))
				ifJ := Named(b.P.NewDecl(0, "IfaceJ", &Ty{K: "iface", Meths: []string{"MJ"}, Params: []*Ty{conc}}, "iface"))
				var prov []Ref
				needD := hasD
				isErr := false
				switch src {
				case "func0":
					prov = append(prov, ItemRef(b.Func(0, "NewConc", conc, false, false).ID))
				case "func1":
					prov = append(prov, ItemRef(b.Func(0, "NewConc", conc, false, false, d).ID))
					needD = true
				case "func1err":
					prov = append(prov, ItemRef(b.Func(0, "NewConc", conc, true, true, d).ID))
					needD = true
					isErr = true
				case "struct1":
					prov = append(prov, ItemRef(b.Struct(Named(concBase), false, "Dep").ID))
					needD = true
				}
				var binds []Ref
				usesJ := false
				for _, x := range sel {
					if x == 3 {
						usesJ = true
					}
				}
				usesI := false
				for _, x := range sel {
					if x == 1 {
						usesI = true
					}
				}
				if usesI {
					binds = append(binds, ItemRef(b.Bind(ifI, conc).ID))
				}
				if usesJ {
					binds = append(binds, ItemRef(b.Bind(ifJ, conc).ID))
				}
				var build []Ref
				if needD {
					build = append(build, ItemRef(b.Func(0, "NewDep", d, false, false).ID))
				}
				switch place {
				case "direct":
					build = append(build, prov...)
					build = append(build, binds...)
				case "set":
					s := b.Set(0, "ConcSet", append(append([]Ref{}, prov...), binds...)...)
					build = append(build, SetRef(s.ID))
				case "bind-outer":
					s := b.Set(0, "ConcSet", prov...)
					build = append(build, SetRef(s.ID))
					build = append(build, binds...)
				}
				tys := []*Ty{d, ifI, conc, ifJ}
				var ps []*Ty
				for _, x := range sel {
					ps = append(ps, tys[x])
				}
				top := b.Carrier(0, "Top")
				build = append(build, ItemRef(b.Func(0, "NewTop", top, false, false, ps...).ID))
				b.Inj("Init", top, isErr, isErr, nil, build...)
				cell := fmt.Sprintf("bind-order/params=%v/src=%s/place=%s", sel, src, place)
				b.P.Note = cell
				b.P.Feat = map[string]string{"cell": cell}
				out = append(out, b.P)
			}
		}
	}
	return out
}

// lateImportProgs (C14): a package whose name first becomes necessary in the middle of an
// injector body (struct literal of an imported struct type, value variable of an imported type)
// while a parameter or an earlier local of that injector already carries the package's name.
func lateImportProgs() []*Program {
	var out []*Program
	n := 0
	for _, construct := range []string{"struct", "structptr", "structstar", "value", "ptrvalue", "fieldsofvalue"} {
		for _, collide := range []string{"param", "local", "both", "none"} {
			for _, order := range []string{"collider-first", "collider-last"} {
				for _, prior := range []string{"none", "earlier-injector"} {
					n++
					b := NewPB(fmt.Sprintf("li%03d", n), "app", "liba", "libb")
					dep := b.Carrier(2, "Dep")
					newDep := b.Func(2, "NewDep", dep, false, false)
					var target *Ty
					var items []*Item
					items = append(items, newDep)
					switch construct {
					case "struct", "structptr", "structstar":
						sd := b.P.NewDecl(1, "Options", StructOf(FieldT{Name: "Dep", Ty: dep}), "none")
						target = Named(sd)
						if construct == "structptr" {
							target = PtrTo(target)
						}
						if construct == "structstar" {
							items = append(items, b.Struct(Named(sd), true))
						} else {
							items = append(items, b.Struct(Named(sd), false, "Dep"))
						}
					case "value":
						target = b.Carrier(1, "Options")
						items = append(items, b.Value(target))
					case "ptrvalue":
						target = PtrTo(b.Carrier(1, "Options"))
						items = append(items, b.Value(target))
					case "fieldsofvalue":
						fld := b.Carrier(2, "Fld")
						par := b.P.NewDecl(1, "Options", StructOf(idField, FieldT{Name: "Fld", Ty: fld}), "parent")
						items = append(items, b.Value(Named(par)), b.Fields(Named(par), "Fld"))
						target = fld
					}
					var params []Param
					var colTys []*Ty
					if collide == "param" || collide == "both" {
						pt := b.Carrier(0, "FromParam")
						params = append(params, Param{Name: "liba", Ty: pt})
						colTys = append(colTys, pt)
					}
					if collide == "local" || collide == "both" {
						lt := b.Carrier(0, "Liba")
						items = append(items, b.Func(0, "NewLiba", lt, false, false))
						colTys = append(colTys, lt)
					}
					var ps []*Ty
					if order == "collider-first" {
						ps = append(append(ps, colTys...), target, dep)
					} else {
						ps = append(append(ps, target, dep), colTys...)
					}
					top := b.Carrier(0, "Top")
					items = append(items, b.Func(0, "NewTop", top, false, false, ps...))
					if prior == "earlier-injector" {
						// an injector placed first that already needs package liba
						other := b.Carrier(1, "Other")
						no := b.Func(1, "NewOther", other, false, false)
						b.Inj("Early", other, false, false, nil, ItemRef(no.ID))
					}
					b.Inj("Init", top, false, false, params, refs(items...)...)
					cell := fmt.Sprintf("late-import/%s/collide=%s/%s/prior=%s", construct, collide, order, prior)
					b.P.Note = cell
					b.P.Feat = map[string]string{"cell": cell}
					out = append(out, b.P)
				}
			}
		}
	}
	return out
}

// cleanupSignatureProduct (C03/C04): chains of n providers where every provider independently
// has one of the four result shapes {T; T,func(); T,error; T,func(),error} — the full product
// up to maxFull, a seed-selected sample above — with the link between consecutive providers
// rotating over {direct parameter, interface binding, struct-provider field} and providers
// alternating between the injector's package and another one. The injector declares exactly the
// results it needs, so injectors without an error result and with a single cleanup occur.
func cleanupSignatureProduct(e *Env) []*Program {
	var progs []*Program
	maxFull := e.tierN(3, 5)
	maxN := e.tierN(5, 6)
	var b *PB
	inProg := 0
	flush := func() {
		if b != nil && inProg > 0 {
			b.P.Feat = map[string]string{"shape": "cleanup-signature-product", "first": b.P.Injs[0].Name}
			b.P.Note = "cleanup-signature-product"
			progs = append(progs, b.P)
		}
		b = nil
		inProg = 0
	}
	count := 0
	for n := 1; n <= maxN; n++ {
		total := 1
		for k := 0; k < n; k++ {
			total *= 4
		}
		for combo := 0; combo < total; combo++ {
			if n > maxFull && int64(combo%61) != (e.Seed+int64(n))%61 {
				continue
			}
			if b == nil {
				b = NewPB(fmt.Sprintf("sp%03d", len(progs)), "app", "libs")
			}
			count++
			var items []*Item
			var prev *Ty
			anyCu, anyEr := false, false
			c := combo
			for k := 0; k < n; k++ {
				d := c % 4
				c /= 4
				cu, er := d&1 == 1, d&2 == 2
				anyCu = anyCu || cu
				anyEr = anyEr || er
				pkg := (combo + k) % 2
				var params []*Ty
				if prev != nil {
					params = []*Ty{prev}
				}
				link := (combo/3 + k) % 3
				if k == n-1 {
					link = 0
				}
				t := b.Carrier(1, "") // every type lives in the library package, providers alternate
				switch link {
				case 0:
					items = append(items, b.Func(pkg, "", t, cu, er, params...))
					prev = t
				case 1:
					items = append(items, b.Func(pkg, "", PtrTo(t), cu, er, params...))
					ifc := b.Iface(1, "", PtrTo(t), true)
					items = append(items, b.Bind(ifc, PtrTo(t)))
					prev = ifc
				case 2:
					items = append(items, b.Func(pkg, "", t, cu, er, params...))
					s := b.NamedOf(1, fmt.Sprintf("W%d", b.next()), StructOf(FieldT{Name: "F", Ty: t}), "none")
					items = append(items, b.Struct(s, false, "F"))
					prev = s
				}
			}
			b.Inj(fmt.Sprintf("N%dC%d", n, combo), prev, anyCu, anyEr, nil, refs(items...)...)
			inProg++
			if inProg >= 12 {
				flush()
			}
		}
	}
	flush()
	_ = count
	return progs
}

// sharedBaseFamily (C10): one base set (providers of two concrete types) re-used by several
// wrapper sets, each adding a DIFFERENT source for the same interface type (binding to the one
// or the other concrete type, a function returning the interface, an interface value), each
// wrapper used by its own injector. Whatever the analysis of one wrapper records must not leak
// into the base set or into the next wrapper: every injector must be accepted and wired from
// its own wrapper's source. Wrapper shapes: NewSet(Base, X); NewSet(Base, X, extra provider);
// the base's members listed inline; NewSet(Mid, X) with Mid = NewSet(Base).
func sharedBaseFamily() []*Program {
	var out []*Program
	srcKinds := []string{"bindA", "bindB", "func", "ifacevalue"}
	n := 0
	build := func(kinds []string, shapes []int, injOrderRev bool) {
		n++
		b := NewPB(fmt.Sprintf("sb%03d", n), "app")
		a := b.Carrier(0, "FileStore")
		bb := b.Carrier(0, "MemStore")
		store := b.Iface(0, "Store", PtrTo(a), true)
		m := store.Decl.Under.Meths[0]
		bb.Decl.Methods = append(bb.Decl.Methods, Method{Name: m, PtrRecv: true})
		newA := b.Func(0, "NewFileStore", PtrTo(a), false, false)
		newB := b.Func(0, "NewMemStore", PtrTo(bb), false, false)
		base := b.Set(0, "Base", ItemRef(newA.ID), ItemRef(newB.ID))
		app := b.Carrier(0, "App")
		newApp := b.Func(0, "NewApp", app, false, false, store)
		type inj struct {
			name string
			refs []Ref
		}
		var injs []inj
		for j, k := range kinds {
			var x *Item
			switch k {
			case "bindA":
				x = b.Bind(store, PtrTo(a))
			case "bindB":
				x = b.Bind(store, PtrTo(bb))
			case "func":
				x = b.Func(0, fmt.Sprintf("NewStore%d", j), store, false, false, PtrTo(a))
			case "ifacevalue":
				x = b.IfaceValue(store, PtrTo(a))
			}
			var w *Set
			name := fmt.Sprintf("Wrap%d", j)
			switch shapes[j] % 4 {
			case 0:
				w = b.Set(0, name, SetRef(base.ID), ItemRef(x.ID))
			case 1:
				extra := b.Carrier(0, fmt.Sprintf("Extra%d", j))
				w = b.Set(0, name, ItemRef(x.ID), SetRef(base.ID), ItemRef(b.Func(0, fmt.Sprintf("NewExtra%d", j), extra, false, false).ID))
			case 2:
				w = b.Set(0, name, ItemRef(newA.ID), ItemRef(x.ID), ItemRef(newB.ID))
			case 3:
				mid := b.Set(0, fmt.Sprintf("Mid%d", j), SetRef(base.ID))
				w = b.Set(0, name, SetRef(mid.ID), ItemRef(x.ID))
			}
			injs = append(injs, inj{fmt.Sprintf("Init%d", j), []Ref{SetRef(w.ID), ItemRef(newApp.ID)}})
		}
		if injOrderRev {
			for i, j := 0, len(injs)-1; i < j; i, j = i+1, j-1 {
				injs[i], injs[j] = injs[j], injs[i]
			}
		}
		for _, in := range injs {
			b.Inj(in.name, app, false, false, nil, in.refs...)
		}
		cell := fmt.Sprintf("shared-base/kinds=%v/shapes=%v/rev=%v", kinds, shapes, injOrderRev)
		b.P.Note = cell
		b.P.Feat = map[string]string{"cell": cell}
		out = append(out, b.P)
	}
	for rot := 0; rot < 4; rot++ {
		for sp := 0; sp < 4; sp++ {
			var kinds []string
			var shapes []int
			for j := 0; j < 4; j++ {
				kinds = append(kinds, srcKinds[(rot+j)%4])
				shapes = append(shapes, sp+j)
			}
			build(kinds, shapes, (rot+sp)%2 == 1)
		}
	}
	// every wrapper of the same shape
	for sh := 0; sh < 4; sh++ {
		build([]string{"bindA", "bindB", "bindA"}, []int{sh, sh, sh}, false)
		build([]string{"func", "bindB", "ifacevalue", "bindA"}, []int{sh, sh, sh, sh}, sh%2 == 0)
	}
	return out
}

// counterpartFamily (C02): a struct type P and its pointer type *P provided by two DIFFERENT
// sources (function / value / injector argument, in several combinations), a field provider
// over the one or the other form, and one consumer whose parameters are an ordered selection
// of {P, *P, F} (plus *F for the pointer form). The field must always be read from the form the
// field provider names, whichever form happens to have been built already, and each form's
// consumers must receive that form's own source.
func counterpartFamily(idp string, seed int64, k int) []*Program {
	var out []*Program
	srcPairs := [][2]string{{"func", "func"}, {"value", "func"}, {"func", "arg"}, {"arg", "value"}}
	n := 0
	for _, sel := range orderedSubsets([]int{0, 1, 2}) { // 0 P, 1 *P, 2 F
		hasF := false
		for _, x := range sel {
			if x == 2 {
				hasF = true
			}
		}
		if !hasF {
			continue
		}
		for _, form := range []string{"value", "pointer"} {
			for _, sp := range srcPairs {
				for _, place := range []string{"direct", "one-set"} {
					n++
					if !sampleCell(seed, n, k) {
						continue
					}
					b := NewPB(fmt.Sprintf("%s%04d", idp, n), "app")
					fld := b.Carrier(0, "Fld")
					par := b.P.NewDecl(0, "Parent", StructOf(idField, FieldT{Name: "Fld", Ty: fld}), "parent")
					pv, pp := Named(par), PtrTo(Named(par))
					needV, needP := form == "value", form == "pointer"
					for _, x := range sel {
						if x == 0 {
							needV = true
						}
						if x == 1 {
							needP = true
						}
					}
					var members []Ref
					var params []Param
					addSrc := func(kind string, t *Ty, name string) {
						switch kind {
						case "func":
							members = append(members, ItemRef(b.Func(0, name, t, false, false).ID))
						case "value":
							members = append(members, ItemRef(b.Value(t).ID))
						case "arg":
							params = append(params, Param{Name: "arg" + name, Ty: t})
						}
					}
					if needV {
						addSrc(sp[0], pv, "NewParentValue")
					}
					if needP {
						addSrc(sp[1], pp, "NewParentPointer")
					}
					if form == "value" {
						members = append(members, ItemRef(b.Fields(pv, "Fld").ID))
					} else {
						members = append(members, ItemRef(b.Fields(pp, "Fld").ID))
					}
					tys := []*Ty{pv, pp, fld}
					var ps []*Ty
					for _, x := range sel {
						ps = append(ps, tys[x])
					}
					if form == "pointer" && n%2 == 0 {
						ps = append(ps, PtrTo(fld))
					}
					top := b.Carrier(0, "Top")
					newTop := b.Func(0, "NewTop", top, false, false, ps...)
					var build []Ref
					if place == "one-set" && len(members) > 0 {
						s := b.Set(0, "ParentSet", members...)
						build = []Ref{SetRef(s.ID), ItemRef(newTop.ID)}
					} else {
						build = append(append([]Ref{}, members...), ItemRef(newTop.ID))
					}
					b.Inj("Init", top, false, false, params, build...)
					cell := fmt.Sprintf("counterparts/params=%v/fields-of=%s/src=%v/place=%s", sel, form, sp, place)
					b.P.Note = cell
					b.P.Feat = map[string]string{"cell": cell}
					out = append(out, b.P)
				}
			}
		}
	}
	return out
}

// sampleCell selects about 1/k of the cells of a family, decorrelated from the nesting of
// the loops that enumerate them (a plain n%k would always pick the same inner-loop values).
func sampleCell(seed int64, n, k int) bool {
	if k <= 1 {
		return true
	}
	h := uint32(n)*2654435761 + uint32(seed)*40503
	h ^= h >> 15
	h *= 2246822519
	h ^= h >> 13
	return int(h%uint32(k)) == 0
}

// bothFormsFamily (C12): one struct provider whose value form S and pointer form *S are both
// needed by the same injector, with a provider that WRITES through the *S it receives (to a
// scratch field the struct provider does not name). Each form must be a struct of its own: the
// value consumers must see the scratch field zero whatever the pointer holder did and whichever
// form was built first; every permutation of the consumer's parameters is tried.
func bothFormsFamily() []*Program {
	var out []*Program
	n := 0
	for _, perm := range orderedSubsets([]int{0, 1, 2, 3}) { // 0 Tuned, 1 Snapshot, 2 S, 3 *S
		if len(perm) != 4 {
			continue
		}
		for _, star := range []bool{false, true} {
			n++
			b := NewPB(fmt.Sprintf("bf%03d", n), "app")
			dep := b.Carrier(0, "Dep")
			scratch := FieldT{Name: "Scratch_", Ty: Basic("int")}
			if star {
				scratch.Tag = `wire:"-"`
			}
			sd := b.P.NewDecl(0, "Config", StructOf(FieldT{Name: "Dep", Ty: dep}, scratch), "none")
			sv, sp := Named(sd), PtrTo(Named(sd))
			var st *Item
			if star {
				st = b.Struct(sv, true)
			} else {
				st = b.Struct(sv, false, "Dep")
			}
			tuned := b.Carrier(0, "Tuned")
			snap := b.Carrier(0, "Snapshot")
			tune := b.Func(0, "Tune", tuned, false, false, sp)
			tune.Mutate = true
			snapf := b.Func(0, "Snap", snap, false, false, sv)
			tys := []*Ty{tuned, snap, sv, sp}
			var ps []*Ty
			for _, x := range perm {
				ps = append(ps, tys[x])
			}
			top := b.Carrier(0, "Top")
			newTop := b.Func(0, "NewTop", top, false, false, ps...)
			b.Inj("Init", top, false, false, nil, refs(b.Func(0, "NewDep", dep, false, false), st, tune, snapf, newTop)...)
			cell := fmt.Sprintf("both-forms/params=%v/star=%v", perm, star)
			b.P.Note = cell
			b.P.Feat = map[string]string{"cell": cell}
			out = append(out, b.P)
		}
	}
	return out
}

// inventedParamNameFamily (C14): an injector parameter left blank (or unnamed) receives a name
// wire invents from its type; another parameter of the same injector is NAMED by the user with
// exactly a name wire is likely to invent (the lower-cased type name, "arg", those with a numeric
// suffix, the package-qualified spelling). Whatever the order, the generated signature must keep
// the parameters distinct and feed each consumer from its own parameter.
func inventedParamNameFamily() []*Program {
	var out []*Program
	n := 0
	kinds := []string{"named", "ptr-named", "lib-named", "slice", "func", "two-blanks"}
	for _, kind := range kinds {
		for _, userName := range []string{"foo", "arg", "foo2", "arg2", "libaFoo", "appFoo", "_2", "v"} {
			for _, blankFirst := range []bool{true, false} {
				for _, unnamedAll := range []bool{false} {
					_ = unnamedAll
					n++
					b := NewPB(fmt.Sprintf("ip%03d", n), "app", "liba")
					foo := b.Carrier(0, "Foo")
					var blankTy *Ty
					switch kind {
					case "named", "two-blanks":
						blankTy = foo
					case "ptr-named":
						blankTy = PtrTo(foo)
					case "lib-named":
						blankTy = b.Carrier(1, "Foo")
					case "slice":
						blankTy = SliceOf(foo)
					case "func":
						blankTy = FuncRet(foo)
					}
					bar := b.Carrier(0, "Bar")
					params := []Param{{Name: "_", Ty: blankTy}, {Name: userName, Ty: bar}}
					ps := []*Ty{blankTy, bar}
					if kind == "two-blanks" {
						baz := b.Carrier(0, "Baz")
						params = []Param{{Name: "_", Ty: blankTy}, {Name: "_", Ty: baz}, {Name: userName, Ty: bar}}
						ps = []*Ty{blankTy, baz, bar}
					}
					if !blankFirst {
						for i, j := 0, len(params)-1; i < j; i, j = i+1, j-1 {
							params[i], params[j] = params[j], params[i]
						}
					}
					top := b.Carrier(0, "Top")
					newTop := b.Func(0, "NewTop", top, false, false, ps...)
					b.Inj("Init", top, false, false, params, ItemRef(newTop.ID))
					cell := fmt.Sprintf("invented-param-name/blank=%s/user=%s/blank-first=%v", kind, userName, blankFirst)
					b.P.Note = cell
					b.P.Feat = map[string]string{"cell": cell}
					out = append(out, b.P)
				}
			}
		}
	}
	return out
}

// paramLocalCollisionFamily (C02, C14): an injector parameter (plain or variadic) whose name is
// exactly the local name wire would derive for a provider result needed later, where the two
// types are mutually ASSIGNABLE (a named slice/map type and its unnamed underlying type), so a
// generated `hosts, cleanup := NewHosts()` that re-uses the parameter's name still compiles and
// silently overwrites the argument. Every consumer must still receive its own source.
func paramLocalCollisionFamily() []*Program {
	var out []*Program
	n := 0
	for _, kind := range []string{"slice", "map"} {
		for _, variadic := range []bool{false, true} {
			if variadic && kind != "slice" {
				continue
			}
			for shape := 0; shape < 4; shape++ {
				for _, pname := range []string{"hosts", "arg", "hosts2"} {
					for _, namedFirst := range []bool{true, false} {
						n++
						b := NewPB(fmt.Sprintf("pl%03d", n), "app")
						elem := b.Carrier(0, "Elem")
						var under *Ty
						if kind == "slice" {
							under = SliceOf(elem)
						} else {
							under = MapOf(Basic("string"), elem)
						}
						named := b.NamedOf(0, "Hosts", under, "wrap")
						cu, er := shape&1 == 1, shape&2 == 2
						newHosts := b.Func(0, "NewHosts", named, cu, er)
						pool := b.Carrier(0, "Pool")
						ps := []*Ty{named, under}
						if !namedFirst {
							ps = []*Ty{under, named}
						}
						newPool := b.Func(0, "NewPool", pool, false, false, ps...)
						in := b.Inj("Init", pool, cu, er, []Param{{Name: pname, Ty: under}}, refs(newHosts, newPool)...)
						in.Variadic = variadic
						cell := fmt.Sprintf("param-local-collision/%s/variadic=%v/shape=%d/param=%s/named-first=%v", kind, variadic, shape, pname, namedFirst)
						b.P.Note = cell
						b.P.Feat = map[string]string{"cell": cell}
						out = append(out, b.P)
					}
				}
			}
		}
	}
	return out
}

// dirVsPackageNameFamily (C14): packages whose clause name differs from their directory name in
// exactly the way wire's numbered disambiguation spells things: package bar in directory bar,
// package bar again in directories bar2 and bar3 (and a package named bar2 in directory other).
// The injector uses them in every order, so each gets its turn at being registered second.
func dirVsPackageNameFamily() []*Program {
	var out []*Program
	n := 0
	layouts := [][][2]string{ // {dir, package name}
		{{"bar", "bar"}, {"bar2", "bar"}},
		{{"bar", "bar"}, {"bar2", "bar"}, {"bar3", "bar"}},
		{{"bar2", "bar"}, {"bar", "bar2"}},
		{{"bar", "bar"}, {"other", "bar2"}, {"bar2", "bar"}},
		{{"fmt2", "fmt"}, {"fmt", "fmt2"}},
		{{"init", "init"}, {"bar", "bar"}},
		{{"pkginit", "init"}, {"init2", "init2"}},
	}
	for _, lay := range layouts {
		perms := orderedSubsets(func() []int {
			var x []int
			for i := range lay {
				x = append(x, i)
			}
			return x
		}())
		for _, perm := range perms {
			if len(perm) != len(lay) {
				continue
			}
			for _, pkgIdent := range []string{"", "bar"} {
				n++
				b := NewPB(fmt.Sprintf("dn%03d", n), "app")
				for _, l := range lay {
					b.P.Pkgs = append(b.P.Pkgs, &Pkg{Name: l[1], Dir: l[0]})
				}
				var ps []*Ty
				var items []*Item
				for _, k := range perm {
					t := b.Carrier(k+1, fmt.Sprintf("T%d", k))
					items = append(items, b.Func(k+1, fmt.Sprintf("New%d", k), t, false, false))
					ps = append(ps, t)
				}
				top := b.Carrier(0, "Top")
				items = append(items, b.Func(0, "NewTop", top, false, false, ps...))
				b.Inj("Init", top, false, false, nil, refs(items...)...)
				if pkgIdent != "" {
					// the injector's package itself declares an identifier named like the packages
					b.P.PkgVars = []string{"var " + pkgIdent + " = 1"}
					b.P.PkgIdents = []string{pkgIdent}
				}
				cell := fmt.Sprintf("dir-vs-package-name/%v/order=%v/pkg-ident=%q", lay, perm, pkgIdent)
				b.P.Note = cell
				b.P.Feat = map[string]string{"cell": cell}
				out = append(out, b.P)
			}
		}
	}
	return out
}

// passThroughArgsFamily (C02): injectors that construct nothing and return one of their own
// arguments — directly, or through a binding — while ANOTHER argument, placed before or after,
// has a type assignable to the result type (a second implementation of the bound interface, a
// named slice type next to its underlying type). The designated argument must come back.
func passThroughArgsFamily() []*Program {
	var out []*Program
	n := 0
	add := func(b *PB, cell string) {
		b.P.Note = cell
		b.P.Feat = map[string]string{"cell": cell}
		out = append(out, b.P)
	}
	for _, designatedFirst := range []bool{true, false} {
		for _, extra := range []int{0, 1} {
			// interface bound to one of two implementing arguments
			n++
			b := NewPB(fmt.Sprintf("pa%03d", n), "app")
			en, fr := b.Carrier(0, "English"), b.Carrier(0, "French")
			g := b.Iface(0, "Greeter", PtrTo(fr), true)
			en.Decl.Methods = append(en.Decl.Methods, Method{Name: g.Decl.Under.Meths[0], PtrRecv: true})
			params := []Param{{Name: "fr", Ty: PtrTo(fr)}, {Name: "en", Ty: PtrTo(en)}}
			if !designatedFirst {
				params[0], params[1] = params[1], params[0]
			}
			if extra == 1 {
				params = append(params, Param{Name: "n", Ty: b.Carrier(0, "Unrelated")})
			}
			b.Inj("Init", g, false, false, params, ItemRef(b.Bind(g, PtrTo(fr)).ID))
			add(b, fmt.Sprintf("pass-through-args/binding/designated-first=%v/extra=%d", designatedFirst, extra))
			// the unnamed slice type is the result; a named slice type argument is assignable to it
			n++
			b = NewPB(fmt.Sprintf("pa%03d", n), "app")
			el := b.Carrier(0, "Elem")
			named := b.NamedOf(0, "Hosts", SliceOf(el), "wrap")
			params = []Param{{Name: "plain", Ty: SliceOf(el)}, {Name: "named", Ty: named}}
			if !designatedFirst {
				params[0], params[1] = params[1], params[0]
			}
			b.Inj("Init", SliceOf(el), false, false, params)
			add(b, fmt.Sprintf("pass-through-args/unnamed-result/designated-first=%v", designatedFirst))
			// and the reverse: the named type is the result
			n++
			b = NewPB(fmt.Sprintf("pa%03d", n), "app")
			el = b.Carrier(0, "Elem")
			named = b.NamedOf(0, "Hosts", SliceOf(el), "wrap")
			params = []Param{{Name: "named", Ty: named}, {Name: "plain", Ty: SliceOf(el)}}
			if !designatedFirst {
				params[0], params[1] = params[1], params[0]
			}
			b.Inj("Init", named, false, false, params)
			add(b, fmt.Sprintf("pass-through-args/named-result/designated-first=%v", designatedFirst))
		}
	}
	return out
}

// twinPackagesFamily (C10, C02): two packages with the SAME package clause (different
// directories) declaring the same identifiers (type T, provider New, set variable Set), used
// together by one injector and separately by two injectors in either order.
func twinPackagesFamily() []*Program {
	var out []*Program
	for v := 0; v < 4; v++ {
		b := NewPB(fmt.Sprintf("tp%02d", v), "app", "a_store", "b_store")
		b.P.Pkgs[1].Name, b.P.Pkgs[2].Name = "store", "store"
		ta, tb := b.Carrier(1, "T"), b.Carrier(2, "T")
		da, db := b.Carrier(1, "Dep"), b.Carrier(2, "Dep")
		sa := b.Set(1, "Set", ItemRef(b.Func(1, "New", ta, false, false, da).ID), ItemRef(b.Func(1, "NewDep", da, false, false).ID))
		sb := b.Set(2, "Set", ItemRef(b.Func(2, "New", tb, false, false, db).ID), ItemRef(b.Func(2, "NewDep", db, false, false).ID))
		switch v {
		case 0:
			app := b.Carrier(0, "App")
			b.Inj("Init", app, false, false, nil, SetRef(sa.ID), SetRef(sb.ID), ItemRef(b.Func(0, "NewApp", app, false, false, ta, tb).ID))
		case 1:
			b.Inj("InitA", ta, false, false, nil, SetRef(sa.ID))
			b.Inj("InitB", tb, false, false, nil, SetRef(sb.ID))
		case 2:
			b.Inj("InitB", tb, false, false, nil, SetRef(sb.ID))
			b.Inj("InitA", ta, false, false, nil, SetRef(sa.ID))
		case 3:
			// the sets re-exported by set variables of the injector's package with equal names too
			wa := b.Set(0, "WrapA", SetRef(sa.ID))
			wb := b.Set(0, "WrapB", SetRef(sb.ID))
			app := b.Carrier(0, "App")
			b.Inj("Init", app, false, false, nil, SetRef(wb.ID), SetRef(wa.ID), ItemRef(b.Func(0, "NewApp", app, false, false, tb, ta).ID))
		}
		cell := fmt.Sprintf("twin-packages/variant=%d", v)
		b.P.Note = cell
		b.P.Feat = map[string]string{"cell": cell}
		out = append(out, b.P)
	}
	return out
}

// crossInjectorCases: what one injector (or one set variable) of a package establishes must not
// leak into the analysis of another. Each case has an accepted first injector and a second one
// that must be rejected for the stated class (the same second injector alone is rejected too).
func crossInjectorCases() []*RejectCase {
	var out []*RejectCase
	add := func(b *PB, class, cell string, must ...string) {
		b.P.Note = cell
		out = append(out, &RejectCase{P: b.P, Class: class, MustName: must, Cell: cell})
	}
	for _, secondFirst := range []bool{false, true} {
		// twin packages: the second injector lists the OTHER package's equally named set
		{
			b := NewPB(fmt.Sprintf("xi_twin_%v", secondFirst), "app", "a_store", "b_store")
			b.P.Pkgs[1].Name, b.P.Pkgs[2].Name = "store", "store"
			ta, tb := b.Carrier(1, "T"), b.Carrier(2, "T")
			fa, fb := b.Func(1, "New", ta, false, false), b.Func(2, "New", tb, false, false)
			fa.Stub, fb.Stub = true, true
			sa := b.Set(1, "Set", ItemRef(fa.ID))
			sb := b.Set(2, "Set", ItemRef(fb.ID))
			app := b.Carrier(0, "App")
			na := b.Func(0, "NewApp", app, false, false, ta)
			na.Stub = true
			mk := []func(){
				func() { b.Inj("InitGood", ta, false, false, nil, SetRef(sa.ID)) },
				func() { b.Inj("InitBad", app, false, false, nil, SetRef(sb.ID), ItemRef(na.ID)) },
			}
			if secondFirst {
				mk[0], mk[1] = mk[1], mk[0]
			}
			mk[0]()
			mk[1]()
			add(b, "missing", fmt.Sprintf("cross-injector/twin-package-set/bad-first=%v", secondFirst), DiagName(b.P, ta))
		}
		// a named set one injector completes with an extra provider; the other lists the set alone
		{
			b := NewPB(fmt.Sprintf("xi_shared_%v", secondFirst), "app")
			dep, top := b.Carrier(0, "Dep"), b.Carrier(0, "Top")
			nt := b.Func(0, "NewTop", top, false, false, dep)
			nd := b.Func(0, "NewDep", dep, false, false)
			nt.Stub, nd.Stub = true, true
			base := b.Set(0, "BaseSet", ItemRef(nt.ID))
			mk := []func(){
				func() { b.Inj("InitFull", top, false, false, nil, SetRef(base.ID), ItemRef(nd.ID)) },
				func() { b.Inj("InitBare", top, false, false, nil, SetRef(base.ID)) },
			}
			if secondFirst {
				mk[0], mk[1] = mk[1], mk[0]
			}
			mk[0]()
			mk[1]()
			add(b, "missing", fmt.Sprintf("cross-injector/shared-set-completed-elsewhere/bad-first=%v", secondFirst), DiagName(b.P, dep))
		}
		// a wrapper set binds an interface over a base set; another injector uses the base set
		// alone and needs the interface
		{
			b := NewPB(fmt.Sprintf("xi_bindleak_%v", secondFirst), "app")
			c := b.Carrier(0, "English")
			g := b.Iface(0, "Greeter", PtrTo(c), true)
			nc := b.Func(0, "NewEnglish", PtrTo(c), false, false)
			nc.Stub = true
			base := b.Set(0, "Base", ItemRef(nc.ID))
			bound := b.Set(0, "Bound", SetRef(base.ID), ItemRef(b.Bind(g, PtrTo(c)).ID))
			door := b.Carrier(0, "Door")
			ndo := b.Func(0, "NewDoor", door, false, false, g)
			ndo.Stub = true
			mk := []func(){
				func() { b.Inj("InitGreeter", g, false, false, nil, SetRef(bound.ID)) },
				func() { b.Inj("InitDoor", door, false, false, nil, SetRef(base.ID), ItemRef(ndo.ID)) },
			}
			if secondFirst {
				mk[0], mk[1] = mk[1], mk[0]
			}
			mk[0]()
			mk[1]()
			add(b, "missing", fmt.Sprintf("cross-injector/binding-in-wrapper-set/bad-first=%v", secondFirst), DiagName(b.P, g))
		}
		// an injector PARAMETER spelled like a package-level set variable / provider function that
		// another injector uses: inside that injector the name denotes the parameter
		for _, what := range []string{"set", "func"} {
			b := NewPB(fmt.Sprintf("xi_shadow_%s_%v", what, secondFirst), "app")
			dep, app, other := b.Carrier(0, "Dep"), b.Carrier(0, "App"), b.Carrier(0, "Other")
			nd := b.Func(0, "NewDep", dep, false, false)
			na := b.Func(0, "NewApp", app, false, false, dep)
			nd.Stub, na.Stub = true, true
			set := b.Set(0, "DepSet", ItemRef(nd.ID))
			_ = other
			good := func() { b.Inj("InitDep", dep, false, false, nil, SetRef(set.ID)) }
			if what == "func" {
				good = func() { b.Inj("InitDep", dep, false, false, nil, ItemRef(nd.ID)) }
			}
			shadow := map[string]string{"set": "DepSet", "func": "NewDep"}[what]
			raw := "func InitShadow(" + shadow + " Other) App {\n\twire.Build(NewApp, " + shadow + ")\n\treturn App{}\n}\n"
			if secondFirst {
				// the raw injector is rendered after the model's injectors: use a second raw one as the good one
				b.P.InjRaw = raw + "\nfunc InitDepLater() Dep {\n\twire.Build(" + shadow + ")\n\treturn Dep{}\n}\n"
				b.Inj("InitOther", other, false, false, []Param{{Name: "o", Ty: other}})
			} else {
				good()
				b.P.InjRaw = raw
			}
			add(b, "not-provider", fmt.Sprintf("cross-injector/parameter-named-like-%s/bad-first=%v", what, secondFirst))
		}
		// a named set used by one injector and merely listed (not needed) by another
		{
			b := NewPB(fmt.Sprintf("xi_unusedset_%v", secondFirst), "app")
			foo, bar := b.Carrier(0, "Foo"), b.Carrier(0, "Bar")
			nf := b.Func(0, "NewFoo", foo, false, false)
			nb := b.Func(0, "NewBar", bar, false, false)
			nf.Stub, nb.Stub = true, true
			bs := b.Set(0, "BarSet", ItemRef(nb.ID))
			mk := []func(){
				func() {
					b.Inj("InitBar", bar, false, false, nil, ItemRef(nf.ID), SetRef(bs.ID)).Build = []Ref{SetRef(bs.ID)}
				},
				func() { b.Inj("InitFoo", foo, false, false, nil, ItemRef(nf.ID), SetRef(bs.ID)) },
			}
			if secondFirst {
				mk[0], mk[1] = mk[1], mk[0]
			}
			mk[0]()
			mk[1]()
			add(b, "unused", fmt.Sprintf("cross-injector/set-used-elsewhere/bad-first=%v", secondFirst))
		}
	}
	return out
}

// sameNamedValuesFamily (C14): one injector reaches several wire.Value / wire.InterfaceValue
// expressions whose types derive the same variable name: types called Config in two library
// packages and in the injector's package, T next to *T, and a user-owned identifier with the
// name wire would pick first.
func sameNamedValuesFamily() []*Program {
	var out []*Program
	for v := 0; v < 8; v++ {
		b := NewPB(fmt.Sprintf("sv%02d", v), "app", "liba", "libb")
		ca, cb, c0 := b.Carrier(1, "Config"), b.Carrier(2, "Config"), b.Carrier(0, "Config")
		var tys []*Ty
		switch v {
		case 0:
			tys = []*Ty{ca, cb}
		case 1:
			tys = []*Ty{cb, ca, c0}
		case 2:
			tys = []*Ty{c0, PtrTo(c0)}
		case 3:
			tys = []*Ty{PtrTo(ca), ca, PtrTo(cb), cb}
		case 4:
			tys = []*Ty{ca, cb}
			b.P.PkgVars = []string{"var _wireConfigValue = \"user-owned\"", "var _wireLibaConfigValue = 1"}
			b.P.PkgIdents = []string{"_wireConfigValue", "_wireLibaConfigValue"}
		case 5:
			tys = []*Ty{c0, ca, PtrTo(cb)}
			b.P.Pkgs[1].Name, b.P.Pkgs[2].Name = "lib", "lib"
		case 6:
			// unnamed types all get the same base name
			tys = []*Ty{SliceOf(c0), MapOf(Basic("string"), ca), ArrayOf(2, cb)}
		case 7:
			tys = []*Ty{SliceOf(ca), SliceOf(cb), c0, ca}
		}
		var items []*Item
		for _, t := range tys {
			items = append(items, b.Value(t))
		}
		top := b.Carrier(0, "Top")
		items = append(items, b.Func(0, "NewTop", top, false, false, tys...))
		b.Inj("Init", top, false, false, nil, refs(items...)...)
		// a second injector sharing one of the values through its own Build list
		b.Inj("InitOne", tys[0], false, false, nil, ItemRef(items[0].ID))
		cell := fmt.Sprintf("same-named-values/variant=%d", v)
		b.P.Note = cell
		b.P.Feat = map[string]string{"cell": cell}
		out = append(out, b.P)
	}
	return out
}

// spellingTwinsFamily: Go gives some types two spellings (rune/int32, byte/uint8,
// any/interface{}); they are one type. One source written with one spelling feeds two
// consumers written with the other and the same spelling in one injector: the source is
// created once and both consumers receive that one value. Sources: provider function,
// wire.Value, injector argument, struct field. The twin sits directly, as element, map
// key, function parameter, channel element and behind a pointer.
func spellingTwinsFamily() []*Program {
	var out []*Program
	n := 0
	emptyIface := func() *Ty { return &Ty{K: "iface"} }
	type pair struct {
		name string
		a, b func(c *Ty) *Ty
	}
	fn := func(param *Ty, ret *Ty) *Ty { return &Ty{K: "func", Params: []*Ty{param}, Elem: ret} }
	pairs := []pair{
		{"rune-int32", func(*Ty) *Ty { return Basic("rune") }, func(*Ty) *Ty { return Basic("int32") }},
		{"slice-of-rune", func(*Ty) *Ty { return SliceOf(Basic("rune")) }, func(*Ty) *Ty { return SliceOf(Basic("int32")) }},
		{"pointer-to-rune", func(*Ty) *Ty { return PtrTo(Basic("rune")) }, func(*Ty) *Ty { return PtrTo(Basic("int32")) }},
		{"chan-of-rune", func(*Ty) *Ty { return ChanOf("", Basic("rune")) }, func(*Ty) *Ty { return ChanOf("", Basic("int32")) }},
		{"map-keyed-by-byte", func(c *Ty) *Ty { return MapOf(Basic("byte"), c) }, func(c *Ty) *Ty { return MapOf(Basic("uint8"), c) }},
		{"func-of-byte", func(c *Ty) *Ty { return fn(Basic("byte"), c) }, func(c *Ty) *Ty { return fn(Basic("uint8"), c) }},
		{"func-of-any", func(c *Ty) *Ty { return fn(Basic("any"), c) }, func(c *Ty) *Ty { return fn(emptyIface(), c) }},
		{"map-keyed-by-any", func(c *Ty) *Ty { return MapOf(Basic("any"), c) }, func(c *Ty) *Ty { return MapOf(emptyIface(), c) }},
		{"func-of-slice-of-byte", func(c *Ty) *Ty { return fn(SliceOf(Basic("byte")), c) }, func(c *Ty) *Ty { return fn(SliceOf(Basic("uint8")), c) }},
	}
	for _, pr := range pairs {
		for _, src := range []string{"func", "value", "arg", "field", "func-err-cleanup"} {
			for _, flip := range []bool{false, true} {
				n++
				b := NewPB(fmt.Sprintf("sp%03d", n), "app")
				elem := b.Carrier(0, "Elem")
				ta, tb := pr.a(elem), pr.b(elem)
				if flip {
					ta, tb = tb, ta
				}
				if src == "value" && !ConstExpressible(ta) {
					n--
					continue
				}
				ca := b.Carrier(0, "FirstUser")
				cb := b.Carrier(0, "SecondUser")
				cc := b.Carrier(0, "ThirdUser")
				root := b.Carrier(0, "Root")
				// first and third user share the source's spelling, the second uses the other one
				newA := b.Func(0, "NewFirstUser", ca, false, false, ta)
				newB := b.Func(0, "NewSecondUser", cb, false, false, tb)
				newC := b.Func(0, "NewThirdUser", cc, false, false, ta)
				newRoot := b.Func(0, "NewRoot", root, false, false, ca, cb, cc)
				build := refs(newA, newB, newC, newRoot)
				var params []Param
				cleanup, errr := false, false
				switch src {
				case "func":
					build = append(build, ItemRef(b.Func(0, "NewShared", ta, false, false).ID))
				case "func-err-cleanup":
					build = append(build, ItemRef(b.Func(0, "NewShared", ta, true, true).ID))
					cleanup, errr = true, true
				case "value":
					build = append(build, ItemRef(b.Value(ta).ID))
				case "arg":
					params = []Param{{Name: "shared", Ty: ta}}
				case "field":
					parent := b.NamedOf(0, "Holder", StructOf(idField, FieldT{Name: "Shared", Ty: ta}), "parent")
					build = append(build, ItemRef(b.Func(0, "NewHolder", parent, false, false).ID), ItemRef(b.Fields(parent, "Shared").ID))
				}
				b.Inj("Init", root, cleanup, errr, params, build...)
				cell := fmt.Sprintf("spelling-twins/%s/src=%s/flip=%v", pr.name, src, flip)
				b.P.Note = cell
				b.P.Feat = map[string]string{"cell": cell, "family": "spelling-twins"}
				out = append(out, b.P)
			}
		}
	}
	return out
}

// injectorTemplateForms: injector templates and parameter types in forms a user may legally
// write although wire's documentation never shows them. Whatever gen accepts has to compile
// together with a default-tag file that uses the injector the way the template declares it
// (as a method, with type arguments). Rejection with a diagnostic is fine where RejectOK.
func injectorTemplateForms() []*Program {
	var progs []*Program
	hdr := "//go:build wireinject\n// +build wireinject\n\npackage app\n\n"
	drvHdr := "//go:build !wireinject\n// +build !wireinject\n\npackage app\n\n"
	mk := func(id, note string, rejectOK bool) *Program {
		p := &Program{ID: "tf_" + id, Module: ModulePath, Extra: map[string]string{}, Feat: map[string]string{"matrix": "template-forms", "what": note}, RawDriver: true, RejectOK: rejectOK}
		p.Pkgs = []*Pkg{{Name: "app", Dir: "app"}, {Name: "libx", Dir: "libx"}}
		p.Extra["1/lib.go"] = "package libx\n\ntype Svc struct{ N int }\n\nfunc NewSvc() *Svc { return &Svc{N: 1} }\n"
		p.Note = "template-form-" + id
		return p
	}
	{
		p := mk("method", "injector template declared as a method", true)
		p.Extra["0/decl.go"] = "package app\n\ntype App struct{ K int }\n\ntype Svc struct{ N int }\n\nfunc NewSvc(n int) *Svc { return &Svc{N: n} }\n"
		p.Extra["0/wire.go"] = hdr + "import \"github.com/google/wire\"\n\nfunc (a *App) Init(n int) *Svc {\n\twire.Build(NewSvc)\n\treturn nil\n}\n"
		p.Extra["0/zz_driver.go"] = drvHdr + "func Scenarios() {\n\ta := &App{K: 1}\n\t_ = a.Init(3)\n}\n"
		progs = append(progs, p)
	}
	{
		p := mk("generic", "injector template with a type parameter", true)
		p.Extra["0/decl.go"] = "package app\n\ntype Box struct{ N int }\n\nfunc NewBox() *Box { return &Box{N: 1} }\n"
		p.Extra["0/wire.go"] = hdr + "import \"github.com/google/wire\"\n\nfunc Init[T any](v T) *Box {\n\twire.Build(NewBox)\n\treturn nil\n}\n"
		p.Extra["0/zz_driver.go"] = drvHdr + "func Scenarios() {\n\t_ = Init[int](1)\n}\n"
		progs = append(progs, p)
	}
	{
		p := mk("generic-result", "injector template whose result mentions its type parameter", true)
		p.Extra["0/decl.go"] = "package app\n"
		p.Extra["0/wire.go"] = hdr + "import \"github.com/google/wire\"\n\nfunc Init[T any](v []T) []T {\n\twire.Build()\n\treturn nil\n}\n"
		p.Extra["0/zz_driver.go"] = drvHdr + "func Scenarios() {\n\t_ = Init[int](nil)\n}\n"
		progs = append(progs, p)
	}
	{
		p := mk("literal-blank-field", "struct literal provider (deprecated form) of a struct with a blank field", true)
		p.Extra["0/decl.go"] = "package app\n\ntype Foo struct {\n\tN int\n\t_ string\n}\n"
		p.Extra["0/wire.go"] = hdr + "import \"github.com/google/wire\"\n\nfunc Init(n int, s string) *Foo {\n\twire.Build(Foo{})\n\treturn nil\n}\n"
		p.Extra["0/zz_driver.go"] = drvHdr + "func Scenarios() {\n\t_ = Init(1, \"s\")\n}\n"
		progs = append(progs, p)
	}
	{
		// a function value that calls the injector it is injected into: fine as functions go,
		// but hoisted into a package-level variable it closes an initialisation cycle
		p := mk("value-function-reentering-injector", "wire.Value of a function that calls the same injector", false)
		p.Extra["0/decl.go"] = "package app\n\ntype Node struct{ F Factory }\n\ntype Factory func(depth int) *Node\n\nfunc NewNode(f Factory) *Node { return &Node{F: f} }\n\nfunc child(depth int) *Node {\n\tif depth > 0 {\n\t\treturn nil\n\t}\n\treturn Init()\n}\n"
		p.Extra["0/wire.go"] = hdr + "import \"github.com/google/wire\"\n\nfunc Init() *Node {\n\twire.Build(NewNode, wire.Value(Factory(child)))\n\treturn nil\n}\n"
		p.Extra["0/zz_driver.go"] = drvHdr + "func Scenarios() {\n\t_ = Init().F(1)\n}\n"
		progs = append(progs, p)
	}
	// the wire.Build call in parentheses: still the template of an injector
	for _, v := range []struct{ id, note, body string }{
		{"paren-build", "wire.Build call statement in parentheses", "\t(wire.Build(NewSvc))\n\treturn nil\n"},
		{"panic-paren-build", "panic of a parenthesised wire.Build call", "\tpanic((wire.Build(NewSvc)))\n"},
		{"paren-panic-build", "parenthesised panic of a wire.Build call", "\t(panic(wire.Build(NewSvc)))\n"},
		{"paren-callee-build", "wire.Build written (wire.Build)(...)", "\t(wire.Build)(NewSvc)\n\treturn nil\n"},
		{"paren-callee-panic-build", "(panic)((wire.Build)(...))", "\t(panic)((wire.Build)(NewSvc))\n"},
		{"paren-callee-newset", "wire.Build of a set written (wire.NewSet)(...)", "\tpanic(wire.Build((wire.NewSet)((NewSvc))))\n"},
	} {
		p := mk(v.id, v.note, false)
		p.Extra["0/decl.go"] = "package app\n\ntype Svc struct{ N int }\n\nfunc NewSvc() *Svc { return &Svc{N: 1} }\n\nfunc NewOther() int { return 2 }\n"
		p.Extra["0/wire.go"] = hdr + "import \"github.com/google/wire\"\n\nfunc Init() *Svc {\n" + v.body + "}\n\n// InitOther makes the file an injector file in any case.\nfunc InitOther() int {\n\tpanic(wire.Build(NewOther))\n}\n"
		p.Extra["0/zz_driver.go"] = drvHdr + "import \"example.com/m/tr\"\n\nfunc Scenarios() {\n\ttr.Injector(\"" + p.ID + "\", \"Init\", nil, func(c_ *tr.Call) {\n\t\tres_ := Init()\n\t\ttr.Note(\"template_form\", \"" + v.id + "\", res_ != nil && res_.N == 1, InitOther())\n\t})\n}\n"
		progs = append(progs, p)
	}
	// comments that read like build constraints: gofmt hoists such lines to the top of the
	// generated file, where they would replace or extend the generated "!wireinject"
	for _, v := range []struct{ id, note, wire string }{
		{"doc-comment-plus-build-line", "injector doc comment containing a // +build line",
			"// Init builds a Svc. The experimental backend used to need\n// +build experimental\nfunc Init() *Svc {\n\tpanic(wire.Build(NewSvc))\n}\n"},
		{"copied-doc-comment-plus-build-line", "doc comment of a copied declaration ending in a // +build line",
			"func Init() *Svc {\n\tpanic(wire.Build(NewSvc))\n}\n\n// helper is only needed on old 32-bit boxes, which used to say\n// +build linux,386\nfunc helper() int { return 1 }\n"},
		{"copied-field-comment-plus-build-line", "field comment of a copied type that reads // +build experimental",
			"func Init() *Svc {\n\tpanic(wire.Build(NewSvc))\n}\n\ntype options struct {\n\t// +build experimental\n\tFast bool\n}\n"},
	} {
		p := mk(v.id, v.note, true)
		p.Extra["0/decl.go"] = "package app\n\ntype Svc struct{ N int }\n\nfunc NewSvc() *Svc { return &Svc{N: 1} }\n"
		p.Extra["0/wire.go"] = hdr + "import \"github.com/google/wire\"\n\n" + v.wire
		p.Extra["0/zz_driver.go"] = drvHdr + "func Scenarios() {\n\t_ = Init()\n}\n"
		progs = append(progs, p)
	}
	// aliases in the injector's own signature: the template compiles, so must the implementation
	// (wire sees the aliased type only; where that type cannot be written in the injector's
	// package a refusal is the one correct alternative to an implementation)
	aliasLib := func(p *Program, decl string, extra map[string]string) {
		p.Extra["1/lib.go"] = "package libx\n\n" + decl + "\n\ntype Svc struct{ N int }\n\nfunc NewSvc() *Svc { return &Svc{N: 1} }\n"
		for k, v := range extra {
			p.Extra[k] = v
		}
	}
	{
		p := mk("alias-of-internal-type", "injector parameter typed by an exported alias of a type of an internal package", true)
		p.Pkgs = append(p.Pkgs, &Pkg{Name: "secret", Dir: "libx/internal/secret"})
		p.Extra["2/secret.go"] = "package secret\n\ntype Config struct{ N int }\n"
		aliasLib(p, "import \""+p.ImportPath(2)+"\"\n\ntype Config = secret.Config", nil)
		p.Extra["0/wire.go"] = hdr + "import (\n\t\"github.com/google/wire\"\n\t\"" + p.ImportPath(1) + "\"\n)\n\nfunc Init(c libx.Config) *libx.Svc {\n\twire.Build(libx.NewSvc)\n\treturn nil\n}\n"
		p.Extra["0/zz_driver.go"] = drvHdr + "import \"" + p.ImportPath(1) + "\"\n\nfunc Scenarios() {\n\t_ = Init(libx.Config{})\n}\n"
		progs = append(progs, p)
	}
	{
		p := mk("alias-of-unnamed-struct", "injector parameter typed by an alias of an unnamed struct with an unexported field", true)
		aliasLib(p, "type Opts = struct{ n int }", nil)
		p.Extra["0/wire.go"] = hdr + "import (\n\t\"github.com/google/wire\"\n\t\"" + p.ImportPath(1) + "\"\n)\n\nfunc Init(o libx.Opts) *libx.Svc {\n\twire.Build(libx.NewSvc)\n\treturn nil\n}\n"
		p.Extra["0/zz_driver.go"] = drvHdr + "import \"" + p.ImportPath(1) + "\"\n\nfunc Scenarios() {\n\t_ = Init(libx.Opts{})\n}\n"
		progs = append(progs, p)
	}
	{
		p := mk("alias-of-unexported-type", "injector parameter and result typed by an exported alias of an unexported type", true)
		aliasLib(p, "type cfg struct{ N int }\n\ntype Cfg = cfg\n\nfunc NewCfg() Cfg { return Cfg{N: 2} }", nil)
		p.Extra["0/wire.go"] = hdr + "import (\n\t\"github.com/google/wire\"\n\t\"" + p.ImportPath(1) + "\"\n)\n\nfunc Init(c libx.Cfg) *libx.Svc {\n\twire.Build(libx.NewSvc)\n\treturn nil\n}\n\nfunc InitCfg() (libx.Cfg, error) {\n\twire.Build(libx.NewCfg)\n\treturn libx.Cfg{}, nil\n}\n"
		p.Extra["0/zz_driver.go"] = drvHdr + "import \"" + p.ImportPath(1) + "\"\n\nfunc Scenarios() {\n\t_ = Init(libx.Cfg{})\n\t_, _ = InitCfg()\n}\n"
		progs = append(progs, p)
	}
	{
		p := mk("alias-embedded-in-unnamed-struct", "injector parameter of an unnamed struct type embedding an alias", false)
		aliasLib(p, "type S struct{ N int }\n\ntype A = S", nil)
		p.Extra["0/wire.go"] = hdr + "import (\n\t\"github.com/google/wire\"\n\t\"" + p.ImportPath(1) + "\"\n)\n\nfunc Init(o struct{ libx.A }) *libx.Svc {\n\twire.Build(libx.NewSvc)\n\treturn nil\n}\n"
		p.Extra["0/zz_driver.go"] = drvHdr + "import \"" + p.ImportPath(1) + "\"\n\nfunc Scenarios() {\n\t_ = Init(struct{ libx.A }{})\n}\n"
		progs = append(progs, p)
	}
	// the unexported type sits INSIDE a composite the alias names: element, key, parameter,
	// result, field; every position must be looked at
	for _, c := range []struct{ name, decl, zero string }{
		{"map-key", "type Index = map[key]string", "libx.Index{}"},
		{"map-elem", "type Index = map[string]key", "libx.Index{}"},
		{"slice-elem", "type Index = []key", "libx.Index{}"},
		{"array-elem", "type Index = [2]key", "libx.Index{}"},
		{"chan-elem", "type Index = chan key", "nil"},
		{"ptr-ptr", "type Index = **key", "nil"},
		{"func-param", "type Index = func(key) int", "nil"},
		{"func-result", "type Index = func() key", "nil"},
		{"func-variadic", "type Index = func(...key)", "nil"},
		{"struct-field", "type Index = struct{ K key }", "libx.Index{}"},
		{"map-of-map-key", "type Index = map[string]map[key]int", "libx.Index{}"},
		{"generic-arg", "type Box[T any] struct{ V T }\n\ntype Index = Box[key]", "libx.Index{}"},
	} {
		p := mk("alias-of-composite-with-unexported-"+c.name, "injector parameter typed by an exported alias of a composite type that mentions an unexported type ("+c.name+")", true)
		aliasLib(p, "type key struct{ N int }\n\n"+c.decl, nil)
		p.Extra["0/wire.go"] = hdr + "import (\n\t\"github.com/google/wire\"\n\t\"" + p.ImportPath(1) + "\"\n)\n\nfunc Init(idx libx.Index) *libx.Svc {\n\twire.Build(libx.NewSvc)\n\treturn nil\n}\n"
		p.Extra["0/zz_driver.go"] = drvHdr + "import \"" + p.ImportPath(1) + "\"\n\nfunc Scenarios() {\n\t_ = Init(" + c.zero + ")\n}\n"
		progs = append(progs, p)
	}
	{
		// control: an alias of an exported, importable type
		p := mk("alias-control", "injector parameter typed by an alias of an exported type (control)", false)
		aliasLib(p, "type S struct{ N int }\n\ntype A = S\n\ntype L = []*S", nil)
		p.Extra["0/wire.go"] = hdr + "import (\n\t\"github.com/google/wire\"\n\t\"" + p.ImportPath(1) + "\"\n)\n\nfunc Init(a libx.A, l libx.L) *libx.Svc {\n\twire.Build(libx.NewSvc)\n\treturn nil\n}\n"
		p.Extra["0/zz_driver.go"] = drvHdr + "import \"" + p.ImportPath(1) + "\"\n\nfunc Scenarios() {\n\t_ = Init(libx.A{}, libx.L{})\n}\n"
		progs = append(progs, p)
	}
	return progs
}

// sameNameCleanupFamily: cleanup-returning providers that share one function name (New) across
// packages - also packages sharing one package name - run before and after providers that can
// fail: every bookkeeping keyed by a bare name confuses them.
func sameNameCleanupFamily() []*Program {
	var out []*Program
	for v := 0; v < 4; v++ {
		b := NewPB(fmt.Sprintf("snc%d", v), "app", "liba", "libb", "libc")
		if v >= 2 {
			b.P.Pkgs[1].Name, b.P.Pkgs[2].Name, b.P.Pkgs[3].Name = "store", "store", "store"
		}
		ta, tb, tc := b.Carrier(1, "Conn"), b.Carrier(2, "Conn"), b.Carrier(3, "Conn")
		top := b.Carrier(0, "Top")
		fa := b.Func(1, "New", PtrTo(ta), true, false)
		fb := b.Func(2, "New", PtrTo(tb), true, v%2 == 1, PtrTo(ta))
		fc := b.Func(3, "New", PtrTo(tc), true, true, PtrTo(tb))
		ft := b.Func(0, "New", top, v%2 == 0, true, PtrTo(tc), PtrTo(ta))
		items := []*Item{fc, fa, ft, fb}
		b.Inj("Init", top, true, true, nil, refs(items...)...)
		// a second injector stopping half-way
		b.Inj("InitB", PtrTo(tb), true, true, nil, refs(fa, fb)...)
		cell := fmt.Sprintf("same-name-cleanup-providers/variant=%d", v)
		b.P.Note = cell
		b.P.Feat = map[string]string{"cell": cell}
		out = append(out, b.P)
	}
	return out
}

// namedResultsFamily: injector templates that NAME their results, with names chosen to meet the
// identifiers wire invents in the body (cleanup, cleanup2, err, the local derived from a type name).
// The generated injector must behave exactly as with unnamed results (C03, C04, C14).
func namedResultsFamily() []*Program {
	var out []*Program
	names := [][]string{
		{"app", "cleanup", "err"},
		{"top", "cleanup2", "err2"},
		{"conn", "cleanup3", "err"},
		{"cleanup", "err", "cleanup2"},
		{"err", "cleanup", "top"},
		{"_", "_", "_"},
		{"_", "cleanup", "_"},
	}
	for v, ns := range names {
		b := NewPB(fmt.Sprintf("nres%d", v), "app", "liba")
		ta, tb, tc := b.Carrier(1, "Conn"), b.Carrier(1, "Cache"), b.Carrier(0, "Queue")
		top := b.Carrier(0, "Top")
		fa := b.Func(1, "NewConn", PtrTo(ta), true, false)
		fb := b.Func(1, "NewCache", PtrTo(tb), true, true, PtrTo(ta))
		fc := b.Func(0, "NewQueue", PtrTo(tc), true, true, PtrTo(tb))
		ft := b.Func(0, "NewTop", top, false, true, PtrTo(tc), PtrTo(ta))
		in := b.Inj("Init", top, true, true, nil, refs(fc, fa, ft, fb)...)
		in.ResultNames = ns
		in2 := b.Inj("InitB", PtrTo(tb), true, true, nil, refs(fa, fb)...)
		_ = in2
		in3 := b.Inj("InitC", PtrTo(tb), true, true, nil, refs(fa, fb)...)
		in3.ResultNames = []string{ns[0], ns[1], ns[2]}
		in4 := b.Inj("InitD", PtrTo(ta), true, false, nil, refs(fa)...)
		in4.ResultNames = []string{ns[0], ns[1]}
		cell := fmt.Sprintf("named-results/%s,%s,%s", ns[0], ns[1], ns[2])
		b.P.Note = cell
		b.P.Feat = map[string]string{"cell": cell}
		out = append(out, b.P)
	}
	return out
}

// copiedHelperFirstImportFamily: a helper declaration copied from the injector file is the FIRST
// thing in the generated file that needs an import, the source spells that import under an alias,
// and the helper has a local / parameter / result / type-switch variable spelled like the name the
// generated file gives the import. The local must be renamed (or the import), never capture it.
func copiedHelperFirstImportFamily() []*Program {
	var out []*Program
	helpers := []struct{ name, src string }{
		{"local", "func Describe() string {\n\tfilepath := struct{ Name string }{\"local\"}\n\treturn filepath.Name + \"/\" + fp.Base(\"a/b\")\n}\n"},
		{"param", "func Describe(filepath string) string {\n\treturn filepath + \"/\" + fp.Base(\"a/b\")\n}\n"},
		{"result", "func Describe() (filepath string) {\n\tfilepath = fp.Base(\"a/b\")\n\treturn\n}\n"},
		{"guard", "func Describe(v interface{}) string {\n\tswitch filepath := v.(type) {\n\tcase string:\n\t\treturn filepath + fp.Base(\"a/b\")\n\tcase int:\n\t\treturn fp.Base(\"c/d\") + string(rune('0'+filepath))\n\t}\n\treturn \"\"\n}\n"},
		{"closure", "var Describe = func() string {\n\tfilepath := []string{\"x\"}\n\treturn func() string { return filepath[0] + fp.Base(\"a/b\") }()\n}\n"},
		{"const", "func Describe() string {\n\tconst filepath = \"a/b\"\n\treturn fp.Base(filepath)\n}\n"},
		{"local-type", "func Describe() string {\n\ttype filepath struct{ p string }\n\tv := filepath{p: \"a/b\"}\n\treturn fp.Base(v.p)\n}\n"},
		{"label", "func Describe() string {\n\tout := \"\"\nfilepath:\n\tfor i := 0; i < 3; i++ {\n\t\tout += fp.Base(\"a/b\")\n\t\tif i == 1 {\n\t\t\tbreak filepath\n\t\t}\n\t}\n\treturn out\n}\n"},
		{"type-parameter", "func Describe[filepath any](v filepath) string {\n\t_ = v\n\treturn fp.Base(\"a/b\")\n}\n\nvar _ = Describe[int]\n"},
		{"control-registered-earlier", "var _ = fp.Base\n\nfunc Describe() string {\n\tfilepath := struct{ Name string }{\"local\"}\n\treturn filepath.Name + \"/\" + fp.Base(\"a/b\")\n}\n"},
	}
	for v, h := range helpers {
		b := NewPB(fmt.Sprintf("chfi%d", v), "app")
		dep, top := b.Carrier(0, "Dep"), b.Carrier(0, "Top")
		nd := b.Func(0, "NewDep", dep, false, false)
		nt := b.Func(0, "NewTop", top, false, false, dep)
		b.Inj("Init", top, false, false, nil, refs(nd, nt)...)
		b.P.InjImports = map[string]string{"path/filepath": "fp"}
		b.P.InjRaw = h.src
		cell := "copied-helper-first-needs-aliased-import/collider=" + h.name
		b.P.Note = cell
		b.P.Feat = map[string]string{"cell": cell}
		out = append(out, b.P)
	}
	return out
}

// variadicBlankParamFamily: variadic injectors whose parameters are unnamed or blank: the
// generated implementation invents the names and must keep the last parameter variadic (C01: same
// parameter types as the template, checked by the driver's typed function variable and a call).
func variadicBlankParamFamily() []*Program {
	var out []*Program
	names := [][2]string{{"", ""}, {"p", "_"}, {"_", "_"}, {"_", "opts"}, {"p", "opts"}}
	n := 0
	for _, nm := range names {
		for _, varProv := range []bool{false, true} {
			n++
			b := NewPB(fmt.Sprintf("vbp%02d", n), "app")
			pre, opt, top := b.Carrier(0, "Prefix"), b.Carrier(0, "Opt"), b.Carrier(0, "Top")
			f := b.Func(0, "NewTop", top, false, false, pre, SliceOf(opt))
			f.Variadic = varProv
			in := b.Inj("Init", top, false, false, []Param{{Name: nm[0], Ty: pre}, {Name: nm[1], Ty: SliceOf(opt)}}, ItemRef(f.ID))
			in.Variadic = true
			// a second one with only the variadic parameter
			g := b.Func(0, "NewOpts", PtrTo(opt), false, false, SliceOf(opt))
			in2 := b.Inj("InitOnly", PtrTo(opt), false, false, []Param{{Name: nm[1], Ty: SliceOf(opt)}}, ItemRef(g.ID))
			in2.Variadic = true
			cell := fmt.Sprintf("variadic-injector/param-names=%q,%q/variadic-provider=%v", nm[0], nm[1], varProv)
			b.P.Note = cell
			b.P.Feat = map[string]string{"cell": cell}
			out = append(out, b.P)
		}
	}
	return out
}

// localShadowsSetVarFamily: a function-local variable / constant spelled like a package-level
// provider set variable (declared in a file before or after the set's own file) must not be
// taken for the set: the injector gets the package-level set's provider (C02, C10).
func localShadowsSetVarFamily() []*Program {
	var out []*Program
	n := 0
	for _, file := range []string{"zz_local.go", "aa_local.go"} {
		for _, form := range []string{"var", "short", "const", "nested-closure"} {
			n++
			b := NewPB(fmt.Sprintf("lss%02d", n), "app")
			dep, top := b.Carrier(0, "Dep"), b.Carrier(0, "Top")
			prod := b.Func(0, "NewProd", dep, false, false)
			b.Func(0, "NewFake", dep, false, false)
			nt := b.Func(0, "NewTop", top, false, false, dep)
			set := b.Set(0, "MainSet", ItemRef(prod.ID))
			b.Inj("Init", top, false, false, nil, SetRef(set.ID), ItemRef(nt.ID))
			var body string
			switch form {
			case "var":
				body = "\tvar MainSet = wire.NewSet(NewFake)\n\treturn MainSet\n"
			case "short":
				body = "\tMainSet := wire.NewSet(NewFake)\n\treturn MainSet\n"
			case "const":
				body = "\tconst MainSet = 7\n\t_ = wire.NewSet(NewFake)\n\treturn MainSet\n"
			case "nested-closure":
				body = "\treturn func() interface{} {\n\t\tvar MainSet = wire.NewSet(NewFake)\n\t\treturn MainSet\n\t}()\n"
			}
			b.P.Extra = map[string]string{"0/" + file: "package app\n\nimport \"github.com/google/wire\"\n\nfunc fakes() interface{} {\n" + body + "}\n\nvar _ = fakes\n"}
			cell := fmt.Sprintf("local-named-like-set-variable/form=%s/file=%s", form, file)
			b.P.Note = cell
			b.P.Feat = map[string]string{"cell": cell}
			out = append(out, b.P)
		}
	}
	return out
}

// diamondCompositeFamily: a value of an UNNAMED composite type comes from a provider with cleanup
// and error and is needed by both sides of a diamond (the outer provider and the provider of
// its other argument): built once, released once, whatever the argument order (C02, C03, C04).
func diamondCompositeFamily() []*Program {
	var out []*Program
	n := 0
	for _, kind := range []string{"slice", "map", "func", "ptrptr", "chan", "array"} {
		for _, compositeFirst := range []bool{false, true} {
			n++
			b := NewPB(fmt.Sprintf("dcf%02d", n), "app")
			opt := b.Carrier(0, "Opt")
			var k *Ty
			switch kind {
			case "slice":
				k = SliceOf(opt)
			case "map":
				k = MapOf(Basic("string"), opt)
			case "func":
				k = FuncRet(opt)
			case "ptrptr":
				k = PtrTo(PtrTo(opt))
			case "chan":
				k = ChanOf("", opt)
			case "array":
				k = ArrayOf(2, opt)
			case "struct":
				k = StructOf(FieldT{Name: "O", Ty: opt})
			}
			no := b.Func(0, "NewOptions", k, true, true)
			h, srv := b.Carrier(0, "Handler"), b.Carrier(0, "Server")
			nh := b.Func(0, "NewHandler", PtrTo(h), true, false, k)
			ps := []*Ty{PtrTo(h), k}
			if compositeFirst {
				ps = []*Ty{k, PtrTo(h)}
			}
			ns := b.Func(0, "NewServer", srv, true, true, ps...)
			b.Inj("Init", srv, true, true, nil, refs(ns, nh, no)...)
			cell := fmt.Sprintf("diamond-over-unnamed-composite/kind=%s/composite-first=%v", kind, compositeFirst)
			b.P.Note = cell
			b.P.Feat = map[string]string{"cell": cell}
			out = append(out, b.P)
		}
	}
	return out
}

// permutedSignatureFamily: acyclic programs whose types differ only in the ORDER of the parts of
// an unnamed type (function parameters, results) - distinct types that hash-based shortcuts tend
// to confuse: an adapter from func(A, B) R to func(B, A) R is no cycle (C07, C10).
func permutedSignatureFamily() []*Program {
	var out []*Program
	for v := 0; v < 4; v++ {
		b := NewPB(fmt.Sprintf("psf%d", v), "app")
		r, app := b.Carrier(0, "R"), b.Carrier(0, "App")
		a1, a2 := Basic("int"), Basic("string")
		f1 := &Ty{K: "func", Params: []*Ty{a1, a2}, Elem: r}
		f2 := &Ty{K: "func", Params: []*Ty{a2, a1}, Elem: r}
		if v%2 == 1 {
			f1 = &Ty{K: "func", Params: []*Ty{a1, a2, a1}, Elem: r}
			f2 = &Ty{K: "func", Params: []*Ty{a1, a1, a2}, Elem: r}
		}
		less := b.Func(0, "NewLess", f1, false, false)
		flip := b.Func(0, "NewFlipped", f2, false, false, f1)
		na := b.Func(0, "NewApp", app, false, false, f2)
		if v < 2 {
			set := b.Set(0, "Adapters", ItemRef(flip.ID), ItemRef(less.ID))
			b.Inj("Init", app, false, false, nil, ItemRef(na.ID), SetRef(set.ID))
		} else {
			b.Inj("Init", app, false, false, nil, refs(na, flip, less)...)
		}
		cell := fmt.Sprintf("adapter-between-permuted-signatures/variant=%d", v)
		b.P.Note = cell
		b.P.Feat = map[string]string{"cell": cell}
		out = append(out, b.P)
	}
	return out
}

// caseTwinFieldsFamily: a struct with two fields of ONE type whose names differ only in case; the
// field selected by name (wire.Struct / wire.FieldsOf, value and pointer parent) must be that
// very field - the other one keeps / has its own value (C02, C12).
func caseTwinFieldsFamily() []*Program {
	var out []*Program
	n := 0
	for _, sel := range []string{"Addr", "addr"} {
		for _, form := range []string{"fieldsof-ptr-parent", "fieldsof-value-parent", "struct"} {
			n++
			b := NewPB(fmt.Sprintf("ctf%02d", n), "app")
			x, user := b.Carrier(0, "X"), b.Carrier(0, "User")
			fields := []FieldT{idField, {Name: "addr", Ty: x}, {Name: "Addr", Ty: x}}
			if sel == "addr" {
				// the selected one is declared second either way
				fields = []FieldT{idField, {Name: "Addr", Ty: x}, {Name: "addr", Ty: x}}
			}
			switch form {
			case "struct":
				s := b.NamedOf(0, "Config", StructOf(fields[1:]...), "none")
				nx := b.Func(0, "NewX", x, false, false)
				st := b.Struct(s, false, sel)
				b.Inj("Init", s, false, false, nil, refs(nx, st)...)
			default:
				par := b.NamedOf(0, "Config", StructOf(fields...), "parent")
				pt := par
				if form == "fieldsof-ptr-parent" {
					pt = PtrTo(par)
				}
				np := b.Func(0, "NewConfig", pt, false, false)
				fl := b.Fields(pt, sel)
				nu := b.Func(0, "NewUser", user, false, false, x)
				b.Inj("Init", user, false, false, nil, refs(np, fl, nu)...)
			}
			cell := fmt.Sprintf("fields-differing-only-in-case/selected=%s/form=%s", sel, form)
			b.P.Note = cell
			b.P.Feat = map[string]string{"cell": cell}
			out = append(out, b.P)
		}
	}
	return out
}

// bindSpellingCounterpartsFamily: T and *T both provided, both implementing I (value receiver); the
// binding designates ONE of them, however its arguments are spelled (new(T), (*T)(nil), typed nil
// for both): the consumer of I receives that one, the consumer of the other form the other (C02, C11).
func bindSpellingCounterpartsFamily() []*Program {
	var out []*Program
	n := 0
	for _, sp := range []string{"", "typed-nil-second", "typed-nil-both"} {
		for _, toPtr := range []bool{false, true} {
			n++
			b := NewPB(fmt.Sprintf("bsc%02d", n), "app")
			conf, app := b.Carrier(0, "Conf"), b.Carrier(0, "App")
			ifc := b.Iface(0, "Logger", conf, false)
			nv := b.Func(0, "ProvideConf", conf, false, false)
			np := b.Func(0, "ProvideConfPtr", PtrTo(conf), false, false)
			target := conf
			if toPtr {
				target = PtrTo(conf)
			}
			bd := b.Bind(ifc, target)
			bd.Spelling = sp
			na := b.Func(0, "NewApp", app, false, false, ifc, PtrTo(conf), conf)
			set := b.Set(0, "ConfSet", ItemRef(nv.ID), ItemRef(np.ID), ItemRef(bd.ID))
			b.Inj("Init", app, false, false, nil, SetRef(set.ID), ItemRef(na.ID))
			cell := fmt.Sprintf("binding-with-both-forms-provided/spelling=%s/to-pointer=%v", sp, toPtr)
			b.P.Note = cell
			b.P.Feat = map[string]string{"cell": cell}
			out = append(out, b.P)
		}
	}
	return out
}

// multiNameSetSpecFamily: two provider sets declared in ONE var spec (var A, B = wire.NewSet(..),
// wire.NewSet(..)): each name means its own initialiser, whichever comes first and whichever the
// injector lists first (C02, C06, C10).
func multiNameSetSpecFamily() []*Program {
	var out []*Program
	n := 0
	for _, firstIsDep := range []bool{true, false} {
		for _, buildOrder := range []int{0, 1} {
			for _, nested := range []bool{false, true} {
				n++
				b := NewPB(fmt.Sprintf("mns%02d", n), "app", "liba")
				cfg, store, top := b.Carrier(1, "Config"), b.Carrier(1, "Store"), b.Carrier(0, "Top")
				nc := b.Func(1, "NewConfig", cfg, false, false)
				ns := b.Func(1, "NewStore", PtrTo(store), true, true, cfg)
				nt := b.Func(0, "NewTop", top, false, false, PtrTo(store), cfg)
				cs := b.Set(1, "ConfigSet", ItemRef(nc.ID))
				ss := b.Set(1, "StoreSet", ItemRef(ns.ID))
				if firstIsDep {
					cs.JoinWith, ss.Joined = ss.ID+1, true
				} else {
					// StoreSet is declared first in the spec: it must come first in p.Sets as well
					b.P.Sets[cs.ID], b.P.Sets[ss.ID] = ss, cs
					cs.ID, ss.ID = ss.ID, cs.ID
					ss.JoinWith, cs.Joined = cs.ID+1, true
				}
				refsB := []Ref{SetRef(cs.ID), SetRef(ss.ID)}
				if buildOrder == 1 {
					refsB[0], refsB[1] = refsB[1], refsB[0]
				}
				if nested {
					all := b.Set(1, "All", refsB...)
					refsB = []Ref{SetRef(all.ID)}
				}
				b.Inj("Init", top, true, true, nil, append(refsB, ItemRef(nt.ID))...)
				cell := fmt.Sprintf("two-sets-in-one-var-spec/dependency-first=%v/build-order=%d/nested=%v", firstIsDep, buildOrder, nested)
				b.P.Note = cell
				b.P.Feat = map[string]string{"cell": cell}
				out = append(out, b.P)
			}
		}
	}
	return out
}
