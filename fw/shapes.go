package fw

import (
	"encoding/json"
	"fmt"
)

func marshalIndent(v interface{}) string {
	b, err := json.MarshalIndent(v, "", " ")
	if err != nil {
		return "marshal error: " + err.Error()
	}
	return string(b)
}

// PB is a small builder for hand-shaped programs.
type PB struct {
	P *Program
	n int
}

func NewPB(id string, pkgs ...string) *PB {
	p := &Program{ID: id, Module: ModulePath, Feat: map[string]string{}}
	if len(pkgs) == 0 {
		pkgs = []string{"app"}
	}
	for _, n := range pkgs {
		p.Pkgs = append(p.Pkgs, &Pkg{Name: n, Dir: n})
	}
	return &PB{P: p}
}

func (b *PB) next() int { b.n++; return b.n }

var idField = FieldT{Name: "ID_", Ty: Basic("tr.ID")}

// Carrier declares a fresh named carrier struct.
func (b *PB) Carrier(pkg int, name string) *Ty {
	if name == "" {
		name = fmt.Sprintf("T%d", b.next())
	}
	return Named(b.P.NewDecl(pkg, name, StructOf(idField), "struct"))
}

func (b *PB) NamedOf(pkg int, name string, under *Ty, carrier string) *Ty {
	return Named(b.P.NewDecl(pkg, name, under, carrier))
}

// Func declares a provider function.
func (b *PB) Func(pkg int, name string, out *Ty, cleanup, err bool, params ...*Ty) *Item {
	if name == "" {
		name = fmt.Sprintf("New%d", b.next())
	}
	return b.P.AddItem(&Item{Kind: KFunc, Pkg: pkg, Name: name, Out: out, Cleanup: cleanup, Err: err, Params: params})
}

func (b *PB) Value(t *Ty) *Item {
	return b.P.AddItem(&Item{Kind: KValue, Out: t, ValID: int64(1000000 + b.next())})
}

func (b *PB) Struct(t *Ty, star bool, names ...string) *Item {
	return b.P.AddItem(&Item{Kind: KStruct, Struct: t, Star: star, Names: names})
}

func (b *PB) Fields(parent *Ty, names ...string) *Item {
	it := b.P.AddItem(&Item{Kind: KFields, Parent: parent, Names: names})
	it.Key = fmt.Sprintf("f%d", it.ID)
	return it
}

// Iface declares an interface with one method implemented by impl (T or *T).
func (b *PB) Iface(pkg int, name string, impl *Ty, ptrRecv bool) *Ty {
	m := fmt.Sprintf("M%d", b.next())
	base := methodBase(impl)
	base.Methods = append(base.Methods, Method{Name: m, PtrRecv: ptrRecv})
	if name == "" {
		name = fmt.Sprintf("I%d", b.n)
	}
	return Named(b.P.NewDecl(pkg, name, &Ty{K: "iface", Meths: []string{m}, Params: []*Ty{impl}}, "iface"))
}

func (b *PB) Bind(iface, concrete *Ty) *Item {
	return b.P.AddItem(&Item{Kind: KBind, Iface: iface, Concrete: concrete})
}

func (b *PB) IfaceValue(iface, concrete *Ty) *Item {
	return b.P.AddItem(&Item{Kind: KIfaceValue, Iface: iface, Concrete: concrete, ValID: int64(1000000 + b.next())})
}

func (b *PB) Set(pkg int, name string, members ...Ref) *Set {
	return b.P.AddSet(&Set{Pkg: pkg, Name: name, Members: members})
}

func (b *PB) Inj(name string, result *Ty, cleanup, err bool, params []Param, build ...Ref) *Injector {
	in := &Injector{Name: name, Result: result, Cleanup: cleanup, Err: err, Params: params, Build: build}
	b.P.Injs = append(b.P.Injs, in)
	return in
}

func refs(items ...*Item) []Ref {
	var r []Ref
	for _, it := range items {
		r = append(r, ItemRef(it.ID))
	}
	return r
}

// ---------------------------------------------------------------------------
// Result-kind matrix (C01, C20): every type kind as injector result x result shape

type kindSpec struct {
	name string
	mk   func(b *PB, pkg int) *Ty
}

func resultKinds() []kindSpec {
	basic := func(n string) kindSpec {
		return kindSpec{"basic-" + n, func(b *PB, pkg int) *Ty { return Basic(n) }}
	}
	ks := []kindSpec{
		{"named-struct", func(b *PB, pkg int) *Ty { return b.Carrier(pkg, "") }},
		{"unnamed-struct", func(b *PB, pkg int) *Ty {
			return StructOf(idField, FieldT{Name: fmt.Sprintf("Tag%d", b.next()), Ty: Basic("bool")})
		}},
		{"empty-struct", func(b *PB, pkg int) *Ty {
			return b.NamedOf(pkg, fmt.Sprintf("Empty%d", b.next()), StructOf(), "opaque")
		}},
		{"array", func(b *PB, pkg int) *Ty { return ArrayOf(3, b.Carrier(pkg, "")) }},
		{"named-array", func(b *PB, pkg int) *Ty {
			return b.NamedOf(pkg, fmt.Sprintf("Arr%d", b.next()), ArrayOf(2, b.Carrier(pkg, "")), "wrap")
		}},
		basic("bool"), basic("int"), basic("int8"), basic("int16"), basic("int32"), basic("int64"),
		basic("uint"), basic("uint8"), basic("uint16"), basic("uint32"), basic("uint64"), basic("uintptr"),
		basic("float32"), basic("float64"), basic("complex64"), basic("complex128"), basic("string"),
		basic("byte"), basic("rune"), basic("unsafe.Pointer"), basic("error"),
		{"named-int", func(b *PB, pkg int) *Ty { return b.NamedOf(pkg, fmt.Sprintf("NI%d", b.next()), Basic("int"), "int") }},
		{"named-string", func(b *PB, pkg int) *Ty {
			return b.NamedOf(pkg, fmt.Sprintf("NS%d", b.next()), Basic("string"), "string")
		}},
		{"named-bool", func(b *PB, pkg int) *Ty { return b.NamedOf(pkg, fmt.Sprintf("NB%d", b.next()), Basic("bool"), "bool") }},
		{"named-float", func(b *PB, pkg int) *Ty {
			return b.NamedOf(pkg, fmt.Sprintf("NF%d", b.next()), Basic("float64"), "int")
		}},
		{"named-complex", func(b *PB, pkg int) *Ty {
			return b.NamedOf(pkg, fmt.Sprintf("NC%d", b.next()), Basic("complex128"), "complexop")
		}},
		{"named-uptr", func(b *PB, pkg int) *Ty {
			return b.NamedOf(pkg, fmt.Sprintf("NU%d", b.next()), Basic("unsafe.Pointer"), "uptr")
		}},
		{"chan", func(b *PB, pkg int) *Ty { return ChanOf("", b.Carrier(pkg, "")) }},
		{"recv-chan", func(b *PB, pkg int) *Ty { return ChanOf("<-chan", b.Carrier(pkg, "")) }},
		{"send-chan", func(b *PB, pkg int) *Ty { return ChanOf("chan<-", b.Carrier(pkg, "")) }},
		{"named-iface", func(b *PB, pkg int) *Ty {
			impl := b.Carrier(pkg, "")
			return b.Iface(pkg, "", impl, false)
		}},
		{"empty-iface", func(b *PB, pkg int) *Ty { return &Ty{K: "iface"} }},
		{"map", func(b *PB, pkg int) *Ty { return MapOf(Basic("string"), b.Carrier(pkg, "")) }},
		{"pointer", func(b *PB, pkg int) *Ty { return PtrTo(b.Carrier(pkg, "")) }},
		{"ptr-ptr", func(b *PB, pkg int) *Ty { return PtrTo(PtrTo(b.Carrier(pkg, ""))) }},
		{"func", func(b *PB, pkg int) *Ty { return FuncRet(b.Carrier(pkg, "")) }},
		{"named-func", func(b *PB, pkg int) *Ty {
			return b.NamedOf(pkg, fmt.Sprintf("NFn%d", b.next()), FuncRet(b.Carrier(pkg, "")), "wrap")
		}},
		{"slice", func(b *PB, pkg int) *Ty { return SliceOf(b.Carrier(pkg, "")) }},
		{"named-slice", func(b *PB, pkg int) *Ty {
			return b.NamedOf(pkg, fmt.Sprintf("NSl%d", b.next()), SliceOf(b.Carrier(pkg, "")), "wrap")
		}},
		{"named-map", func(b *PB, pkg int) *Ty {
			return b.NamedOf(pkg, fmt.Sprintf("NM%d", b.next()), MapOf(Basic("int"), b.Carrier(pkg, "")), "wrap")
		}},
		{"generic", func(b *PB, pkg int) *Ty {
			var box *TypeDecl
			for _, d := range b.P.Decls {
				if d.Pkg == pkg && d.TParams == 1 {
					box = d
				}
			}
			if box == nil {
				box = b.P.NewDecl(pkg, "Box", StructOf(idField, FieldT{Name: "V", Ty: Basic("T0")}), "struct")
				box.TParams = 1
			}
			return &Ty{K: "named", Decl: box, DeclID: box.ID, TArgs: []*Ty{b.Carrier(pkg, "")}}
		}},
		{"alias", func(b *PB, pkg int) *Ty {
			c := b.Carrier(pkg, "")
			a := b.P.NewDecl(pkg, fmt.Sprintf("Al%d", b.next()), c, "")
			a.Alias = true
			return Named(a)
		}},
	}
	return ks
}

// resultKindMatrix: every kind x 4 result shapes x 2 failure placements, packed
// several injectors per package, in the injector package and in another package.
func resultKindMatrix(e *Env) []*Program {
	var progs []*Program
	kinds := resultKinds()
	perProg := 6
	for pkgVariant := 0; pkgVariant < 2; pkgVariant++ {
		for start := 0; start < len(kinds); start += perProg {
			end := start + perProg
			if end > len(kinds) {
				end = len(kinds)
			}
			b := NewPB(fmt.Sprintf("rk%d_%02d", pkgVariant, start), "app", "libk")
			b.P.Note = "result-kind-matrix"
			tpkg := pkgVariant // types in app or in lib
			names := ""
			for ki := start; ki < end; ki++ {
				k := kinds[ki]
				names += k.name + " "
				inj := 0
				addInj := func(res *Ty, cu, er bool, build ...*Item) {
					inj++
					b.Inj(fmt.Sprintf("K%dS%d", ki, inj), res, cu, er, nil, refs(build...)...)
				}
				// shape T
				{
					r := k.mk(b, tpkg)
					addInj(r, false, false, b.Func(tpkg, "", r, false, false))
				}
				// shape T,error
				{
					r := k.mk(b, tpkg)
					addInj(r, false, true, b.Func(tpkg, "", r, false, true))
				}
				// shape T,func()
				{
					r := k.mk(b, tpkg)
					c := b.Carrier(tpkg, "")
					addInj(r, true, false, b.Func(tpkg, "", c, true, false), b.Func(tpkg, "", r, false, false, c))
				}
				// shape T,func(),error ; failing provider after a cleanup
				{
					r := k.mk(b, tpkg)
					c := b.Carrier(tpkg, "")
					addInj(r, true, true, b.Func(tpkg, "", c, true, false), b.Func(tpkg, "", r, false, true, c))
				}
				// shape T,func(),error ; failing provider first, result produced by a cleanup provider
				{
					r := k.mk(b, tpkg)
					c := b.Carrier(tpkg, "")
					addInj(r, true, true, b.Func(tpkg, "", c, false, true), b.Func(tpkg, "", r, true, true, c))
				}
			}
			b.P.Feat = map[string]string{"matrix": "result-kind", "kinds": names, "typepkg": fmt.Sprint(tpkg)}
			progs = append(progs, b.P)
		}
	}
	return progs
}

// crossPkgAccessProgs: exported sets whose members are unexported in their home
// package; expected: a diagnostic or compilable output, never exit 0 + broken output.
func crossPkgAccessProgs(e *Env) []*Program {
	var progs []*Program
	{
		b := NewPB("xp_func", "app", "libx")
		a := b.Carrier(1, "A")
		f := b.Func(1, "newA", a, false, false)
		s := b.Set(1, "Set", ItemRef(f.ID))
		b.Inj("Init", a, false, false, nil, SetRef(s.ID))
		b.P.Note = "xpkg-unexported-func"
		b.P.RejectOK = true
		b.P.Feat = map[string]string{"matrix": "xpkg", "what": "unexported provider func in exported set"}
		progs = append(progs, b.P)
	}
	{
		b := NewPB("xp_field", "app", "libx")
		a := b.Carrier(1, "A")
		c := b.Carrier(1, "C")
		s := b.NamedOf(1, "S", StructOf(FieldT{Name: "Pub", Ty: a}, FieldT{Name: "priv", Ty: c}), "none")
		fa := b.Func(1, "NewA", a, false, false)
		fc := b.Func(1, "NewC", c, false, false)
		st := b.Struct(s, true)
		b.Inj("Init", s, false, false, nil, refs(fa, fc, st)...)
		b.P.Note = "xpkg-unexported-field"
		b.P.RejectOK = true
		b.P.Feat = map[string]string{"matrix": "xpkg", "what": "struct provider \"*\" with unexported field of another package"}
		progs = append(progs, b.P)
	}
	{
		// control: everything exported
		b := NewPB("xp_ok", "app", "libx")
		a := b.Carrier(1, "A")
		c := b.Carrier(1, "C")
		s := b.NamedOf(1, "S", StructOf(FieldT{Name: "Pub", Ty: a}, FieldT{Name: "Pub2", Ty: c}), "none")
		fa := b.Func(1, "NewA", a, false, false)
		fc := b.Func(1, "NewC", c, false, false)
		st := b.Struct(s, true)
		set := b.Set(1, "Set", refs(fa, fc, st)...)
		b.Inj("Init", PtrTo(s), false, false, nil, SetRef(set.ID))
		b.P.Feat = map[string]string{"matrix": "xpkg", "what": "control"}
		progs = append(progs, b.P)
	}
	return progs
}

// cleanupChains: stress shapes for C03/C04.
func cleanupChains(e *Env) []*Program {
	var progs []*Program
	maxN := e.tierN(8, 10)
	// chains with 1..N cleanup+error providers
	for n := 1; n <= maxN; n++ {
		for variant := 0; variant < 3; variant++ {
			b := NewPB(fmt.Sprintf("ch%d_%d", n, variant), "app")
			var prev *Ty
			var items []*Item
			for k := 0; k < n; k++ {
				t := b.Carrier(0, "")
				cu, er := true, true
				switch variant {
				case 1:
					cu = k%2 == 0 // alternate cleanup / plain
				case 2:
					er = k%2 == 1
				}
				var params []*Ty
				if prev != nil {
					params = []*Ty{prev}
				}
				items = append(items, b.Func(0, "", t, cu, er, params...))
				prev = t
			}
			b.Inj("Init", prev, true, true, nil, refs(items...)...)
			b.P.Feat = map[string]string{"shape": "chain", "n": fmt.Sprint(n), "variant": fmt.Sprint(variant)}
			b.P.Note = "cleanup-chain"
			progs = append(progs, b.P)
		}
	}
	// diamonds: base <- L, R <- top ; cleanups on sibling branches, widths 2..5
	for w := 2; w <= 5; w++ {
		b := NewPB(fmt.Sprintf("dia%d", w), "app")
		base := b.Carrier(0, "")
		items := []*Item{b.Func(0, "", base, true, true)}
		var mids []*Ty
		for k := 0; k < w; k++ {
			m := b.Carrier(0, "")
			mids = append(mids, m)
			items = append(items, b.Func(0, "", m, true, k%2 == 0, base))
		}
		top := b.Carrier(0, "")
		items = append(items, b.Func(0, "", top, true, true, mids...))
		b.Inj("Init", top, true, true, nil, refs(items...)...)
		b.P.Feat = map[string]string{"shape": "diamond", "w": fmt.Sprint(w)}
		b.P.Note = "cleanup-diamond"
		progs = append(progs, b.P)
	}
	// mixed: cleanup providers interleaved with struct / field / value / bind steps
	for n := 2; n <= 6; n++ {
		b := NewPB(fmt.Sprintf("mix%d", n), "app")
		var items []*Item
		v := b.Carrier(0, "")
		items = append(items, b.Value(v))
		prev := v
		for k := 0; k < n; k++ {
			// cleanup provider consuming prev
			t := b.Carrier(0, "")
			items = append(items, b.Func(0, "", t, true, true, prev))
			// struct provider wrapping it
			s := b.NamedOf(0, fmt.Sprintf("S%d", b.next()), StructOf(FieldT{Name: "F", Ty: t}), "none")
			items = append(items, b.Struct(s, false, "F"))
			// a parent built from the struct, with a field selected
			ft := b.Carrier(0, "")
			par := b.NamedOf(0, fmt.Sprintf("P%d", b.next()), StructOf(idField, FieldT{Name: "Fld", Ty: ft}), "parent")
			items = append(items, b.Func(0, "", PtrTo(par), k%2 == 0, false, PtrTo(s)))
			items = append(items, b.Fields(PtrTo(par), "Fld"))
			prev = PtrTo(ft)
		}
		last := b.Carrier(0, "")
		items = append(items, b.Func(0, "", last, true, true, prev))
		b.Inj("Init", last, true, true, nil, refs(items...)...)
		b.P.Feat = map[string]string{"shape": "mixed", "n": fmt.Sprint(n)}
		b.P.Note = "cleanup-mixed"
		progs = append(progs, b.P)
	}
	return progs
}

// errNameProgs: the package declares its own err / cleanup identifiers.
func errNameProgs(e *Env) []*Program {
	var progs []*Program
	decls := [][]string{
		{`var err error = &%TR%Err{Key: "package-level err", N: -7}`},
		{`var cleanup = func() { panic("package-level cleanup called") }`},
		{`var err error = &%TR%Err{Key: "package-level err", N: -7}`, `var err2 error = &%TR%Err{Key: "package-level err2", N: -8}`, `var cleanup, cleanup2 = 1, 2`},
		{`func err() {}`},
		{`type err struct{}`, `type cleanup int`},
		{`const err = 3`, `const cleanup = "x"`},
	}
	for i, ds := range decls {
		b := NewPB(fmt.Sprintf("en%d", i), "app")
		t1, t2, t3 := b.Carrier(0, ""), b.Carrier(0, ""), b.Carrier(0, "")
		f1 := b.Func(0, "", t1, true, true)
		f2 := b.Func(0, "", t2, true, true, t1)
		f3 := b.Func(0, "", t3, true, true, t2)
		b.Inj("Init", t3, true, true, nil, refs(f1, f2, f3)...)
		b.P.PkgVars = ds
		b.P.PkgIdents = []string{"err", "err2", "cleanup", "cleanup2"}
		b.P.Feat = map[string]string{"shape": "pkg-scope-names", "decls": fmt.Sprint(ds)}
		b.P.Note = "pkg-scope-err-name"
		progs = append(progs, b.P)
	}
	return progs
}
