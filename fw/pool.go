package fw

import (
	"fmt"
	"go/ast"
	"go/parser"
	"go/token"
	"os"
	"path/filepath"
	"sort"
	"strings"
)

// Issue is a refuted oracle clause.
type Issue struct {
	Prop    string
	Clause  string
	Witness string
	Sig     string // signature for known-findings matching
}

// ProgResult is everything observed about one program.
type ProgResult struct {
	P          *Program
	An         *Analysis
	Batch      string
	PreBad     string
	Outcome    *PkgOutcome
	LibDiags   []Diag
	GenFile    string
	BuildErr   string
	Calls      []*CallTrace
	Issues     []Issue
	Crash      string
	Incon      string
	Files      map[string]string
	GenStderr  string
	GenExit    int
	Stats      map[string]int
	CheckDiags []Diag
	ShowRan    bool
	ShowDiags  []Diag
	CheckExit  int
	CheckRan   bool
}

func (pr *ProgResult) add(prop, clause, witness string) {
	pr.Issues = append(pr.Issues, Issue{Prop: prop, Clause: clause, Witness: witness})
}

// PoolOpts controls the pipeline.
type PoolOpts struct {
	BatchSize int
	Execute   bool // build & run drivers
	Name      string
	KeepGoing bool
	ExtraEnv  []string
	AlsoCheck bool // also run `wire check ./...` on every batch
	AlsoShow  bool // also run `wire show ./...` on every batch (diagnostics only)
	NoGen     bool // only run check
}

// RunPool renders programs in batches, runs wire, builds, executes and evaluates.
func RunPool(e *Env, progs []*Program, opts PoolOpts) []*ProgResult {
	if opts.BatchSize <= 0 {
		opts.BatchSize = 40
	}
	results := make([]*ProgResult, len(progs))
	idx := map[string]int{}
	for i, p := range progs {
		results[i] = &ProgResult{P: p, An: Analyze(p), Stats: map[string]int{}}
		idx[p.ID] = i
	}
	var batches [][]*Program
	for i := 0; i < len(progs); i += opts.BatchSize {
		j := i + opts.BatchSize
		if j > len(progs) {
			j = len(progs)
		}
		batches = append(batches, progs[i:j])
	}
	e.ParallelDo(len(batches), func(bi int) {
		runBatch(e, fmt.Sprintf("%s-%d", opts.Name, bi), batches[bi], results, idx, opts, 0)
	})
	return results
}

func runBatch(e *Env, name string, progs []*Program, results []*ProgResult, idx map[string]int, opts PoolOpts, depth int) {
	driver := func(p *Program) bool { return opts.Execute && len(p.Injs) > 0 && results[idx[p.ID]].An.Accepted() }
	b, err := e.NewBatch(name, progs, driver)
	if err != nil {
		for _, p := range progs {
			results[idx[p.ID]].Incon = "render: " + err.Error()
		}
		return
	}
	defer b.Remove()
	b.Precheck()
	for id, msg := range b.PreBad {
		results[idx[id]].PreBad = msg
	}
	if len(b.Progs) == 0 {
		return
	}
	if opts.AlsoCheck || opts.NoGen {
		b.Check(opts.ExtraEnv...)
		if b.CheckRes.TimedOut || b.CheckRes.Crashed() || strings.Contains(b.CheckRes.Stderr, "VERIF-STEP-CAP") {
			if len(b.Progs) == 1 {
				pr := results[idx[b.Progs[0].ID]]
				if b.CheckRes.TimedOut {
					pr.Incon = "watchdog: wire check exceeded 180s"
				} else {
					pr.Crash = "wire check: " + tail(b.CheckRes.Stderr, 3000)
					pr.GenStderr = b.CheckRes.Stderr
					pr.Files = b.Progs[0].Files(false)
				}
				return
			}
			bisect(e, name, b.Progs, results, idx, opts, depth)
			return
		}
		for _, p := range b.Progs {
			pr := results[idx[p.ID]]
			pr.CheckRan = true
			pr.CheckExit = b.CheckRes.Exit
			for i := range p.Pkgs {
				if o := b.CheckOut[p.ImportPath(i)]; o != nil {
					pr.CheckDiags = append(pr.CheckDiags, o.Diags...)
				}
			}
		}
	}
	if opts.AlsoShow {
		sres := b.E.Wire(b.Root, opts.ExtraEnv, "show", "./...")
		if !sres.TimedOut && !sres.Crashed() && !strings.Contains(sres.Stderr, "VERIF-STEP-CAP") {
			sout := GenOutcomes(sres, b.DirOf())
			for _, p := range b.Progs {
				pr := results[idx[p.ID]]
				pr.ShowRan = true
				for i := range p.Pkgs {
					if o := sout[p.ImportPath(i)]; o != nil {
						pr.ShowDiags = append(pr.ShowDiags, o.Diags...)
					}
				}
			}
		}
	}
	if opts.NoGen {
		return
	}
	b.Gen(opts.ExtraEnv...)
	if b.GenRes.TimedOut {
		if len(b.Progs) == 1 {
			results[idx[b.Progs[0].ID]].Incon = "watchdog: wire gen exceeded 180s"
			return
		}
		bisect(e, name, b.Progs, results, idx, opts, depth)
		return
	}
	if b.GenRes.Crashed() || strings.Contains(b.GenRes.Stderr, "VERIF-STEP-CAP") {
		if len(b.Progs) == 1 {
			pr := results[idx[b.Progs[0].ID]]
			pr.Crash = tail(b.GenRes.Stderr, 3000)
			pr.GenStderr = b.GenRes.Stderr
			pr.GenExit = b.GenRes.Exit
			pr.Files = b.Progs[0].Files(false)
			return
		}
		bisect(e, name, b.Progs, results, idx, opts, depth)
		return
	}
	// a load failure takes the whole batch down: bisect to find the culprit
	if b.GenRes.Exit != 0 && len(b.Out) <= 1 && !strings.Contains(b.GenRes.Stderr, ": generate failed") && len(b.Progs) > 1 {
		bisect(e, name, b.Progs, results, idx, opts, depth)
		return
	}
	if opts.Execute {
		b.BuildAndRun()
	}
	calls := SplitCalls(b.Trace)
	for _, p := range b.Progs {
		pr := results[idx[p.ID]]
		pr.Batch = name
		pr.GenExit = b.GenRes.Exit
		ip := p.ImportPath(0)
		pr.Outcome = b.Out[ip]
		if pr.Outcome == nil {
			pr.Outcome = &PkgOutcome{}
		}
		for i := 1; i < len(p.Pkgs); i++ {
			if o := b.Out[p.ImportPath(i)]; o != nil {
				pr.LibDiags = append(pr.LibDiags, o.Diags...)
				if o.Failed {
					pr.Outcome.Failed = true
				}
			}
		}
		if len(b.Progs) == 1 {
			pr.GenStderr = b.GenRes.Stderr
		} else {
			var sb strings.Builder
			for _, d := range pr.Outcome.Diags {
				sb.WriteString(d.Text + "\n")
			}
			for _, d := range pr.LibDiags {
				sb.WriteString(d.Text + "\n")
			}
			if o := b.Out[""]; o != nil && len(b.Progs) == 1 {
				for _, d := range o.Diags {
					sb.WriteString(d.Text + "\n")
				}
			}
			pr.GenStderr = sb.String()
		}
		pr.GenFile = b.GenFile(p)
		for i := range p.Pkgs {
			if msg, bad := b.BuildBad[p.ImportPath(i)]; bad {
				pr.BuildErr += msg + "\n"
			}
		}
		pr.Calls = calls[p.ID]
		if opts.Execute && b.TraceErr != "" && pr.An.Accepted() && len(pr.Calls) == 0 && pr.BuildErr == "" && pr.Outcome.Wrote {
			pr.Incon = "driver: " + firstLine(b.TraceErr)
		}
	}
}

func bisect(e *Env, name string, progs []*Program, results []*ProgResult, idx map[string]int, opts PoolOpts, depth int) {
	mid := len(progs) / 2
	runBatch(e, name+"a", progs[:mid], results, idx, opts, depth+1)
	runBatch(e, name+"b", progs[mid:], results, idx, opts, depth+1)
}

// ---------------------------------------------------------------------------
// Evaluation of an accepted-by-model program (C01..C04 clauses)

// EvalAccepted applies the compile / wiring / fault / cleanup oracles.
func EvalAccepted(pr *ProgResult) {
	p := pr.P
	if pr.PreBad != "" || pr.Incon != "" {
		return
	}
	if pr.Crash != "" {
		pr.add("C20", "crash", pr.Crash)
		return
	}
	if !pr.Outcome.Wrote || pr.Outcome.Failed || len(pr.Outcome.Diags) > 0 {
		if p.RejectOK && !pr.Outcome.Wrote && len(pr.Outcome.Diags)+len(pr.LibDiags) > 0 {
			pr.Stats["rejected_where_rejection_is_acceptable"]++
			return
		}
		pr.add("C10", "well-formed program rejected", pr.GenStderr)
		return
	}
	// C01 (d): file must exist
	if pr.GenFile == "" {
		pr.add("C01", "success reported but wire_gen.go missing", "")
		return
	}
	// C01 (c): exactly one implementation per injector
	counts, perr := funcDeclCounts(pr.GenFile)
	if perr != nil {
		pr.add("C01", "generated file does not parse", perr.Error())
	} else {
		for _, in := range p.Injs {
			if counts[in.Name] != 1 {
				pr.add("C01", fmt.Sprintf("injector %s has %d generated implementations", in.Name, counts[in.Name]), "")
			}
		}
	}
	// C01 (a,b): compile incl. typed assignment
	if pr.BuildErr != "" {
		pr.add("C01", "generated package does not compile under default tags", pr.BuildErr)
		// a value of the wrong type wired into a parameter, field or result is also a wiring
		// defect (C02): the dependency is not fed by the source of its type
		for _, ln := range strings.Split(pr.BuildErr, "\n") {
			if strings.Contains(ln, "wire_gen.go") && strings.Contains(ln, "cannot use ") &&
				(strings.Contains(ln, " in argument to ") || strings.Contains(ln, " in struct literal") || strings.Contains(ln, " in return statement")) {
				pr.add("C02", "generated injector wires a value of the wrong type (compile error): "+strings.TrimSpace(ln[strings.Index(ln, "cannot use "):]), pr.BuildErr)
				break
			}
		}
		return
	}
	if pr.Calls == nil {
		return
	}
	items := map[string]*Item{}
	for _, it := range p.Items {
		items[it.Key] = it
	}
	byInj := map[string]*InjPlan{}
	for _, pl := range pr.An.Injs {
		byInj[pl.Inj.Name] = pl
	}
	for _, ct := range pr.Calls {
		pl := byInj[ct.Inj]
		if pl == nil {
			continue
		}
		evalCall(pr, pl, items, ct)
	}
}

func funcDeclCounts(src string) (map[string]int, error) {
	fset := token.NewFileSet()
	f, err := parser.ParseFile(fset, "wire_gen.go", src, 0)
	if err != nil {
		return nil, err
	}
	m := map[string]int{}
	for _, d := range f.Decls {
		if fd, ok := d.(*ast.FuncDecl); ok && fd.Recv == nil {
			m[fd.Name.Name]++
		}
	}
	return m, nil
}

func evalCall(pr *ProgResult, pl *InjPlan, items map[string]*Item, ct *CallTrace) {
	p := pr.P
	x := &expecter{p: p, pl: pl, provOut: map[string]*D{}, memo: map[string]*D{}}
	needFunc := map[string]bool{}
	for _, k := range pl.FuncKeys {
		needFunc[k] = true
	}
	var provOrder []string // keys in order of successful prov
	var failEv *Event
	var ret *Event
	ran := map[string]int{}
	phase := 0 // 0 before ret, 1 after ret before cu_invoke, 2 inside cu, 3 after cu_done
	var cleanupsBeforeRet, cleanupsInCu []string
	wit := func() string { return ct.Dump() }
	failProp := "C03"
	for i := range ct.Events {
		e := &ct.Events[i]
		switch e.Ev {
		case "inj_enter":
			x.args = e.Args
			pr.Stats["inj_calls"]++
		case "prov", "prov_fail":
			it := items[e.Key]
			if it == nil {
				pr.add("C02", "provider with unknown key ran: "+e.Key, wit())
				continue
			}
			if failEv != nil {
				pr.add("C03", "provider "+e.Key+" called after the failure of "+failEv.Key, wit())
			}
			if phase != 0 {
				pr.add("C02", "provider "+e.Key+" ran after the injector returned", wit())
			}
			ran[e.Key]++
			if ran[e.Key] > 1 {
				pr.add("C02", "provider "+e.Key+" called twice in one injector call", wit())
			}
			if !needFunc[e.Key] {
				pr.add("C02", "provider "+e.Key+" called although the result does not depend on it", wit())
			}
			// inputs
			if len(e.In) != len(it.Params) {
				pr.add("C02", fmt.Sprintf("provider %s received %d inputs, model has %d", e.Key, len(e.In), len(it.Params)), wit())
			} else {
				for j, t := range it.Params {
					exp := x.expect(t.Key(p))
					if x.err != "" {
						pr.add("C02", "input "+fmt.Sprint(j)+" of "+e.Key+": "+x.err, wit())
						x.err = ""
						continue
					}
					pr.Stats["inputs_checked"]++
					if !sameDesc(e.In[j], exp) {
						pr.add("C02", fmt.Sprintf("provider %s parameter %d (%s) received %s, the source of its type produced %s", e.Key, j, t.Key(p), e.In[j].Canon(), exp.Canon()), wit())
					}
				}
			}
			if e.Ev == "prov" {
				x.provOut[e.Key] = e.Out
				provOrder = append(provOrder, e.Key)
				pr.Stats["prov_events"]++
			} else {
				failEv = e
				pr.Stats["fail_points"]++
			}
		case "cleanup":
			pr.Stats["cleanup_events"]++
			switch phase {
			case 0:
				cleanupsBeforeRet = append(cleanupsBeforeRet, e.Key)
			case 1:
				pr.add("C04", "cleanup of "+e.Key+" ran before the caller invoked the returned cleanup function", wit())
			case 2:
				cleanupsInCu = append(cleanupsInCu, e.Key)
			case 3:
				pr.add("C04", "cleanup of "+e.Key+" ran after the aggregated cleanup returned", wit())
			}
		case "poison":
			pr.add("C03", "the failing provider's own cleanup result was called ("+e.Key+")", wit())
		case "inj_ret":
			ret = e
			phase = 1
		case "cu_invoke":
			phase = 2
		case "cu_done":
			phase = 3
		case "panic":
			prop := "C02"
			if failEv != nil {
				prop = failProp
			} else if phase >= 1 {
				prop = "C04"
			}
			pr.add(prop, "panic during injector call: "+e.Msg, wit())
		}
	}
	if ret == nil {
		return
	}
	// cleanup-capable providers that succeeded, in acquisition order
	var acquired []string
	for _, k := range provOrder {
		if items[k].Cleanup {
			acquired = append(acquired, k)
		}
	}
	rev := func(a []string) []string {
		r := make([]string, len(a))
		for i := range a {
			r[len(a)-1-i] = a[i]
		}
		return r
	}
	if failEv != nil {
		// ---- C03
		pr.Stats["failure_calls"]++
		if ret.Err != failEv.Err {
			pr.add("C03", fmt.Sprintf("injector returned error %d (%s), the failing provider %s returned error %d", ret.Err, ret.ErrText, failEv.Key, failEv.Err), wit())
		}
		if !ret.IsZero {
			pr.add("C03", "injector returned a non-zero result on failure: "+ret.Res.Canon(), wit())
		}
		if ret.HasCu && !ret.CuNil {
			pr.add("C03", "injector returned a non-nil cleanup on failure", wit())
		}
		want := rev(acquired)
		if strings.Join(cleanupsBeforeRet, ",") != strings.Join(want, ",") {
			pr.add("C03", fmt.Sprintf("cleanups run on failure of %s: [%s], want exactly the acquired ones in reverse: [%s]", failEv.Key, strings.Join(cleanupsBeforeRet, ","), strings.Join(want, ",")), wit())
		}
		return
	}
	// ---- success path
	pr.Stats["success_calls"]++
	if ret.Err != 0 {
		pr.add("C03", fmt.Sprintf("injector returned an error although no provider failed (err=%d %s)", ret.Err, ret.ErrText), wit())
		return
	}
	if len(cleanupsBeforeRet) > 0 {
		pr.add("C04", "provider cleanups ran before the injector returned successfully: "+strings.Join(cleanupsBeforeRet, ","), wit())
	}
	// C02: every needed function provider ran; result identity
	for _, k := range pl.FuncKeys {
		if ran[k] == 0 {
			pr.add("C02", "needed provider "+k+" was not called", wit())
		}
	}
	exp := x.expect(pl.Inj.Result.Key(p))
	if x.err != "" {
		pr.add("C02", "result: "+x.err, wit())
	} else {
		pr.Stats["results_checked"]++
		if !sameDesc(ret.Res, exp) {
			pr.add("C02", fmt.Sprintf("injector returned %s, the source of its result type produced %s", ret.Res.Canon(), exp.Canon()), wit())
		}
		// pointer-to-field aliasing (C12): expected address known
		if exp.K == "ptr" && exp.Addr != 0 && ret.Res.K == "ptr" && ret.Res.Addr != exp.Addr {
			pr.add("C12", "pointer to field does not alias the field inside the provided struct", wit())
		}
	}
	// C04
	if ret.HasCu {
		pr.Stats["cleanup_calls"]++
		if ret.CuNil {
			pr.add("C04", "injector returned a nil cleanup function on success", wit())
		} else {
			want := rev(acquired)
			if strings.Join(cleanupsInCu, ",") != strings.Join(want, ",") {
				pr.add("C04", fmt.Sprintf("aggregated cleanup ran [%s], want every acquired cleanup once in reverse order [%s]", strings.Join(cleanupsInCu, ","), strings.Join(want, ",")), wit())
			}
			// dependency clause: a provider's cleanup runs before the cleanup of anything it was built from
			pos := map[string]int{}
			for i, k := range cleanupsInCu {
				if _, dup := pos[k]; !dup {
					pos[k] = i
				}
			}
			for _, k := range acquired {
				for _, dep := range transitiveFuncDeps(p, pl, items[k]) {
					if pi, ok := pos[k]; ok {
						if pd, ok2 := pos[dep]; ok2 && pd < pi {
							pr.add("C04", fmt.Sprintf("cleanup of %s ran before the cleanup of %s, which was built from it", dep, k), wit())
						}
					}
				}
			}
			if phase != 3 {
				pr.add("C04", "aggregated cleanup did not return", wit())
			}
			pr.Stats[fmt.Sprintf("cleanups_%d", len(acquired))]++
		}
	}
	// one instance per type per call: every consumer of a pointer-like type (and the injector's
	// result) must see the same address, whatever the kind of its source (a struct provider's
	// pointer form and the concrete value behind a binding included)
	addrOf := map[string]uint64{}
	seeAddr := func(k string, d *D, who string) {
		if d == nil || d.Addr == 0 || (d.K != "ptr" && d.K != "map" && d.K != "chan") {
			return
		}
		rk := k
		if pv, _ := pl.Info.resolve(k); pv != nil {
			rk = pv.Ty.Key(p)
			if pv.Item != nil && pv.Item.Kind == KFields {
				rk = k
			}
		}
		pr.Stats["same_instance_checked"]++
		if prev, ok := addrOf[rk]; ok && prev != d.Addr {
			prop := "C02"
			if pv := pl.Info.prov[k]; pv != nil && pv.Item != nil && pv.Item.Kind == KBind {
				prop = "C11"
			}
			pr.add(prop, fmt.Sprintf("%s received a different instance of %s than an earlier consumer in the same call (%#x vs %#x): its source was evaluated twice", who, k, d.Addr, prev), wit())
			return
		}
		addrOf[rk] = d.Addr
	}
	for i := range ct.Events {
		e := &ct.Events[i]
		switch e.Ev {
		case "prov", "prov_fail":
			it := items[e.Key]
			if it == nil || len(e.In) != len(it.Params) {
				continue
			}
			for j, t := range it.Params {
				seeAddr(t.Key(p), e.In[j], "provider "+e.Key)
			}
		case "inj_ret":
			if e.Err == 0 {
				seeAddr(pl.Inj.Result.Key(p), e.Res, "the injector's caller")
			}
		}
	}
	// pointer identity: a consumer of a pointer-typed dependency must receive the very
	// pointer its source produced (bindings share the instance; field pointers alias the field)
	for i := range ct.Events {
		e := &ct.Events[i]
		if e.Ev != "prov" {
			continue
		}
		it := items[e.Key]
		if it == nil || len(e.In) != len(it.Params) {
			continue
		}
		for j, t := range it.Params {
			ed := x.memo[t.Key(p)]
			if ed != nil && ed.K == "ptr" && ed.Addr != 0 && e.In[j].K == "ptr" {
				prop, what := "C02", "pointer dependency"
				if pv := pl.Info.prov[t.Key(p)]; pv != nil && pv.Item != nil {
					switch pv.Item.Kind {
					case KFields:
						prop, what = "C12", "pointer to field"
						pr.Stats["field_ptr_alias_checked"]++
					case KBind:
						prop, what = "C11", "bound interface"
						pr.Stats["bound_ptr_identity_checked"]++
					}
				}
				pr.Stats["ptr_identity_checked"]++
				if e.In[j].Addr != ed.Addr {
					pr.add(prop, fmt.Sprintf("provider %s: %s does not point to what its source produced (%#x vs %#x)", e.Key, what, e.In[j].Addr, ed.Addr), wit())
				}
			}
		}
	}
}

// transitiveFuncDeps lists keys of function providers that item it (transitively) depends on.
func transitiveFuncDeps(p *Program, pl *InjPlan, it *Item) []string {
	seen := map[string]bool{}
	var out []string
	var visit func(t *Ty)
	a := &analysis{p: p}
	visit = func(t *Ty) {
		k := t.Key(p)
		if seen[k] {
			return
		}
		seen[k] = true
		pv := pl.Info.prov[k]
		if pv == nil || pv.Item == nil {
			return
		}
		if pv.Item.Kind == KFunc {
			out = append(out, pv.Item.Key)
		}
		for _, d := range a.deps(pv) {
			visit(d)
		}
	}
	for _, t := range it.Params {
		visit(t)
	}
	return out
}

// ---------------------------------------------------------------------------
// Reporting

// Report accumulates verdicts of one check.
type Report struct {
	Prop        string
	E           *Env
	Evaluations int
	Sigs        map[string]bool
	Samples     []interface{}
	Counters    map[string]int
	Violations  []Issue
	Known       []string
	Incon       []string
	NoClaim     int
	Rule        string
	Level       string
	Assumptions []string
	Exhaustive  bool
	MinDistinct int
}

func NewReport(e *Env, prop, level, rule string) *Report {
	os.RemoveAll(filepath.Join(e.Verif, "replays", prop))
	return &Report{Prop: prop, E: e, Sigs: map[string]bool{}, Counters: map[string]int{}, Rule: rule, Level: level, MinDistinct: 2}
}

func (r *Report) Held(sig string) {
	r.Evaluations++
	r.Sigs[sig] = true
}

func (r *Report) Sample(s interface{}) {
	if len(r.Samples) < 6 {
		r.Samples = append(r.Samples, s)
	}
}

func (r *Report) Count(k string, n int) { r.Counters[k] += n }

// Violate records a violation with a replay bundle.
func (r *Report) Violate(caseName string, is Issue, files map[string]string, notes map[string]string) {
	r.Evaluations++
	if notes == nil {
		notes = map[string]string{}
	}
	notes["verdict.txt"] = fmt.Sprintf("property=%s\nclause=%s\n\n%s\n", is.Prop, is.Clause, is.Witness)
	is.Witness = r.E.SaveReplay(r.Prop, caseName, files, notes)
	r.Violations = append(r.Violations, is)
}

// ProgSig computes the shape signature of a program.
func ProgSig(p *Program) string {
	var ks []string
	for k, v := range p.Feat {
		ks = append(ks, k+"="+v)
	}
	sort.Strings(ks)
	return strings.Join(ks, ";")
}

func writeFileAtomic(path string, b []byte) error {
	os.MkdirAll(filepath.Dir(path), 0o755)
	tmp := path + ".tmp"
	if err := os.WriteFile(tmp, b, 0o644); err != nil {
		return err
	}
	return os.Rename(tmp, path)
}
