package fw

import (
	"fmt"
	"os"
	"path/filepath"
	"sort"
	"strings"
	"sync"
	"time"
)

// ---------------------------------------------------------------------------
// small program pools by class

// cliS returns accepted programs with distinct content.
func cliS(i int) *Program {
	id := fmt.Sprintf("s%d", i)
	b := NewPB(id, "app")
	switch i % 6 {
	case 0:
		a, c := b.Carrier(0, "A"), b.Carrier(0, "C")
		fa := b.Func(0, "NewA", a, false, false)
		fc := b.Func(0, "NewC", c, false, false, a)
		b.Inj("Init", c, false, false, nil, refs(fa, fc)...)
	case 1:
		a, c := b.Carrier(0, "A"), b.Carrier(0, "C")
		fa := b.Func(0, "NewA", a, true, true)
		fc := b.Func(0, "NewC", c, true, false, a)
		b.Inj("Init", c, true, true, nil, refs(fa, fc)...)
	case 2:
		a, c := b.Carrier(0, "A"), b.Carrier(0, "C")
		v := b.Value(a)
		fc := b.Func(0, "NewC", c, false, true, a)
		b.Inj("Init", c, false, true, nil, refs(v, fc)...)
		in2 := b.Inj("InitA", a, false, false, nil, ItemRef(v.ID))
		in2.File = 1
	case 3:
		c := b.Carrier(0, "Conc")
		i := b.Iface(0, "I", c, false)
		fc := b.Func(0, "NewConc", c, false, false)
		bd := b.Bind(i, c)
		s := b.Set(0, "Set", refs(fc, bd)...)
		b.Inj("Init", i, false, false, nil, SetRef(s.ID))
	case 4:
		x := b.Carrier(0, "X")
		s := b.NamedOf(0, "S", StructOf(FieldT{Name: "F", Ty: x}), "none")
		fx := b.Func(0, "NewX", x, false, false)
		st := b.Struct(s, true)
		b.Inj("Init", PtrTo(s), false, false, []Param{}, refs(fx, st)...)
	case 5:
		a := b.Carrier(0, "A")
		c := b.Carrier(0, "C")
		fc := b.Func(0, "NewC", c, false, false, a)
		b.Inj("Init", c, false, false, []Param{{Name: "a", Ty: a}}, ItemRef(fc.ID))
	}
	b.P.Note = "cli-S"
	return b.P
}

// cliF returns programs wire must reject (analysis failures of different classes).
func cliF(i int) *Program {
	id := fmt.Sprintf("f%d", i)
	b := NewPB(id, "app")
	a, c := b.Carrier(0, "A"), b.Carrier(0, "C")
	switch i % 4 {
	case 0: // missing
		fc := b.Func(0, "NewC", c, false, false, a)
		b.Inj("Init", c, false, false, nil, ItemRef(fc.ID))
	case 1: // conflict
		f1 := b.Func(0, "NewA1", a, false, false)
		f2 := b.Func(0, "NewA2", a, false, false)
		b.Inj("Init", a, false, false, nil, refs(f1, f2)...)
	case 2: // unused
		f1 := b.Func(0, "NewA", a, false, false)
		f2 := b.Func(0, "NewC", c, false, false)
		b.Inj("Init", a, false, false, nil, refs(f1, f2)...)
	case 3: // one good injector, one bad: the whole package must be suppressed
		f1 := b.Func(0, "NewA", a, false, false)
		f2 := b.Func(0, "NewC", c, false, false, a)
		b.Inj("InitGood", a, false, false, nil, ItemRef(f1.ID))
		b.Inj("InitBad", c, false, false, nil, ItemRef(f2.ID))
	}
	b.P.Note = "cli-F"
	return b.P
}

// cliN returns packages without injectors.
func cliN(i int) *Program {
	id := fmt.Sprintf("n%d", i)
	b := NewPB(id, "app")
	if i%6 == 4 {
		// a directory that only holds a test file
		b.P.Extra = map[string]string{"0/only_test.go": "package app\n\nimport \"testing\"\n\nfunc TestNothing(t *testing.T) {}\n"}
		b.P.Note = "cli-N"
		return b.P
	}
	a := b.Carrier(0, "A")
	fa := b.Func(0, "NewA", a, false, false)
	if i%2 == 1 {
		b.Set(0, "OnlyASet", ItemRef(fa.ID))
	}
	switch i % 4 {
	case 2:
		// no injector, but blank and ordinary imports and an init function
		b.P.Extra = map[string]string{"0/side.go": "package app\n\nimport (\n\t_ \"embed\"\n\t\"strings\"\n\t_ \"unsafe\"\n)\n\nvar Upper = strings.ToUpper(\"x\")\n\nfunc init() { _ = Upper }\n"}
	case 3:
		// a file carrying the wireinject constraint, a blank import and declarations, but no injector
		b.P.Extra = map[string]string{"0/notinjector.go": "//go:build wireinject\n// +build wireinject\n\npackage app\n\nimport (\n\t_ \"embed\"\n\n\t\"github.com/google/wire\"\n)\n\nvar TaggedSet = wire.NewSet(NewA)\n\nfunc helperOnly() int { return 1 }\n"}
	}
	b.P.Note = "cli-N"
	return b.P
}

type cliOpts struct {
	Header string // "", "ok"; unusable: "missing", "dir", "notgo", "opencomment", "gobuild" (a //go:build line of its own)
	Prefix string
	Tags   string
}

func (o cliOpts) key() string { return o.Header + "|" + o.Prefix + "|" + o.Tags }

// unusable: the header option names something that cannot serve as the start of a Go file
// (no such file, a directory, plain text, a comment that never closes)
func (o cliOpts) unusable() bool {
	return o.Header != "" && o.Header != "ok" && o.Header != "blockcomment" || strings.ContainsAny(o.Tags, "\n\r")
}

func (o cliOpts) args(cmd string, headerPath string) []string {
	var a []string
	if cmd == "gen" || cmd == "diff" {
		switch o.Header {
		case "ok":
			a = append(a, "-header_file", headerPath)
		case "missing":
			a = append(a, "-header_file", headerPath+".does-not-exist")
		case "dir":
			a = append(a, "-header_file", filepath.Dir(headerPath))
		case "notgo":
			a = append(a, "-header_file", headerPath+".notgo")
		case "opencomment":
			a = append(a, "-header_file", headerPath+".opencomment")
		case "gobuild", "gobuildtab", "gobuildindent", "gobuildplus", "gobuildplusafter", "blockcomment":
			a = append(a, "-header_file", headerPath+"."+o.Header)
		}
	}
	if cmd == "gen" && o.Prefix != "" {
		a = append(a, "-output_file_prefix", o.Prefix)
	}
	if o.Tags != "" {
		a = append(a, "-tags", o.Tags)
	}
	return a
}

const headerText = "// Copyright header inserted by -header_file.\n\n"

const stalePrior = "//go:build !wireinject\n// +build !wireinject\n\npackage app\n\n// stale generated file\nfunc StaleLeftover() int { return 42 }\n"

// garbage after the package clause: the go tool tolerates this in a file excluded by its
// constraint regardless of file age (a file with no package clause is refused by the
// go command's package index once it is older than 2s, so it is not a usable damage class)
const garbagePrior = "//go:build !wireinject\n// +build !wireinject\n\npackage app\n\nthis is ((( not go at all\n"

// prepareModule writes the module with the given programs into root.
func prepareModule(e *Env, root string, progs []*Program) error {
	if err := WriteModule(root, e.Repo, e.TrSrc); err != nil {
		return err
	}
	for _, p := range progs {
		if err := WriteFiles(root, p.Files(false)); err != nil {
			return err
		}
	}
	os.WriteFile(filepath.Join(root, "header.txt.notgo"), []byte("Copyright 2026 Example Inc. All rights reserved.\n\n"), 0o644)
	// a block comment that merely quotes a constraint line is an ordinary, usable header
	os.WriteFile(filepath.Join(root, "header.txt.blockcomment"), []byte("/*\nCopyright 2026 Example Inc. Files of this project used to start with\n//go:build ignore\n*/\n\n"), 0o644)
	os.WriteFile(filepath.Join(root, "header.txt.gobuildtab"), []byte("//go:build\tlinux\n\n"), 0o644)
	os.WriteFile(filepath.Join(root, "header.txt.gobuildindent"), []byte("// Copyright 2026 Example Inc.\n\n  //go:build linux\n\n"), 0o644)
	// the pre-1.17 spelling of a constraint is a constraint all the same
	os.WriteFile(filepath.Join(root, "header.txt.gobuildplus"), []byte("// +build ignore\n\n"), 0o644)
	os.WriteFile(filepath.Join(root, "header.txt.gobuildplusafter"), []byte("/* Copyright 2026 Example Inc. */\n// +build windows\n\n"), 0o644)
	os.WriteFile(filepath.Join(root, "header.txt.gobuild"), []byte("// Copyright 2026 Example Inc.\n\n//go:build linux\n\n"), 0o644)
	os.WriteFile(filepath.Join(root, "header.txt.opencomment"), []byte("/* Copyright 2026 Example Inc.\n   All rights reserved.\n"), 0o644)
	return os.WriteFile(filepath.Join(root, "header.txt"), []byte(headerText), 0o644)
}

// refCache: reference content of S programs per option set, from solo runs in pristine copies.
type refCache struct {
	mu sync.Mutex
	m  map[string][]byte
	e  *Env
	n  int
}

func (rc *refCache) get(p *Program, o cliOpts) ([]byte, error) {
	o.Tags = strings.Join(strings.FieldsFunc(o.Tags, func(r rune) bool { return r == ',' || r == ' ' }), " ")
	k := p.ID + "|" + o.Header + "|" + o.Tags
	rc.mu.Lock()
	if c, ok := rc.m[k]; ok {
		rc.mu.Unlock()
		return c, nil
	}
	rc.n++
	n := rc.n
	rc.mu.Unlock()
	root := filepath.Join(rc.e.Scratch, "ref", fmt.Sprintf("r%d", n))
	os.MkdirAll(root, 0o755)
	defer os.RemoveAll(root)
	if err := prepareModule(rc.e, root, []*Program{p}); err != nil {
		return nil, err
	}
	o2 := o
	o2.Prefix = ""
	if o2.unusable() {
		o2.Header = ""
		o2.Tags = ""
	}
	args := append([]string{"gen"}, o2.args("gen", filepath.Join(root, "header.txt"))...)
	args = append(args, "./"+p.ID+"/app")
	res := rc.e.Wire(root, nil, args...)
	if res.Exit != 0 {
		return nil, fmt.Errorf("reference generation of %s failed: %s", p.ID, res.Stderr)
	}
	c, err := os.ReadFile(filepath.Join(root, p.ID, "app", "wire_gen.go"))
	if err != nil {
		return nil, err
	}
	rc.mu.Lock()
	rc.m[k] = c
	rc.mu.Unlock()
	return c, nil
}

type cliPkg struct {
	P     *Program
	Class byte   // 'S', 'F', 'N'
	Prior string // absent identical stale garbage dirsquat
	// OddFileName: the injector file is renamed to a name with a byte order mark in it (the go
	// tool accepts it; wire copies the name into a comment of the generated file)
	OddFileName bool
}

type cliScenario struct {
	ID   string
	Pkgs []cliPkg
	Opts cliOpts
	Form string // "gen ./..." | "wire" (default command in one package dir) | "wire ./..."
}

func (s cliScenario) sig(cmd string) string {
	var cl, pr []string
	for _, p := range s.Pkgs {
		cl = append(cl, string(p.Class))
		pr = append(pr, string(p.Class)+":"+p.Prior)
	}
	sort.Strings(cl)
	sort.Strings(pr)
	return fmt.Sprintf("%s;classes=%s;priors=%s;opts=%s;form=%s", cmd, strings.Join(cl, ""), strings.Join(pr, ","), s.Opts.key(), s.Form)
}

func genScenario(e *Env, i int) cliScenario {
	r := Rng(e.Seed, "c17", i)
	s := cliScenario{ID: fmt.Sprintf("sc%03d", i)}
	k := 2 + r.Intn(5)
	mixes := []string{"S", "SF", "SN", "F", "N", "SFN", "SSF", "SSS", "FF", "SFNSF"}
	mix := mixes[i%len(mixes)]
	usedS, usedF, usedN := 0, 0, 0
	for j := 0; j < k; j++ {
		cl := mix[j%len(mix)]
		var cp cliPkg
		switch cl {
		case 'S':
			cp = cliPkg{P: cliS((i + usedS) % 6), Class: 'S'}
			usedS++
			if usedS > 6 {
				continue
			}
			cp.Prior = []string{"absent", "identical", "stale", "garbage", "dirsquat", "longer", "shorter", "crlf", "no-final-newline"}[r.Intn(9)]
		case 'F':
			cp = cliPkg{P: cliF((i + usedF) % 4), Class: 'F'}
			usedF++
			if usedF > 4 {
				continue
			}
			cp.Prior = []string{"absent", "stale", "garbage"}[r.Intn(3)]
		case 'N':
			cp = cliPkg{P: cliN((i + usedN) % 6), Class: 'N'}
			usedN++
			if usedN > 6 {
				continue
			}
			cp.Prior = []string{"absent", "stale", "garbage"}[r.Intn(3)]
		}
		s.Pkgs = append(s.Pkgs, cp)
	}
	switch i % 7 {
	case 1:
		s.Opts.Header = "ok"
	case 2:
		s.Opts.Header = []string{"missing", "notgo", "opencomment", "gobuild", "dir"}[(i/7)%5]
	case 3:
		s.Opts.Prefix = "gen_"
	case 4:
		s.Opts.Tags = "extra"
	case 5:
		s.Opts = cliOpts{Header: "ok", Prefix: "zz_", Tags: "extra"}
	case 6:
		// a prefix that would move the output out of the package's directory
		if (i/7)%2 == 1 {
			s.Opts.Prefix = []string{"../up_", "../../top_", "nested/", "../app/../side_"}[(i/14)%4]
		}
	}
	s.Form = "gen ./..."
	if s.Opts.key() == "||" {
		s.Form = []string{"gen ./...", "wire ./...", "wire", "gen pkgs", "wire pkgs"}[(i/7)%5]
	}
	return s
}

// runCLI executes one command of a scenario on a fresh copy and judges it.
func runCLI(e *Env, rep *Report, rc *refCache, s cliScenario, cmd string, mu *sync.Mutex) {
	root := filepath.Join(e.Scratch, "cli", s.ID+"-"+cmd)
	os.MkdirAll(root, 0o755)
	if os.Getenv("VERIF_KEEP") == "" {
		defer os.RemoveAll(root)
	}
	var progs []*Program
	for _, p := range s.Pkgs {
		progs = append(progs, p.P)
	}
	fail := func(clause, witness string) {
		mu.Lock()
		defer mu.Unlock()
		files := map[string]string{}
		for _, p := range progs {
			for k, v := range p.Files(false) {
				files[k] = v
			}
		}
		rep.Violate(s.ID+"-"+cmd, Issue{Prop: rep.Prop, Clause: clause, Witness: witness, Sig: rep.Prop + ":" + cmd + ":" + clause}, files,
			map[string]string{"scenario.txt": fmt.Sprintf("%+v\ncommand=%s", s, cmd)})
	}
	incon := func(msg string) {
		mu.Lock()
		rep.Incon = append(rep.Incon, s.ID+"-"+cmd+": "+msg)
		mu.Unlock()
	}
	if err := prepareModule(e, root, progs); err != nil {
		incon(err.Error())
		return
	}
	for _, p := range s.Pkgs {
		if p.OddFileName {
			os.Rename(filepath.Join(root, p.P.ID, "app", "wire.go"), filepath.Join(root, p.P.ID, "app", "wi\ufeffre.go"))
		}
	}
	prefix := ""
	if cmd == "gen" {
		prefix = s.Opts.Prefix
	}
	// references and prior contents
	refs := map[string][]byte{}
	for _, p := range s.Pkgs {
		out := filepath.Join(root, p.P.ID, "app", prefix+"wire_gen.go")
		if cmd == "diff" {
			out = filepath.Join(root, p.P.ID, "app", "wire_gen.go")
		}
		if p.Class == 'S' {
			c, err := rc.get(p.P, s.Opts)
			if err != nil {
				if s.Opts.Header == "blockcomment" {
					fail("gen refuses a header whose block comment merely quotes a //go:build line", err.Error())
					return
				}
				incon(err.Error())
				return
			}
			refs[p.P.ID] = c
		}
		switch p.Prior {
		case "identical":
			if p.Class == 'S' {
				c := string(refs[p.P.ID])
				if strings.Contains(s.Opts.Tags, ",") {
					// the reference was generated with the tags separated by spaces
					c = strings.Replace(c, "-tags \""+strings.ReplaceAll(s.Opts.Tags, ",", " ")+"\"", "-tags \""+s.Opts.Tags+"\"", 1)
				}
				os.WriteFile(out, []byte(c), 0o644)
			}
		case "longer":
			// what gen would write, followed by more (an injector that has since been removed)
			if p.Class == 'S' {
				os.WriteFile(out, append(append([]byte(nil), refs[p.P.ID]...), []byte("\n// LeftOver was generated for an injector that is gone.\nfunc LeftOver() int {\n\treturn 1\n}\n")...), 0o644)
			}
		case "crlf":
			// what gen would write, with CRLF line ends
			if p.Class == 'S' {
				os.WriteFile(out, []byte(strings.ReplaceAll(string(refs[p.P.ID]), "\n", "\r\n")), 0o644)
			}
		case "no-final-newline":
			if p.Class == 'S' {
				os.WriteFile(out, []byte(strings.TrimSuffix(string(refs[p.P.ID]), "\n")), 0o644)
			}
		case "shorter":
			// what gen would write, cut off after the last complete declaration but one
			if p.Class == 'S' {
				b := refs[p.P.ID]
				if i := strings.LastIndex(string(b), "\nfunc "); i > 0 {
					b = b[:i+1]
				}
				os.WriteFile(out, b, 0o644)
			}
		case "stale":
			os.WriteFile(out, []byte(stalePrior), 0o644)
		case "garbage":
			os.WriteFile(out, []byte(garbagePrior), 0o644)
		case "dirsquat":
			os.MkdirAll(out, 0o755)
			os.WriteFile(filepath.Join(out, "keep"), []byte("x"), 0o644)
		}
	}
	before := TakeSnapshot(root)
	header := filepath.Join(root, "header.txt")
	var res *CmdResult
	wd := root
	var args []string
	switch {
	case cmd == "gen" && s.Form == "wire":
		// default command inside the first package's directory
		wd = filepath.Join(root, s.Pkgs[0].P.ID, "app")
	case cmd == "gen" && s.Form == "wire ./...":
		// the default command takes gen's options too
		args = append(s.Opts.args("gen", header), "./...")
	case s.Form == "opts cmd ./...":
		// options written BEFORE the command name: honoured like after it, or refused as a usage
		// error that touches nothing - never accepted and dropped
		args = append(append(s.Opts.args("gen", header), cmd), "./...")
	case cmd == "gen" && (s.Form == "gen pkgs" || s.Form == "wire pkgs"):
		// every package named explicitly, in scenario order
		if s.Form == "gen pkgs" {
			args = []string{"gen"}
		}
		for _, p := range s.Pkgs {
			args = append(args, "./"+p.P.ID+"/app")
		}
	default:
		args = append([]string{cmd}, s.Opts.args(cmd, header)...)
		args = append(args, "./...")
	}
	res = e.Wire(wd, nil, args...)
	after := TakeSnapshot(root)
	changed := before.Diff(after)
	if res.TimedOut {
		incon("watchdog")
		return
	}
	if res.Crashed() {
		fail("crash", tail(res.Stderr, 2000))
		return
	}
	if s.Form == "opts cmd ./..." && res.Exit == 2 && len(changed) == 0 {
		mu.Lock()
		rep.Held(s.sig(cmd) + ";refused-as-usage-error")
		rep.Count("options_before_command_refused", 1)
		mu.Unlock()
		return
	}
	pkgs := s.Pkgs
	if cmd == "gen" && s.Form == "wire" {
		pkgs = s.Pkgs[:1]
	}
	anyF, anyWriteFault, anyDiff := false, false, false
	for _, p := range pkgs {
		if p.Class == 'F' {
			anyF = true
		}
		if p.Class == 'S' && p.Prior == "dirsquat" {
			anyWriteFault = true
		}
		if p.Class == 'S' && p.Prior != "identical" {
			anyDiff = true
		}
	}
	obs := fmt.Sprintf("exit=%d changed=%v\nstderr:\n%s", res.Exit, changed, tail(res.Stderr, 1500))
	if os.Getenv("VERIF_DEBUG_C17") != "" && strings.HasPrefix(s.Opts.Header, "gobuild") {
		fmt.Fprintf(os.Stderr, "DEBUG %s %s %+v\n%s\n", s.ID, cmd, s.Opts, obs)
	}
	switch cmd {
	case "gen":
		if strings.HasPrefix(s.Opts.Header, "gobuild") && res.Exit == 0 {
			// wire may also cope with such a header; what it writes must then still be excluded
			// from the wireinject build, or its own next run trips over it
			for _, c := range changed {
				b, _ := os.ReadFile(filepath.Join(root, c[1:]))
				if strings.HasSuffix(c, "wire_gen.go") && !strings.Contains(string(b), "!wireinject") {
					fail("gen with a header that has a //go:build line of its own wrote "+c[1:]+" without the !wireinject constraint", obs+"\n--- file\n"+firstN(string(b), 600))
					return
				}
			}
			break
		}
		if s.Opts.unusable() {
			if res.Exit == 0 {
				fail(fmt.Sprintf("gen with an unusable option (header %q, tags %q) exited 0", s.Opts.Header, s.Opts.Tags), obs)
				return
			}
			if len(changed) > 0 {
				fail(fmt.Sprintf("gen with an unusable option (header %q, tags %q) modified the tree", s.Opts.Header, s.Opts.Tags), obs)
				return
			}
			break
		}
		if strings.ContainsAny(prefix, "/\\") {
			// "<prefix>wire_gen.go in the directory of the package" does not exist for such a
			// prefix: whatever wire does, it must not write anywhere else
			if len(changed) > 0 {
				fail(fmt.Sprintf("gen with a path separator in -output_file_prefix (%q) created or modified %v", prefix, changed), obs)
				return
			}
			break
		}
		if (strings.HasPrefix(prefix, "_") || strings.HasPrefix(prefix, ".")) && res.Exit != 0 {
			// the go tool would ignore such a file: refusing the prefix is fine (writing a file
			// that is then ignored is not, see below)
			if len(changed) > 0 {
				fail(fmt.Sprintf("gen refused -output_file_prefix %q but created or modified %v", prefix, changed), obs)
				return
			}
			break
		}
		wantOK := !anyF && !anyWriteFault
		if (res.Exit == 0) != wantOK {
			fail(fmt.Sprintf("gen exit status %d, want success=%v (failing packages=%v, write fault=%v)", res.Exit, wantOK, anyF, anyWriteFault), obs)
			return
		}
		allowed := map[string]bool{}
		for _, p := range pkgs {
			rel := filepath.Join(p.P.ID, "app", prefix+"wire_gen.go")
			if p.Class == 'S' {
				allowed[rel] = true
				if p.Prior == "dirsquat" {
					continue
				}
				got, err := os.ReadFile(filepath.Join(root, rel))
				if err != nil {
					fail("output of a cleanly analysed package is missing although other packages of the invocation failed or not: "+rel, obs)
					return
				}
				gs, ws := string(got), string(refs[p.P.ID])
				if strings.Contains(s.Opts.Tags, ",") {
					// the reference was generated with the tags separated by spaces
					gs = strings.Replace(gs, "-tags \""+s.Opts.Tags+"\"", "-tags \""+strings.ReplaceAll(s.Opts.Tags, ",", " ")+"\"", 1)
				}
				if gs != ws {
					fail("output of "+rel+" differs from the solo reference generation", obs+"\n--- got\n"+string(got)+"\n--- want\n"+string(refs[p.P.ID]))
					return
				}
			}
		}
		for _, c := range changed {
			if !allowed[c[1:]] {
				fail("gen created or modified a file other than the outputs of cleanly analysed packages: "+c, obs)
				return
			}
		}
		if prefix != "" && res.Exit == 0 {
			// the file has to be one the go tool compiles: it must be among the package's Go files
			for _, p := range pkgs {
				if p.Class != 'S' || p.Prior == "dirsquat" {
					continue
				}
				// a stale or garbage wire_gen.go from before is the scenario's, not wire's
				os.Remove(filepath.Join(root, p.P.ID, "app", "wire_gen.go"))
				lr := e.Run(root, e.GoEnv(), 300*time.Second, "go", "list", "-f", "{{join .GoFiles \" \"}}", "./"+p.P.ID+"/app")
				if lr.TimedOut || lr.Exit != 0 {
					continue
				}
				listed := false
				for _, f := range strings.Fields(lr.Stdout) {
					if f == prefix+"wire_gen.go" {
						listed = true
					}
				}
				if !listed {
					fail(fmt.Sprintf("gen -output_file_prefix %q reported success, but the go tool does not count %swire_gen.go among the files of the package (its injectors stay unimplemented)", prefix, prefix), obs+"\n--- go list GoFiles\n"+lr.Stdout)
					return
				}
			}
		}
	case "diff":
		if len(changed) > 0 {
			fail("diff modified the tree", obs)
			return
		}
		want := 0
		switch {
		case s.Opts.unusable():
			want = 2
		case anyF:
			want = 2
		case anyWriteFault:
			// something that is not a file sits where the output belongs: the comparison
			// cannot be made
			want = 2
		case anyDiff:
			want = 1
		}
		if strings.HasPrefix(s.Opts.Header, "gobuild") && res.Exit == 2 {
			// refusing such a header is one of the two correct ways to treat it
			break
		}
		if strings.HasPrefix(s.Opts.Header, "gobuild") {
			// ... coping with it is the other: then diff compares as usual
			want = 0
			if anyF {
				want = 2
			} else if anyDiff {
				want = 1
			}
		}
		if res.Exit != want {
			fail(fmt.Sprintf("diff exit status %d, want %d (unusable option=%v, failing package=%v, differing/absent output=%v)", res.Exit, want, s.Opts.unusable(), anyF, anyDiff), obs)
			return
		}
	case "check", "show":
		if len(changed) > 0 {
			fail(cmd+" modified the tree", obs)
			return
		}
		if (res.Exit == 0) == anyF {
			fail(fmt.Sprintf("%s exit status %d with failing packages=%v", cmd, res.Exit, anyF), obs)
			return
		}
	}
	mu.Lock()
	rep.Held(s.sig(cmd))
	rep.Count("invocations_"+cmd, 1)
	if len(rep.Samples) < 4 {
		rep.Sample(map[string]interface{}{"scenario": s.sig(cmd), "exit": res.Exit, "changed_paths": changed})
	}
	mu.Unlock()
}

// CheckC17 — command-line contract.
func CheckC17(e *Env) int {
	t0 := time.Now()
	rep := NewReport(e, "C17", "exploration", "invocation scenarios: 2..6 packages mixing S (analyses cleanly, has injectors; reference content from a solo run in a pristine copy), F (analysis fails: missing, conflict, unused, one bad injector among good ones) and N (no injectors) x prior output {absent, identical, stale, garbage with the constraint, directory squatting on the name = write fault} x options {none, -header_file ok/unreadable, -output_file_prefix, -tags, default-command forms} x command {gen, diff, check, show}; oracle: a sequential reference model of one invocation over exit status and a path/mode/SHA-256 snapshot of the whole module tree before and after; distinct = (command, class mix, priors, options, form)")
	n := e.tierN(40, 300)
	rc := &refCache{m: map[string][]byte{}, e: e}
	var mu sync.Mutex
	type job struct {
		s   cliScenario
		cmd string
	}
	var jobs []job
	for i := 0; i < n; i++ {
		s := genScenario(e, i)
		for _, cmd := range []string{"gen", "diff", "check", "show"} {
			if cmd != "gen" && s.Form != "gen ./..." {
				continue
			}
			jobs = append(jobs, job{s, cmd})
		}
	}
	// every unusable header kind and every out-of-directory prefix once with a package that
	// would otherwise be written
	k := 0
	for _, hk := range []string{"missing", "dir", "notgo", "opencomment", "gobuild", "gobuildtab", "gobuildindent", "gobuildplus", "gobuildplusafter"} {
		s := genScenario(e, 7*k+2)
		k++
		s.ID = fmt.Sprintf("sh%02d", k)
		s.Opts = cliOpts{Header: hk}
		s.Form = "gen ./..."
		s.Pkgs = append(s.Pkgs[:1:1], cliPkg{P: cliS(k % 6), Class: 'S', Prior: []string{"stale", "absent", "identical"}[k%3]})
		for _, cmd := range []string{"gen", "diff"} {
			jobs = append(jobs, job{s, cmd})
		}
	}
	for _, o := range []cliOpts{{Tags: "extra,more"}, {Tags: "extra more"}, {Header: "blockcomment"},
		{Tags: "a\nvar"}, {Tags: "a\n//go:build foo\n//"}, {Header: "ok", Tags: "x\ry"}, {Prefix: "_"}, {Prefix: "."}, {Prefix: "_gen."}} {
		s := genScenario(e, 7*k+2)
		k++
		s.ID = fmt.Sprintf("sh%02d", k)
		s.Opts = o
		s.Form = "gen ./..."
		s.Pkgs = []cliPkg{{P: cliS(k % 6), Class: 'S', Prior: []string{"stale", "absent", "identical"}[k%3]}, {P: cliS((k + 1) % 6), Class: 'S', Prior: "identical"}}
		for _, cmd := range []string{"gen", "diff"} {
			if cmd == "diff" && o.Prefix != "" {
				continue
			}
			jobs = append(jobs, job{s, cmd})
		}
	}
	for _, o := range []cliOpts{{Tags: "extra"}, {Prefix: "gen_"}, {Header: "ok", Prefix: "zz_", Tags: "extra"}} {
		// the default command (no "gen") with options
		s := genScenario(e, 7*k+2)
		k++
		s.ID = fmt.Sprintf("sh%02d", k)
		s.Opts = o
		s.Form = "wire ./..."
		s.Pkgs = []cliPkg{{P: cliS(k % 6), Class: 'S', Prior: []string{"stale", "absent", "identical"}[k%3]}, {P: cliN(k % 2), Class: 'N', Prior: "absent"}}
		jobs = append(jobs, job{s, "gen"})
	}
	for _, o := range []cliOpts{{Prefix: "gen_"}, {Header: "ok"}, {Header: "missing"}, {Tags: "extra"}} {
		for _, cmd := range []string{"gen", "diff"} {
			if cmd == "diff" && o.Prefix != "" {
				continue
			}
			s := genScenario(e, 7*k+3)
			k++
			s.ID = fmt.Sprintf("sh%02d", k)
			s.Opts = o
			s.Form = "opts cmd ./..."
			s.Pkgs = []cliPkg{{P: cliS(k % 6), Class: 'S', Prior: []string{"stale", "absent", "identical"}[k%3]}, {P: cliN(k % 2), Class: 'N', Prior: "absent"}}
			jobs = append(jobs, job{s, cmd})
		}
	}
	{
		// a package that analyses cleanly but whose generated text cannot be formatted (a byte
		// order mark in the injector's file name ends up in a comment): it counts as failing,
		// and what it had before stays
		s := genScenario(e, 2)
		k++
		s.ID = fmt.Sprintf("sh%02d", k)
		s.Opts = cliOpts{}
		s.Form = "gen ./..."
		odd := cliS(3).Clone()
		odd.ID = "oddname"
		s.Pkgs = []cliPkg{{P: cliS(1), Class: 'S', Prior: "stale"}, {P: odd, Class: 'F', Prior: "stale", OddFileName: true}}
		for _, cmd := range []string{"gen", "diff"} {
			jobs = append(jobs, job{s, cmd})
		}
	}
	e.ParallelDo(len(jobs), func(i int) {
		runCLI(e, rep, rc, jobs[i].s, jobs[i].cmd, &mu)
	})
	runBadPatterns(e, rep, &mu)
	return rep.Finish(t0)
}

// runBadPatterns: patterns that name no loadable package (a directory that does not exist, a
// package whose only file is excluded by a build constraint), alone and next to a good package:
// every command must fail (diff with status 2) and leave the tree alone; gen may at most write
// the good package's output.
func runBadPatterns(e *Env, rep *Report, mu *sync.Mutex) {
	type bp struct {
		kind, cmd string
		withGood  bool
	}
	var cases []bp
	for _, kind := range []string{"missing-directory", "all-files-excluded"} {
		for _, cmd := range []string{"gen", "diff", "check", "show"} {
			for _, wg := range []bool{false, true} {
				cases = append(cases, bp{kind, cmd, wg})
			}
		}
	}
	e.ParallelDo(len(cases), func(i int) {
		c := cases[i]
		id := fmt.Sprintf("bp%02d", i)
		root := filepath.Join(e.Scratch, "cli", id)
		os.MkdirAll(root, 0o755)
		defer os.RemoveAll(root)
		good := cliS(0)
		if err := prepareModule(e, root, []*Program{good}); err != nil {
			mu.Lock()
			rep.Incon = append(rep.Incon, id+": "+err.Error())
			mu.Unlock()
			return
		}
		bad := "./nosuch"
		if c.kind == "all-files-excluded" {
			os.MkdirAll(filepath.Join(root, "excluded"), 0o755)
			os.WriteFile(filepath.Join(root, "excluded", "x.go"), []byte("//go:build neverset_tag\n// +build neverset_tag\n\npackage excluded\n"), 0o644)
			bad = "./excluded"
		}
		args := []string{c.cmd}
		if c.withGood {
			args = append(args, "./"+good.ID+"/app")
		}
		args = append(args, bad)
		before := TakeSnapshot(root)
		res := e.Wire(root, nil, args...)
		changed := before.Diff(TakeSnapshot(root))
		obs := fmt.Sprintf("wire %v\nexit=%d changed=%v\nstderr:\n%s", args, res.Exit, changed, tail(res.Stderr, 1200))
		fail := func(clause string) {
			mu.Lock()
			defer mu.Unlock()
			rep.Violate(id, Issue{Prop: "C17", Clause: clause, Witness: obs, Sig: "C17:bad-pattern:" + c.cmd + ":" + c.kind}, good.Files(false), map[string]string{"scenario.txt": fmt.Sprintf("%+v", c)})
		}
		switch {
		case res.TimedOut:
			mu.Lock()
			rep.Incon = append(rep.Incon, id+": watchdog")
			mu.Unlock()
			return
		case res.Crashed():
			fail("crash")
			return
		case c.cmd == "diff" && res.Exit != 2:
			fail(fmt.Sprintf("diff over a pattern that names no loadable package exits %d, want 2", res.Exit))
			return
		case res.Exit == 0:
			fail(c.cmd + " over a pattern that names no loadable package exits 0")
			return
		}
		for _, ch := range changed {
			if c.cmd == "gen" && c.withGood && ch[1:] == filepath.Join(good.ID, "app", "wire_gen.go") {
				continue
			}
			fail(c.cmd + " with an unloadable pattern touched " + ch)
			return
		}
		mu.Lock()
		rep.Held(fmt.Sprintf("bad-pattern;%s;%s;with-good=%v", c.cmd, c.kind, c.withGood))
		rep.Count("invocations_bad_pattern", 1)
		mu.Unlock()
	})
}
