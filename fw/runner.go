package fw

import (
	"bytes"
	"context"
	"crypto/sha256"
	"encoding/hex"
	"fmt"
	"io/fs"
	"os"
	"os/exec"
	"path/filepath"
	"regexp"
	"sort"
	"strings"
	"sync"
	"syscall"
	"time"
)

// Env is the environment of one check run.
type Env struct {
	Repo         string // /repo
	Verif        string // /verif
	Scratch      string // removed at end
	WireBin      string // hooked build (or plain if hooks failed)
	Hooked       bool
	RaceBin      string
	TrSrc        []byte
	GoCache      string
	Seed         int64
	Tier         string
	Parallel     int
	mu           sync.Mutex
	Inconclusive []string
	WireRuns     int
}

func (e *Env) noteInconclusive(s string) {
	e.mu.Lock()
	e.Inconclusive = append(e.Inconclusive, s)
	e.mu.Unlock()
}

// GoEnv returns the environment for go / wire subprocesses in module mode.
func (e *Env) GoEnv(extra ...string) []string {
	env := []string{
		"PATH=" + os.Getenv("PATH"),
		"HOME=" + os.Getenv("HOME"),
		"GOFLAGS=-mod=mod",
		"GOPROXY=off",
		"GOSUMDB=off",
		"GOTOOLCHAIN=local",
		"GOCACHE=" + e.GoCache,
		"GOMODCACHE=" + goModCache(),
		"GO111MODULE=on",
		"TMPDIR=" + filepath.Join(e.Scratch, "tmp"),
	}
	return append(env, extra...)
}

var modCacheOnce sync.Once
var modCache string

func goModCache() string {
	modCacheOnce.Do(func() {
		out, err := exec.Command("go", "env", "GOMODCACHE").Output()
		if err == nil {
			modCache = strings.TrimSpace(string(out))
		}
		if modCache == "" {
			modCache = filepath.Join(os.Getenv("HOME"), "go", "pkg", "mod")
		}
	})
	return modCache
}

// NewEnv prepares scratch space and builds wire from the current tree.
func NewEnv(repo, verif, tier string, seed int64) (*Env, error) {
	base := os.Getenv("VERIF_SCRATCH")
	if base == "" {
		base = os.TempDir()
	}
	scratch, err := os.MkdirTemp(base, "verif-")
	if err != nil {
		return nil, err
	}
	e := &Env{Repo: repo, Verif: verif, Scratch: scratch, Seed: seed, Tier: tier, Parallel: 14}
	os.MkdirAll(filepath.Join(scratch, "tmp"), 0o755)
	e.GoCache = filepath.Join(verif, ".cache", "gocache")
	trimGoCache(filepath.Join(verif, ".cache"))
	os.MkdirAll(e.GoCache, 0o755)
	e.TrSrc, err = os.ReadFile(filepath.Join(verif, "assets", "tr", "tr.go"))
	if err != nil {
		return nil, err
	}
	if err := e.buildWire(); err != nil {
		return nil, err
	}
	return e, nil
}

// trimGoCache keeps the build cache of the generated programs from filling the disk (every
// run compiles thousands of packages nobody will compile again; go itself only drops entries
// after days): every 30th run that finds no other run active starts with an empty cache.
func trimGoCache(cacheDir string) {
	active := filepath.Join(cacheDir, "active")
	os.MkdirAll(active, 0o755)
	me := filepath.Join(active, fmt.Sprint(os.Getpid()))
	os.WriteFile(me, nil, 0o644)
	others := false
	if ents, err := os.ReadDir(active); err == nil {
		for _, en := range ents {
			if en.Name() == fmt.Sprint(os.Getpid()) {
				continue
			}
			if _, err := os.Stat("/proc/" + en.Name()); err == nil {
				others = true
			} else {
				os.Remove(filepath.Join(active, en.Name()))
			}
		}
	}
	countFile := filepath.Join(cacheDir, "runs.count")
	n := 0
	if b, err := os.ReadFile(countFile); err == nil {
		fmt.Sscan(string(b), &n)
	}
	n++
	if n >= 30 && !others {
		if fi, err := os.Lstat(filepath.Join(cacheDir, "gocache")); err == nil && fi.Mode()&os.ModeSymlink == 0 {
			os.RemoveAll(filepath.Join(cacheDir, "gocache"))
		}
		n = 0
	}
	os.WriteFile(countFile, []byte(fmt.Sprint(n)), 0o644)
}

func (e *Env) Close() {
	os.Remove(filepath.Join(e.Verif, ".cache", "active", fmt.Sprint(os.Getpid())))
	if os.Getenv("VERIF_KEEP") != "" {
		fmt.Println("KEEP scratch:", e.Scratch)
		return
	}
	os.RemoveAll(e.Scratch)
}

func (e *Env) buildWire() error {
	e.WireBin = filepath.Join(e.Scratch, "bin", "wire")
	os.MkdirAll(filepath.Dir(e.WireBin), 0o755)
	run := func(args ...string) ([]byte, error) {
		cmd := exec.Command("go", args...)
		cmd.Dir = e.Repo
		cmd.Env = e.GoEnv()
		return cmd.CombinedOutput()
	}
	out, err := run("build", "-tags", "verif", "-o", e.WireBin, "./cmd/wire")
	if err == nil {
		e.Hooked = true
		return nil
	}
	out2, err2 := run("build", "-o", e.WireBin, "./cmd/wire")
	if err2 != nil {
		return fmt.Errorf("cannot build wire: %v\n%s\n%s", err2, out, out2)
	}
	e.Hooked = false
	e.noteInconclusive("hooked build failed; hook-dependent verdicts are inconclusive: " + firstLine(string(out)))
	return nil
}

// BuildRace builds a -race wire binary (thorough tiers).
func (e *Env) BuildRace() error {
	if e.RaceBin != "" {
		return nil
	}
	bin := filepath.Join(e.Scratch, "bin", "wire-race")
	cmd := exec.Command("go", "build", "-race", "-tags", "verif", "-o", bin, "./cmd/wire")
	cmd.Dir = e.Repo
	cmd.Env = e.GoEnv("CGO_ENABLED=1")
	out, err := cmd.CombinedOutput()
	if err != nil {
		return fmt.Errorf("race build: %v: %s", err, out)
	}
	e.RaceBin = bin
	return nil
}

func firstLine(s string) string {
	if i := strings.IndexByte(s, '\n'); i >= 0 {
		return s[:i]
	}
	return s
}

// CmdResult is the observation of one subprocess.
type CmdResult struct {
	Args     []string
	Dir      string
	Exit     int
	Stdout   string
	Stderr   string
	TimedOut bool
	Dur      time.Duration
	Signal   string // name of the signal that ended the process, if one did
}

// wireCPUCapSeconds: CPU time one wire process may use.
const wireCPUCapSeconds = 240

// Crashed reports whether the process died from a Go panic / fatal error.
func (r *CmdResult) Crashed() bool {
	if r.TimedOut {
		return false
	}
	if strings.Contains(r.Stderr, "VERIF-STEP-CAP") {
		return false
	}
	return strings.Contains(r.Stderr, "panic: ") || strings.Contains(r.Stderr, "fatal error: ") || strings.Contains(r.Stderr, "goroutine 1 [running]") || r.Exit < 0
}

// Run executes a command with a generous watchdog.
func (e *Env) Run(dir string, env []string, timeout time.Duration, name string, args ...string) *CmdResult {
	ctx, cancel := context.WithTimeout(context.Background(), timeout)
	defer cancel()
	cmd := exec.CommandContext(ctx, name, args...)
	cmd.Dir = dir
	cmd.Env = env
	var so, se bytes.Buffer
	cmd.Stdout = &so
	cmd.Stderr = &se
	t0 := time.Now()
	err := cmd.Run()
	res := &CmdResult{Args: append([]string{name}, args...), Dir: dir, Stdout: so.String(), Stderr: se.String(), Dur: time.Since(t0)}
	if ctx.Err() == context.DeadlineExceeded {
		res.TimedOut = true
		res.Exit = -2
		return res
	}
	if err != nil {
		if ee, ok := err.(*exec.ExitError); ok {
			res.Exit = ee.ExitCode()
			if ws, ok := ee.Sys().(syscall.WaitStatus); ok && ws.Signaled() {
				res.Signal = ws.Signal().String()
			}
		} else {
			res.Exit = -3
			res.Stderr += "\nexec error: " + err.Error()
		}
	}
	return res
}

// Wire runs the wire binary.
func (e *Env) Wire(dir string, extraEnv []string, args ...string) *CmdResult {
	e.mu.Lock()
	e.WireRuns++
	e.mu.Unlock()
	// a generous step budget on the hooked loops (50 times what C07 allows) turns a planner
	// that never terminates into a prompt, deterministic exit instead of a watchdog timeout
	capSet := false
	for _, kv := range extraEnv {
		if strings.HasPrefix(kv, "VERIF_STEP_CAP=") {
			capSet = true
		}
	}
	if !capSet {
		extraEnv = append(append([]string(nil), extraEnv...), "VERIF_STEP_CAP=20000")
	}
	env := e.GoEnv(extraEnv...)
	// ... and a cap on the CPU time of the wire process itself (its virtual time, independent of
	// machine load; explored inputs take well under a tenth of it) does the same for loops no
	// hook sits in. The wall-clock watchdog stays a separate, inconclusive matter.
	// (and 16 GB of address space: a planner that recurses without end dies of "out of memory"
	// in its own process instead of taking the machine with it)
	sh := fmt.Sprintf("ulimit -t %d; ulimit -v 16777216; exec \"$0\" \"$@\"", wireCPUCapSeconds)
	res := e.Run(dir, env, 600*time.Second, "/bin/sh", append([]string{"-c", sh, e.WireBin}, args...)...)
	if res.Signal == "killed" || res.Signal == "CPU time limit exceeded" || res.Exit == 128+int(syscall.SIGXCPU) || res.Exit == 128+int(syscall.SIGKILL) {
		if !res.TimedOut {
			res.Stderr += fmt.Sprintf("\nVERIF-STEP-CAP site=cpu-seconds n=0 steps=%d (the wire process used its whole CPU-time budget without terminating)\n", wireCPUCapSeconds)
			res.Exit = 96
		}
	}
	return res
}

// ---------------------------------------------------------------------------
// wire stderr parsing

// Diag is one diagnostic record from wire's stderr.
type Diag struct {
	Text string // full text including continuation lines
	Pos  string // "file:line:col" if present
	File string
}

var posRe = regexp.MustCompile(`^wire: (/[^:\n]+\.go):(\d+):(\d+): `)

// ParseDiags splits wire's stderr into records.
func ParseDiags(stderr string) []Diag {
	var ds []Diag
	for _, line := range strings.Split(stderr, "\n") {
		if strings.HasPrefix(line, "wire: ") {
			d := Diag{Text: line}
			if m := posRe.FindStringSubmatch(line); m != nil {
				d.File = m[1]
				d.Pos = m[1] + ":" + m[2] + ":" + m[3]
			}
			ds = append(ds, d)
		} else if len(ds) > 0 && (strings.HasPrefix(line, "\t") || strings.HasPrefix(line, " ")) {
			ds[len(ds)-1].Text += "\n" + line
		} else if strings.HasPrefix(line, "Warning: ") {
			continue
		} else if line != "" && len(ds) > 0 {
			ds[len(ds)-1].Text += "\n" + line
		}
	}
	return ds
}

// PkgOutcome is what wire said about one package in a gen invocation.
type PkgOutcome struct {
	Wrote  bool
	Failed bool
	Diags  []Diag
}

var wroteRe = regexp.MustCompile(`^wire: (\S+): wrote (.+)$`)
var failedRe = regexp.MustCompile(`^wire: (\S+): generate failed$`)

// GenOutcomes attributes a gen run's stderr to packages: by import path for the
// wrote/failed lines, by directory for positioned diagnostics.
func GenOutcomes(res *CmdResult, dirOf map[string]string) map[string]*PkgOutcome {
	out := map[string]*PkgOutcome{}
	get := func(p string) *PkgOutcome {
		if out[p] == nil {
			out[p] = &PkgOutcome{}
		}
		return out[p]
	}
	// longest-dir-first matching for diagnostics
	type pd struct{ pkg, dir string }
	var pds []pd
	for p, d := range dirOf {
		pds = append(pds, pd{p, d})
	}
	sort.Slice(pds, func(i, j int) bool { return len(pds[i].dir) > len(pds[j].dir) })
	var pending []Diag
	for _, d := range ParseDiags(res.Stderr) {
		if m := wroteRe.FindStringSubmatch(d.Text); m != nil {
			get(m[1]).Wrote = true
			continue
		}
		if m := failedRe.FindStringSubmatch(d.Text); m != nil {
			get(m[1]).Failed = true
			// wire prints a package's errors, then this line: the unpositioned ones since the
			// previous package line belong to this package
			get(m[1]).Diags = append(get(m[1]).Diags, pending...)
			pending = nil
			continue
		}
		if d.File != "" {
			for _, x := range pds {
				if filepath.Dir(d.File) == x.dir {
					get(x.pkg).Diags = append(get(x.pkg).Diags, d)
					break
				}
			}
			continue
		}
		// unpositioned diagnostics: attributed at the package's "generate failed" line
		pending = append(pending, d)
	}
	// whatever no package line claimed stays under ""
	if len(pending) > 0 {
		get("").Diags = append(get("").Diags, pending...)
	}
	return out
}

// ---------------------------------------------------------------------------
// tree snapshots

// Snapshot maps relative path -> "mode:sha256" (dirs: "dir").
type Snapshot map[string]string

func TakeSnapshot(root string) Snapshot {
	s := Snapshot{}
	filepath.WalkDir(root, func(path string, d fs.DirEntry, err error) error {
		if err != nil {
			return nil
		}
		rel, _ := filepath.Rel(root, path)
		if d.IsDir() {
			s[rel] = "dir"
			return nil
		}
		info, err := d.Info()
		if err != nil {
			return nil
		}
		b, err := os.ReadFile(path)
		if err != nil {
			s[rel] = fmt.Sprintf("%v:unreadable", info.Mode())
			return nil
		}
		h := sha256.Sum256(b)
		s[rel] = fmt.Sprintf("%v:%s", info.Mode(), hex.EncodeToString(h[:8]))
		return nil
	})
	return s
}

// Diff returns paths created, removed or changed between a and b.
func (a Snapshot) Diff(b Snapshot) []string {
	var r []string
	for k, v := range a {
		if w, ok := b[k]; !ok {
			r = append(r, "-"+k)
		} else if w != v {
			r = append(r, "~"+k)
		}
	}
	for k := range b {
		if _, ok := a[k]; !ok {
			r = append(r, "+"+k)
		}
	}
	sort.Strings(r)
	return r
}

// ---------------------------------------------------------------------------
// Batches

// Batch is a module holding many programs, served by one wire invocation.
type Batch struct {
	E             *Env
	Root          string
	Progs         []*Program
	Driver        map[string]bool // program id -> render driver
	GenRes        *CmdResult
	Out           map[string]*PkgOutcome // by import path
	PreBad        map[string]string      // program id -> typecheck error (harness problem)
	BuildBad      map[string]string      // import path -> build error under default tags
	Trace         []Event
	TraceErr      string
	CheckRes      *CmdResult
	CheckOut      map[string]*PkgOutcome
	Before, After Snapshot
}

// NewBatch renders programs into a fresh module.
func (e *Env) NewBatch(name string, progs []*Program, driver func(*Program) bool) (*Batch, error) {
	root := filepath.Join(e.Scratch, "b", name)
	if err := os.MkdirAll(root, 0o755); err != nil {
		return nil, err
	}
	b := &Batch{E: e, Root: root, Progs: progs, Driver: map[string]bool{}, PreBad: map[string]string{}, BuildBad: map[string]string{}}
	if err := WriteModule(root, e.Repo, e.TrSrc); err != nil {
		return nil, err
	}
	for _, p := range progs {
		wd := driver != nil && driver(p)
		b.Driver[p.ID] = wd || p.RawDriver
		if err := WriteFiles(root, p.Files(wd)); err != nil {
			return nil, err
		}
	}
	return b, nil
}

func (b *Batch) Remove() { os.RemoveAll(b.Root) }

// DirOf maps import path -> absolute dir for every package of every program.
func (b *Batch) DirOf() map[string]string {
	m := map[string]string{}
	for _, p := range b.Progs {
		for i := range p.Pkgs {
			m[p.ImportPath(i)] = filepath.Join(b.Root, p.ID, p.Pkgs[i].Dir)
		}
	}
	return m
}

var pkgHdrRe = regexp.MustCompile(`(?m)^# (\S+)`)

// failingPkgs extracts "# pkg" headers from go build output.
func failingPkgs(out string) map[string]string {
	m := map[string]string{}
	idx := pkgHdrRe.FindAllStringSubmatchIndex(out, -1)
	for i, loc := range idx {
		pkg := out[loc[2]:loc[3]]
		end := len(out)
		if i+1 < len(idx) {
			end = idx[i+1][0]
		}
		m[pkg] = strings.TrimSpace(out[loc[0]:end])
	}
	// load errors have no "# pkg" header:
	//   package a/b
	//   	imports c/internal/d: use of internal package c/internal/d not allowed
	for _, loc := range pkgLoadErrRe.FindAllStringSubmatchIndex(out, -1) {
		pkg := out[loc[2]:loc[3]]
		if _, ok := m[pkg]; !ok {
			m[pkg] = strings.TrimSpace(out[loc[0]:loc[1]])
		}
	}
	// an import that resolves to nothing is reported against the importing file only:
	//   a0010/app/wire_gen.go:10:2: package libb is not in std (...)
	for _, sm := range fileLoadErrRe.FindAllStringSubmatch(out, -1) {
		pkg := ModulePath + "/" + sm[1]
		if _, ok := m[pkg]; !ok {
			m[pkg] = strings.TrimSpace(sm[0])
		}
	}
	return m
}

var fileLoadErrRe = regexp.MustCompile(`(?m)^([^\s:]+)/[^/\s:]+\.go:\d+:\d+: (?:package \S+ is not in std|no required module provides package|cannot find package|cannot find module providing package)[^\n]*$`)

var pkgLoadErrRe = regexp.MustCompile(`(?m)^package (\S+)\n((?:\t[^\n]*\n?)+)`)

// Precheck type-checks all programs under -tags wireinject; programs that fail
// are harness problems: they are removed from the batch (directory deleted).
func (b *Batch) Precheck() {
	res := b.E.Run(b.Root, b.E.GoEnv(), 300*time.Second, "go", "build", "-tags", "wireinject", "./...")
	if res.Exit == 0 {
		return
	}
	bad := failingPkgs(res.Stdout + res.Stderr)
	var keep []*Program
	for _, p := range b.Progs {
		msg := ""
		for i := range p.Pkgs {
			if m, ok := bad[p.ImportPath(i)]; ok {
				msg = m
				break
			}
		}
		if msg == "" && len(bad) == 0 {
			msg = "go build -tags wireinject failed: " + firstLine(res.Stderr)
		}
		if msg != "" {
			b.PreBad[p.ID] = msg
			os.RemoveAll(filepath.Join(b.Root, p.ID))
			continue
		}
		keep = append(keep, p)
	}
	b.Progs = keep
}

// Gen runs `wire gen ./...` at the module root.
func (b *Batch) Gen(extraEnv ...string) {
	b.GenRes = b.E.Wire(b.Root, extraEnv, "gen", "./...")
	b.Out = GenOutcomes(b.GenRes, b.DirOf())
}

// Check runs `wire check ./...` at the module root.
func (b *Batch) Check(extraEnv ...string) {
	b.CheckRes = b.E.Wire(b.Root, extraEnv, "check", "./...")
	b.CheckOut = GenOutcomes(b.CheckRes, b.DirOf())
}

// GenFile returns the generated file of program p's injector package ("" if absent).
func (b *Batch) GenFile(p *Program) string {
	bs, err := os.ReadFile(filepath.Join(b.Root, p.ID, p.Pkgs[0].Dir, "wire_gen.go"))
	if err != nil {
		return ""
	}
	return string(bs)
}

// BuildAndRun compiles every package under default tags, links a driver over the
// packages that built and have a driver, runs it and loads the trace.
func (b *Batch) BuildAndRun() {
	res := b.E.Run(b.Root, b.E.GoEnv(), 600*time.Second, "go", "build", "./...")
	if res.Exit != 0 {
		b.BuildBad = failingPkgs(res.Stdout + res.Stderr)
		if len(b.BuildBad) == 0 {
			b.TraceErr = "go build failed without package headers: " + res.Stderr
			return
		}
	}
	bin := filepath.Join(b.Root, "drv.bin")
	for attempt := 0; ; attempt++ {
		var mainSrc strings.Builder
		mainSrc.WriteString("package main\n\nimport (\n\ttr \"" + ModulePath + "/tr\"\n")
		var calls []string
		n := 0
		for _, p := range b.Progs {
			if !b.Driver[p.ID] {
				continue
			}
			ip := p.ImportPath(0)
			if _, bad := b.BuildBad[ip]; bad {
				continue
			}
			if _, err := os.Stat(filepath.Join(b.Root, p.ID, p.Pkgs[0].Dir, "wire_gen.go")); err != nil {
				continue
			}
			// a dependency package that failed to build also excludes the program
			depBad := false
			for i := range p.Pkgs {
				if _, bad := b.BuildBad[p.ImportPath(i)]; bad {
					depBad = true
				}
			}
			if depBad {
				continue
			}
			n++
			fmt.Fprintf(&mainSrc, "\tq%d %q\n", n, ip)
			calls = append(calls, fmt.Sprintf("q%d.Scenarios", n))
		}
		if n == 0 {
			return
		}
		mainSrc.WriteString(")\n\nfunc main() {\n\ttr.Main(\n")
		for _, c := range calls {
			mainSrc.WriteString("\t\t" + c + ",\n")
		}
		mainSrc.WriteString("\t)\n}\n")
		drvDir := filepath.Join(b.Root, "cmd", "drv")
		os.MkdirAll(drvDir, 0o755)
		os.WriteFile(filepath.Join(drvDir, "main.go"), []byte(mainSrc.String()), 0o644)
		res = b.E.Run(b.Root, b.E.GoEnv(), 600*time.Second, "go", "build", "-o", bin, "./cmd/drv")
		if res.Exit != 0 {
			// go build stops at the first package whose imports do not resolve: every failing
			// package is found by excluding the ones known so far and linking again
			more := failingPkgs(res.Stdout + res.Stderr)
			grew := false
			for k, v := range more {
				if _, ok := b.BuildBad[k]; !ok {
					if b.BuildBad == nil {
						b.BuildBad = map[string]string{}
					}
					b.BuildBad[k] = v
					grew = true
				}
			}
			if grew && attempt < 200 {
				continue
			}
			b.TraceErr = "driver link failed: " + res.Stderr
			return
		}
		break
	}
	tracePath := filepath.Join(b.Root, "trace.jsonl")
	res = b.E.Run(b.Root, append(b.E.GoEnv(), "VERIF_TRACE="+tracePath), 300*time.Second, bin)
	if res.Exit != 0 {
		b.TraceErr = fmt.Sprintf("driver exit %d: %s", res.Exit, tail(res.Stderr, 2000))
	}
	evs, err := LoadTrace(tracePath)
	if err != nil && b.TraceErr == "" {
		b.TraceErr = err.Error()
	}
	b.Trace = evs
	os.Remove(bin)
}

func tail(s string, n int) string {
	if len(s) <= n {
		return s
	}
	return s[len(s)-n:]
}

// SaveReplay copies a program's rendered files and observations to the replay dir.
func (e *Env) SaveReplay(prop, caseName string, files map[string]string, notes map[string]string) string {
	dir := filepath.Join(e.Verif, "replays", prop, caseName)
	os.RemoveAll(dir)
	os.MkdirAll(dir, 0o755)
	// keep the bundles out of the framework's own package tree
	os.WriteFile(filepath.Join(e.Verif, "replays", "go.mod"), []byte("module replays\n\ngo 1.21\n"), 0o644)
	for rel, c := range files {
		path := filepath.Join(dir, "module", rel)
		os.MkdirAll(filepath.Dir(path), 0o755)
		os.WriteFile(path, []byte(c), 0o644)
	}
	for name, c := range notes {
		os.WriteFile(filepath.Join(dir, name), []byte(c), 0o644)
	}
	return dir
}

// ParallelDo runs f(i) for i in [0,n) on e.Parallel workers.
func (e *Env) ParallelDo(n int, f func(i int)) {
	var wg sync.WaitGroup
	ch := make(chan int)
	w := e.Parallel
	if w > n {
		w = n
	}
	for k := 0; k < w; k++ {
		wg.Add(1)
		go func() {
			defer wg.Done()
			for i := range ch {
				f(i)
			}
		}()
	}
	for i := 0; i < n; i++ {
		ch <- i
	}
	close(ch)
	wg.Wait()
}
