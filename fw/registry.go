package fw

// Checks maps property id to its check.
var Checks = map[string]func(*Env) int{
	"C01": CheckC01,
	"C02": CheckC02,
	"C03": CheckC03,
	"C04": CheckC04,
	"C05": CheckC05,
	"C06": CheckC06,
	"C08": CheckC08,
}

// Replay re-runs a saved replay bundle against the current tree.
func Replay(path string) int {
	return replay(path)
}
