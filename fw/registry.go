package fw

// Checks maps property id to its check.
var Checks = map[string]func(*Env) int{
	"C01": CheckC01,
	"C02": CheckC02,
	"C03": CheckC03,
	"C04": CheckC04,
	"C05": CheckC05,
	"C06": CheckC06,
	"C07": CheckC07,
	"C08": CheckC08,
	"C09": CheckC09,
	"C10": CheckC10,
	"C14": CheckC14,
	"C15": CheckC15,
	"C16": CheckC16,
	"C17": CheckC17,
	"C18": CheckC18,
	"C19": CheckC19,
	"C20": CheckC20,
	"C11": CheckC11,
	"C12": CheckC12,
	"C13": CheckC13,
}

// Replay re-runs a saved replay bundle against the current tree.
func Replay(path string) int {
	return replay(path)
}

// Warm fills the build cache: wire itself (done by NewEnv) and one rendered module.
func Warm(e *Env) {
	progs := genPool(e, "warm", 3, nil)
	RunPool(e, progs, PoolOpts{Execute: true, Name: "warm"})
}
