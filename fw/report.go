package fw

import (
	"bufio"
	"encoding/json"
	"fmt"
	"os"
	"path/filepath"
	"sort"
	"strings"
	"time"
)

// KnownFinding is one line of known_findings.jsonl.
type KnownFinding struct {
	Property  string `json:"property"`
	Signature string `json:"signature"`
	What      string `json:"what"`
	Status    string `json:"status"` // open | fixed
	Commit    string `json:"commit,omitempty"`
}

func LoadKnown(verif string) []KnownFinding {
	f, err := os.Open(filepath.Join(verif, "known_findings.jsonl"))
	if err != nil {
		return nil
	}
	defer f.Close()
	var r []KnownFinding
	sc := bufio.NewScanner(f)
	sc.Buffer(make([]byte, 1<<20), 1<<22)
	for sc.Scan() {
		line := strings.TrimSpace(sc.Text())
		if line == "" || strings.HasPrefix(line, "#") {
			continue
		}
		var k KnownFinding
		if json.Unmarshal([]byte(line), &k) == nil {
			r = append(r, k)
		}
	}
	return r
}

// Finish writes the evidence file, prints verdict lines, returns the exit code.
func (r *Report) Finish(t0 time.Time) int {
	known := LoadKnown(r.E.Verif)
	var fresh []Issue
	knownSeen := map[string]KnownFinding{}
	for _, v := range r.Violations {
		matched := false
		for _, k := range known {
			if k.Status == "open" && k.Property == r.Prop && v.Sig != "" && k.Signature == v.Sig {
				knownSeen[k.Signature] = k
				matched = true
				break
			}
		}
		if !matched {
			fresh = append(fresh, v)
		}
	}
	var sigs []string
	for s := range r.Sigs {
		sigs = append(sigs, s)
	}
	sort.Strings(sigs)
	cov := map[string]interface{}{
		"evaluations":         r.Evaluations,
		"distinct_nontrivial": len(r.Sigs),
		"rule":                r.Rule,
		"samples":             r.Samples,
		"counters":            r.Counters,
		"inconclusive":        len(r.Incon) + len(r.E.Inconclusive),
		"no_claim":            r.NoClaim,
		"wire_invocations":    r.E.WireRuns,
		"hooks_active":        r.E.Hooked,
	}
	if r.Exhaustive {
		cov["exhaustive"] = true
	}
	if len(r.Samples) == 0 {
		cov["samples"] = []interface{}{}
	}
	if len(sigs) > 0 {
		n := len(sigs)
		if n > 12 {
			n = 12
		}
		cov["distinct_signature_examples"] = sigs[:n]
	}
	if len(r.Incon) > 0 {
		n := len(r.Incon)
		if n > 10 {
			n = 10
		}
		cov["inconclusive_examples"] = r.Incon[:n]
	}
	ev := map[string]interface{}{
		"property_id":             r.Prop,
		"tier":                    r.E.Tier,
		"seed":                    r.E.Seed,
		"level":                   r.Level,
		"coverage":                cov,
		"assumptions":             r.Assumptions,
		"wall_s":                  time.Since(t0).Seconds(),
		"violations":              len(fresh),
		"known_findings_observed": len(knownSeen),
	}
	if r.Assumptions == nil {
		ev["assumptions"] = []string{}
	}
	b, _ := json.MarshalIndent(ev, "", " ")
	writeFileAtomic(filepath.Join(r.E.Verif, "evidence", r.Prop+".json"), append(b, '\n'))

	for _, s := range r.E.Inconclusive {
		fmt.Printf("INCONCLUSIVE property=%s %s\n", r.Prop, s)
	}
	for i, s := range r.Incon {
		if i >= 20 {
			fmt.Printf("INCONCLUSIVE property=%s ... %d more\n", r.Prop, len(r.Incon)-20)
			break
		}
		fmt.Printf("INCONCLUSIVE property=%s %s\n", r.Prop, s)
	}
	var ks []string
	for s := range knownSeen {
		ks = append(ks, s)
	}
	sort.Strings(ks)
	for _, s := range ks {
		fmt.Printf("KNOWN-FINDING: property=%s %s (%s)\n", r.Prop, knownSeen[s].What, s)
	}
	fmt.Printf("SUMMARY property=%s tier=%s seed=%d evaluations=%d distinct=%d violations=%d known=%d inconclusive=%d noclaim=%d wall=%.1fs\n",
		r.Prop, r.E.Tier, r.E.Seed, r.Evaluations, len(r.Sigs), len(fresh), len(knownSeen), len(r.Incon)+len(r.E.Inconclusive), r.NoClaim, time.Since(t0).Seconds())
	var cks []string
	for k := range r.Counters {
		cks = append(cks, k)
	}
	sort.Strings(cks)
	for _, k := range cks {
		fmt.Printf("  counter %s=%d\n", k, r.Counters[k])
	}
	if len(fresh) > 0 {
		shown := 0
		for _, v := range fresh {
			if shown < 25 {
				fmt.Printf("VIOLATION property=%s replay=%s clause=%q\n", r.Prop, v.Witness, v.Clause)
			}
			shown++
		}
		if shown > 25 {
			fmt.Printf("... %d more violations\n", shown-25)
		}
		return 1
	}
	if r.Evaluations == 0 || len(r.Sigs) < r.MinDistinct {
		fmt.Printf("INCONCLUSIVE property=%s observed too little (evaluations=%d distinct=%d)\n", r.Prop, r.Evaluations, len(r.Sigs))
		return 2
	}
	return 0
}
