package fw

import (
	"fmt"
	"strings"
	"time"
)

type c11Cell struct {
	recvPtr bool
	concPtr bool
	iface   string // local otherpkg embedding via-embedded-struct
	src     string // func struct value arg field nestedset nestedsplit
	nI, nC  int
}

func (c c11Cell) String() string {
	return fmt.Sprintf("recvPtr=%v/concPtr=%v/iface=%s/src=%s/consumersI=%d/consumersC=%d", c.recvPtr, c.concPtr, c.iface, c.src, c.nI, c.nC)
}

func (c c11Cell) legal() bool { return !(c.recvPtr && !c.concPtr) }

// c11Program builds the program of one cell.
func c11Program(id string, c c11Cell) *Program {
	b := NewPB(id, "app", "libi")
	ipkg := 0
	if c.iface == "otherpkg" {
		ipkg = 1
	}
	m := "Method"
	// concrete struct type
	var concBase *TypeDecl
	cpkg := ipkg
	switch {
	case c.src == "struct":
		concBase = b.P.NewDecl(cpkg, "Conc", StructOf(), "none")
	default:
		concBase = b.P.NewDecl(cpkg, "Conc", StructOf(idField), "struct")
	}
	if c.iface == "via-embedded-struct" {
		base := b.P.NewDecl(cpkg, "Base", StructOf(FieldT{Name: "B", Ty: Basic("int")}), "none")
		base.Methods = append(base.Methods, Method{Name: m, PtrRecv: c.recvPtr})
		concBase.Under.Fields = append(concBase.Under.Fields, FieldT{Embedded: true, Ty: Named(base)})
	} else {
		concBase.Methods = append(concBase.Methods, Method{Name: m, PtrRecv: c.recvPtr})
	}
	conc := Named(concBase)
	if c.concPtr {
		conc = PtrTo(conc)
	}
	// interface
	var ifc *Ty
	if c.iface == "embedding" {
		inner := b.P.NewDecl(ipkg, "Inner", &Ty{K: "iface", Meths: []string{m}, Params: []*Ty{conc}}, "iface")
		ifc = Named(b.P.NewDecl(ipkg, "Iface", &Ty{K: "iface", Embeds: []*Ty{Named(inner)}, Params: []*Ty{conc}}, "iface"))
	} else {
		ifc = Named(b.P.NewDecl(ipkg, "Iface", &Ty{K: "iface", Meths: []string{m}, Params: []*Ty{conc}}, "iface"))
	}
	bind := b.Bind(ifc, conc)
	var direct []Ref
	var params []Param
	bindPlaced := false
	switch c.src {
	case "func":
		direct = append(direct, ItemRef(b.Func(cpkg, "NewConc", conc, false, false).ID))
	case "struct":
		d := b.Carrier(cpkg, "Dep")
		concBase.Under.Fields = append(concBase.Under.Fields, FieldT{Name: "Dep", Ty: d})
		direct = append(direct, ItemRef(b.Func(cpkg, "NewDep", d, false, false).ID), ItemRef(b.Struct(Named(concBase), false, "Dep").ID))
	case "value":
		direct = append(direct, ItemRef(b.Value(conc).ID))
	case "arg":
		params = append(params, Param{Name: "c", Ty: conc})
	case "field":
		par := b.P.NewDecl(cpkg, "Parent", StructOf(idField, FieldT{Name: "Fld", Ty: conc}), "parent")
		direct = append(direct, ItemRef(b.Func(cpkg, "NewParent", Named(par), false, false).ID), ItemRef(b.Fields(Named(par), "Fld").ID))
	case "nestedset":
		f := b.Func(cpkg, "NewConc", conc, false, false)
		s := b.Set(cpkg, "ConcSet", ItemRef(f.ID), ItemRef(bind.ID))
		direct = append(direct, SetRef(s.ID))
		bindPlaced = true
	case "nestedsplit":
		// provider in the inner set, binding in the outer set that includes it
		f := b.Func(cpkg, "NewConc", conc, false, false)
		inner := b.Set(cpkg, "InnerSet", ItemRef(f.ID))
		outer := b.Set(0, "OuterSet", SetRef(inner.ID), ItemRef(bind.ID))
		direct = append(direct, SetRef(outer.ID))
		bindPlaced = true
	}
	if !bindPlaced {
		direct = append(direct, ItemRef(bind.ID))
	}
	// consumers
	var tops []*Ty
	for k := 0; k < c.nI; k++ {
		u := b.Carrier(0, fmt.Sprintf("UI%d", k))
		direct = append(direct, ItemRef(b.Func(0, fmt.Sprintf("NewUI%d", k), u, false, false, ifc).ID))
		tops = append(tops, u)
	}
	for k := 0; k < c.nC; k++ {
		u := b.Carrier(0, fmt.Sprintf("UC%d", k))
		direct = append(direct, ItemRef(b.Func(0, fmt.Sprintf("NewUC%d", k), u, false, false, conc).ID))
		tops = append(tops, u)
	}
	top := b.Carrier(0, "Top")
	direct = append(direct, ItemRef(b.Func(0, "NewTop", top, false, false, tops...).ID))
	// the position of the binding (and of everything else) in the argument list must not matter
	rr := Rng(int64(len(id)*7+c.nI*3+c.nC), "c11order"+c.String(), 0)
	rr.Shuffle(len(direct), func(i, j int) { direct[i], direct[j] = direct[j], direct[i] })
	b.Inj("Init", top, false, false, params, direct...)
	b.P.Note = "bind:" + c.String()
	b.P.Feat = map[string]string{"cell": c.String()}
	return b.P
}

// c11Negatives: bindings that must be rejected for other reasons.
func c11Negatives() []*RejectCase {
	var out []*RejectCase
	mk := func(name string, f func(b *PB) (result *Ty, build []Ref)) {
		b := NewPB("bn_"+name, "app")
		res, build := f(b)
		b.Inj("Init", res, false, false, nil, build...)
		b.P.Note = "bind-negative:" + name
		out = append(out, &RejectCase{P: b.P, Class: "bad-bind", Cell: "negative:" + name})
	}
	mk("missing-method", func(b *PB) (*Ty, []Ref) {
		c := b.Carrier(0, "Conc")
		other := b.Carrier(0, "OtherImpl")
		ifc := b.Iface(0, "Iface", other, false) // method on OtherImpl only
		f := b.Func(0, "NewConc", c, false, false)
		f.Stub = true
		return ifc, []Ref{ItemRef(f.ID), ItemRef(b.Bind(ifc, c).ID)}
	})
	mk("missing-method-pointer-type", func(b *PB) (*Ty, []Ref) {
		c := b.Carrier(0, "Conc")
		other := b.Carrier(0, "OtherImpl")
		ifc := b.Iface(0, "Iface", other, true) // pointer-receiver method on OtherImpl only
		f := b.Func(0, "NewConc", PtrTo(c), false, false)
		f.Stub = true
		return ifc, []Ref{ItemRef(f.ID), ItemRef(b.Bind(ifc, PtrTo(c)).ID)}
	})
	mk("wrong-method-name-pointer-type", func(b *PB) (*Ty, []Ref) {
		c := b.Carrier(0, "Conc")
		_ = b.Iface(0, "Unrelated", c, true) // *Conc has some method, but not the one Iface needs
		other := b.Carrier(0, "OtherImpl")
		ifc := b.Iface(0, "Iface", other, false)
		return ifc, []Ref{ItemRef(b.Value(PtrTo(c)).ID), ItemRef(b.Bind(ifc, PtrTo(c)).ID)}
	})
	mk("first-arg-not-interface", func(b *PB) (*Ty, []Ref) {
		c := b.Carrier(0, "Conc")
		d := b.Carrier(0, "NotIface")
		f := b.Func(0, "NewConc", c, false, false)
		f.Stub = true
		return d, []Ref{ItemRef(f.ID), ItemRef(b.Bind(d, c).ID)}
	})
	mk("self-binding", func(b *PB) (*Ty, []Ref) {
		impl := b.Carrier(0, "Impl")
		ifc := b.Iface(0, "Iface", impl, false)
		f := b.Func(0, "NewIface", ifc, false, false)
		f.Stub = true
		return ifc, []Ref{ItemRef(f.ID), ItemRef(b.Bind(ifc, ifc).ID)}
	})
	mk("ptr-receiver-value-type-via-value", func(b *PB) (*Ty, []Ref) {
		c := b.Carrier(0, "Conc")
		ifc := b.Iface(0, "Iface", c, true)
		return ifc, []Ref{ItemRef(b.Value(c).ID), ItemRef(b.Bind(ifc, c).ID)}
	})
	// the same interface bound legally to *C and, elsewhere in the same package, illegally to C
	// (pointer-receiver methods): an answer remembered for the first must not excuse the second
	for _, v := range []string{"two-injectors-pointer-first", "two-injectors-value-first", "set-then-injector", "other-iface-first"} {
		b := NewPB("bn_"+v, "app")
		c := b.Carrier(0, "Conc")
		ifc := b.Iface(0, "Iface", PtrTo(c), true)
		fp := b.Func(0, "NewConcPtr", PtrTo(c), false, false)
		fv := b.Func(0, "NewConc", c, false, false)
		fp.Stub, fv.Stub = true, true
		good := []Ref{ItemRef(fp.ID), ItemRef(b.Bind(ifc, PtrTo(c)).ID)}
		bad := []Ref{ItemRef(fv.ID), ItemRef(b.Bind(ifc, c).ID)}
		switch v {
		case "two-injectors-pointer-first":
			b.Inj("InitA", ifc, false, false, nil, good...)
			b.Inj("InitB", ifc, false, false, nil, bad...)
		case "two-injectors-value-first":
			b.Inj("InitA", ifc, false, false, nil, bad...)
			b.Inj("InitB", ifc, false, false, nil, good...)
		case "set-then-injector":
			s := b.Set(0, "GoodSet", good...)
			b.Inj("InitA", ifc, false, false, nil, SetRef(s.ID))
			b.Inj("InitB", ifc, false, false, nil, bad...)
		case "other-iface-first":
			// a second interface with the same method set, legally bound to *C first
			m := ifc.Decl.Under.Meths[0]
			ifc2 := Named(b.P.NewDecl(0, "Iface2", &Ty{K: "iface", Meths: []string{m}, Params: []*Ty{PtrTo(c)}}, "iface"))
			b.Inj("InitA", ifc2, false, false, nil, ItemRef(fp.ID), ItemRef(b.Bind(ifc2, PtrTo(c)).ID))
			b.Inj("InitB", ifc, false, false, nil, bad...)
		}
		b.P.Note = "bind-negative:" + v
		out = append(out, &RejectCase{P: b.P, Class: "bad-bind", Cell: "negative:" + v})
	}
	// the "concrete" side is itself an interface type that lacks one of I's methods
	for _, v := range []string{"iface-missing-method", "iface-disjoint-methods", "empty-iface-for-nonempty"} {
		b := NewPB("bn_"+v, "app")
		impl := b.Carrier(0, "Impl")
		wide := b.Iface(0, "ReadCloser", impl, false) // method M1 on Impl
		m1 := wide.Decl.Under.Meths[0]
		impl.Decl.Methods = append(impl.Decl.Methods, Method{Name: "Close"}, Method{Name: "Other"})
		wide.Decl.Under.Meths = append(wide.Decl.Under.Meths, "Close")
		var narrow *Ty
		switch v {
		case "iface-missing-method":
			narrow = Named(b.P.NewDecl(0, "Closer", &Ty{K: "iface", Meths: []string{"Close"}, Params: []*Ty{impl}}, "iface"))
		case "iface-disjoint-methods":
			narrow = Named(b.P.NewDecl(0, "Otherer", &Ty{K: "iface", Meths: []string{"Other"}, Params: []*Ty{impl}}, "iface"))
		case "empty-iface-for-nonempty":
			narrow = Named(b.P.NewDecl(0, "Anything", &Ty{K: "iface", Params: []*Ty{impl}}, "iface"))
		}
		_ = m1
		f := b.Func(0, "NewNarrow", narrow, false, false)
		f.Stub = true
		b.Inj("Init", wide, false, false, nil, ItemRef(f.ID), ItemRef(b.Bind(wide, narrow).ID))
		b.P.Note = "bind-negative:" + v
		out = append(out, &RejectCase{P: b.P, Class: "bad-bind", Cell: "negative:" + v})
	}
	// binding whose set does not provide the concrete type
	for _, v := range []string{"concrete-absent", "concrete-in-sibling-set", "concrete-only-as-pointer", "inline-set-concrete-in-build", "inline-set-concrete-in-enclosing-named-set", "inline-set-in-inline-set-concrete-in-outer", "named-set-concrete-in-enclosing-named-set"} {
		v := v
		b := NewPB("bn_"+v, "app")
		c := b.Carrier(0, "Conc")
		ifc := b.Iface(0, "Iface", c, false)
		bd := b.Bind(ifc, c)
		var build []Ref
		switch v {
		case "concrete-absent":
			build = []Ref{ItemRef(bd.ID)}
		case "concrete-in-sibling-set":
			f := b.Func(0, "NewConc", c, false, false)
			f.Stub = true
			s1 := b.Set(0, "BindSet", ItemRef(bd.ID))
			s2 := b.Set(0, "ConcSet", ItemRef(f.ID))
			build = []Ref{SetRef(s1.ID), SetRef(s2.ID)}
		case "concrete-only-as-pointer":
			f := b.Func(0, "NewConcPtr", PtrTo(c), false, false)
			f.Stub = true
			build = []Ref{ItemRef(f.ID), ItemRef(bd.ID)}
		case "inline-set-concrete-in-build":
			f := b.Func(0, "NewConc", c, false, false)
			f.Stub = true
			s1 := b.Set(0, "BindSet", ItemRef(bd.ID))
			s1.Inline = true
			build = []Ref{SetRef(s1.ID), ItemRef(f.ID)}
		case "inline-set-concrete-in-enclosing-named-set":
			f := b.Func(0, "NewConc", c, false, false)
			f.Stub = true
			s1 := b.Set(0, "BindSet", ItemRef(bd.ID))
			s1.Inline = true
			s2 := b.Set(0, "OuterSet", ItemRef(f.ID), SetRef(s1.ID))
			build = []Ref{SetRef(s2.ID)}
		case "inline-set-in-inline-set-concrete-in-outer":
			f := b.Func(0, "NewConc", c, false, false)
			f.Stub = true
			s1 := b.Set(0, "BindSet", ItemRef(bd.ID))
			s1.Inline = true
			s2 := b.Set(0, "MidSet", SetRef(s1.ID), ItemRef(f.ID))
			s2.Inline = true
			build = []Ref{SetRef(s2.ID)}
		case "named-set-concrete-in-enclosing-named-set":
			f := b.Func(0, "NewConc", c, false, false)
			f.Stub = true
			s1 := b.Set(0, "BindSet", ItemRef(bd.ID))
			s2 := b.Set(0, "OuterSet", ItemRef(f.ID), SetRef(s1.ID))
			build = []Ref{SetRef(s2.ID)}
		}
		b.Inj("Init", ifc, false, false, nil, build...)
		b.P.Note = "bind-negative:" + v
		out = append(out, &RejectCase{P: b.P, Class: "bind-missing", MustName: []string{DiagName(b.P, c)}, Cell: "negative:" + v})
	}
	return out
}

// CheckC11 — interface bindings.
func CheckC11(e *Env) int {
	t0 := time.Now()
	rep := NewReport(e, "C11", "exploration", "matrix receivers {value,pointer} x bound type {C,*C} x interface {local, other package, embedding another, satisfied through an embedded struct} x source of the concrete type {function, struct provider, value, injector argument, field, nested set, set split across nesting} x consumers {1..3 of I, 0..2 of C} (2-way sample in quick, full product in thorough); legal cells are executed and every consumer of I must receive the identity and address consumers of C saw, the source running once; illegal cells (method sets) and negatives must be rejected with a binding diagnostic; distinct = matrix cell")
	var cells []c11Cell
	ifaces := []string{"local", "otherpkg", "embedding", "via-embedded-struct"}
	srcs := []string{"func", "struct", "value", "arg", "field", "nestedset", "nestedsplit"}
	i := 0
	for _, rp := range []bool{false, true} {
		for _, cp := range []bool{false, true} {
			for _, ifc := range ifaces {
				for _, src := range srcs {
					if e.Tier == "thorough" {
						for nI := 1; nI <= 3; nI++ {
							for nC := 0; nC <= 2; nC++ {
								cells = append(cells, c11Cell{rp, cp, ifc, src, nI, nC})
							}
						}
					} else {
						r := Rng(e.Seed, "c11", i)
						cells = append(cells, c11Cell{rp, cp, ifc, src, 1 + r.Intn(3), r.Intn(3)})
					}
					i++
				}
			}
		}
	}
	var legal []*Program
	var cases []*RejectCase
	for k, c := range cells {
		if c.src == "struct" && c.iface == "via-embedded-struct" {
			// wire.Struct over a type with an embedded field is fine, keep it
		}
		p := c11Program(fmt.Sprintf("bi%04d", k), c)
		if c.legal() {
			legal = append(legal, p)
		} else {
			cases = append(cases, &RejectCase{P: p, Class: "bad-bind", Cell: "illegal:" + c.String()})
		}
	}
	// every order in which one consumer can ask for the interface(s), the concrete type and the
	// concrete type's own input
	legal = append(legal, bindOrderFamily("bo", e.Seed, e.tierN(4, 1))...)
	// nothing to construct: the injector's result is the parameter an interface binding
	// designates, not another parameter that also implements the interface
	legal = append(legal, passThroughArgsFamily()...)
	legal = append(legal, bindSpellingCounterpartsFamily()...)
	// how the two arguments of Bind are spelled does not matter, only their types do: two
	// thirds of the programs (legal and illegal) use typed nil pointers instead of new(...)
	respell := func(k int, p *Program) {
		sp := []string{"", "typed-nil-second", "typed-nil-both"}[k%3]
		for _, it := range p.Items {
			if it.Kind == KBind {
				it.Spelling = sp
			}
		}
		if sp != "" {
			p.Feat["bind-spelling"] = sp
		}
	}
	for k, p := range legal {
		respell(k, p)
	}
	for k, rc := range cases {
		respell(k+1, rc.P)
	}
	results := RunPool(e, legal, PoolOpts{Execute: true, Name: "c11"})
	for _, pr := range results {
		EvalAccepted(pr)
	}
	reportPool(rep, results, "C02", "C10", "C01", "C12")
	addSamples(rep, results, 2)
	cases = append(cases, c11Negatives()...)
	// a binding made by a wrapper set (or met by another injector) does not satisfy the interface
	// for an injector that cannot reach it
	for _, rc := range crossInjectorCases() {
		if strings.Contains(rc.Cell, "binding-in-wrapper-set") {
			cases = append(cases, rc)
		}
	}
	runRejectCases(e, rep, cases, "c11n")
	if rep.Counters["inputs_checked"] == 0 {
		rep.Incon = append(rep.Incon, "no consumer of a bound interface was observed")
	}
	return rep.Finish(t0)
}
