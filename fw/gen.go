package fw

import (
	"fmt"
	"math/rand"
	"sort"
	"strings"
)

// Rng derives a deterministic PRNG from (seed, stream name, index).
func Rng(seed int64, stream string, idx int) *rand.Rand {
	h := uint64(seed)*0x9E3779B97F4A7C15 + 0x1234567
	for _, c := range stream {
		h = (h ^ uint64(c)) * 0x100000001B3
	}
	h ^= uint64(idx) * 0xBF58476D1CE4E5B9
	h ^= h >> 31
	h *= 0x94D049BB133111EB
	h ^= h >> 29
	return rand.New(rand.NewSource(int64(h)))
}

// GenOpts steers the well-formed program generator.
type GenOpts struct {
	MinNodes, MaxNodes int
	NPkgs              int      // 1..4
	NInj               int      // injectors
	PCleanup, PErr     float64  // probability for func providers
	PArg               float64  // leaves that are injector args
	Kinds              []string // allowed source kinds (nil = all)
	ForceSets          bool
	FlatOnly           bool     // no sets at all
	Shapes             []string // allowed type shapes (nil = all)
	MaxFanIn           int
	SimpleNames        bool
	NoInlineSets       bool
}

func DefaultGenOpts() GenOpts {
	return GenOpts{MinNodes: 3, MaxNodes: 14, NPkgs: 2, NInj: 2, PCleanup: 0.3, PErr: 0.3, PArg: 0.3, MaxFanIn: 4}
}

type gdep struct {
	n   int
	alt bool
}

type gnode struct {
	idx       int
	ty, alt   *Ty
	kind      string // func struct value ifacevalue bind field arg
	item      *Item
	deps      []gdep
	pkg       int
	unit      int // unit index
	parent    int
	fieldName string
	reqPkg    int // minimal pkg index that can spell this node's item expression
}

// gunit groups nodes that are listed together (a FieldsOf group, or a single item).
type gunit struct {
	nodes []int
	home  int // set index in gsets or -1
}

type gset struct {
	parent int
	pkg    int
	name   string
	units  []int
	kids   []int
	set    *Set
}

// Gen holds generator state so that transforms can re-layout the same graph.
type Gen struct {
	P          *Program
	nodes      []*gnode
	units      []*gunit
	sets       []*gset
	r          *rand.Rand
	lr         *rand.Rand // layout / emission randomness (varied by C10 variants)
	opts       GenOpts
	nameN      int
	valN       int64
	Injs       []*GInj
	basics     []string
	fieldItems map[string]*Item
}

// GInj is a generated injector in node terms.
type GInj struct {
	Name                string
	Result              gdep
	Params              []int // arg nodes in parameter order
	Cleanup, Err, Panic bool
	File                int
	Variadic            bool
}

func (g *Gen) exported(pkg int) bool { return pkg != 0 || g.r.Intn(3) > 0 }

func (g *Gen) typeName(prefix string, pkg int, i int) string {
	n := fmt.Sprintf("%s%d", prefix, i)
	if g.exported(pkg) {
		return strings.ToUpper(n[:1]) + n[1:]
	}
	return strings.ToLower(n[:1]) + n[1:]
}

// advFieldNames: field names that are prefixes of one another or differ only in case.
var advFieldNames = []string{"Fa", "Fab", "FA", "Fabc", "F", "Fb", "FAb", "Fa2"}

var allShapes = []string{"nstruct", "nstruct", "nstruct", "nstruct", "pstruct", "pstruct", "nint", "nstring", "slice", "array", "map", "chan", "rchan", "func", "ustruct", "wrapslice", "wrapmap", "wrapfunc", "basic", "generic", "alias", "pnint", "nfloat", "pslice", "aliasptr"}

var basicPool = []string{"int", "string", "float64", "int64", "uint32", "bool", "complex128", "uint64", "rune", "uintptr"}

// newType creates a fresh distinct type of a random shape in pkg.
func (g *Gen) newType(pkg int, _ int, needConst bool, needMethod bool) *Ty {
	p := g.P
	shapes := allShapes
	if g.opts.Shapes != nil {
		shapes = g.opts.Shapes
	}
	constOK := map[string]bool{"nstruct": true, "pstruct": true, "nint": true, "nfloat": true, "nstring": true, "slice": true, "array": true, "map": true, "ustruct": true, "wrapslice": true, "wrapmap": true, "basic": true, "generic": true, "alias": true, "aliasptr": true}
	for tries := 0; tries < 200; tries++ {
		shape := shapes[g.r.Intn(len(shapes))]
		if needMethod && shape != "nstruct" && shape != "pstruct" && shape != "nint" && shape != "nstring" {
			continue
		}
		if needConst && !constOK[shape] {
			continue
		}
		if shape == "basic" {
			free := 0
			for _, b := range basicPool {
				if !g.usedBasic(b) {
					free++
				}
			}
			if free == 0 {
				continue
			}
		}
		g.nameN++
		idx := g.nameN
		base := func(carrier string, under *Ty) *TypeDecl {
			return p.NewDecl(pkg, g.typeName("T", pkg, idx), under, carrier)
		}
		carrierStruct := func() *TypeDecl {
			return base("struct", StructOf(FieldT{Name: "ID_", Ty: Basic("tr.ID")}))
		}
		var t *Ty
		switch shape {
		case "nstruct":
			t = Named(carrierStruct())
		case "pstruct":
			t = PtrTo(Named(carrierStruct()))
		case "nint":
			t = Named(base("int", Basic("int")))
		case "nfloat":
			t = Named(base("int", Basic("float64")))
		case "pnint":
			t = PtrTo(Named(base("int", Basic("int64"))))
		case "nstring":
			t = Named(base("string", Basic("string")))
		case "slice":
			t = SliceOf(Named(carrierStruct()))
		case "pslice":
			t = PtrTo(SliceOf(Named(carrierStruct())))
		case "array":
			t = ArrayOf(2, Named(carrierStruct()))
		case "map":
			t = MapOf(Basic("string"), Named(carrierStruct()))
		case "chan":
			t = ChanOf("", Named(carrierStruct()))
		case "rchan":
			t = ChanOf("<-chan", Named(carrierStruct()))
		case "func":
			t = FuncRet(Named(carrierStruct()))
		case "ustruct":
			t = StructOf(FieldT{Name: "ID_", Ty: Basic("tr.ID")}, FieldT{Name: fmt.Sprintf("Tag%d", idx), Ty: Basic("bool")})
		case "wrapslice":
			e := p.NewDecl(pkg, g.typeName("E", pkg, idx), StructOf(FieldT{Name: "ID_", Ty: Basic("tr.ID")}), "struct")
			t = Named(base("wrap", SliceOf(Named(e))))
		case "wrapmap":
			e := p.NewDecl(pkg, g.typeName("E", pkg, idx), StructOf(FieldT{Name: "ID_", Ty: Basic("tr.ID")}), "struct")
			t = Named(base("wrap", MapOf(Basic("int"), Named(e))))
		case "wrapfunc":
			e := p.NewDecl(pkg, g.typeName("E", pkg, idx), StructOf(FieldT{Name: "ID_", Ty: Basic("tr.ID")}), "struct")
			t = Named(base("wrap", FuncRet(Named(e))))
		case "basic":
			// each basic type at most once per program
			var free []string
			for _, b := range basicPool {
				if !g.usedBasic(b) {
					free = append(free, b)
				}
			}
			if len(free) == 0 {
				continue
			}
			t = Basic(free[g.r.Intn(len(free))])
		case "generic":
			box := g.boxDecl(pkg)
			t = &Ty{K: "named", Decl: box, DeclID: box.ID, TArgs: []*Ty{Named(carrierStruct())}}
		case "alias":
			d := carrierStruct()
			a := p.NewDecl(pkg, g.typeName("A", pkg, idx), Named(d), "")
			a.Alias = true
			t = Named(a)
		case "aliasptr":
			d := carrierStruct()
			a := p.NewDecl(pkg, g.typeName("A", pkg, idx), PtrTo(Named(d)), "")
			a.Alias = true
			t = Named(a)
		}
		if t == nil {
			continue
		}
		if needConst && !ConstExpressible(t) {
			continue
		}
		if t.K == "basic" {
			g.basics = append(g.basics, t.Name)
		}
		return t
	}
	g.nameN++
	return Named(p.NewDecl(pkg, g.typeName("T", pkg, g.nameN), StructOf(FieldT{Name: "ID_", Ty: Basic("tr.ID")}), "struct"))
}

func (g *Gen) usedBasic(b string) bool {
	for _, x := range g.basics {
		if x == b {
			return true
		}
	}
	return false
}

// boxDecl returns the generic Box type of a package, creating it on first use.
func (g *Gen) boxDecl(pkg int) *TypeDecl {
	for _, d := range g.P.Decls {
		if d.Pkg == pkg && d.TParams == 1 && d.Carrier == "struct" {
			return d
		}
	}
	d := g.P.NewDecl(pkg, "Box", StructOf(FieldT{Name: "ID_", Ty: Basic("tr.ID")}, FieldT{Name: "V", Ty: Basic("T0")}), "struct")
	d.TParams = 1
	return d
}

// methodBase returns the named decl that can carry methods for type t (T or *T).
func methodBase(t *Ty) *TypeDecl {
	if t.K == "ptr" {
		t = t.Elem
	}
	if t.K == "named" && !t.Decl.Alias && t.Decl.TParams == 0 && t.Decl.Carrier != "iface" {
		return t.Decl
	}
	return nil
}

func (g *Gen) kindAllowed(k string) bool {
	if g.opts.Kinds == nil {
		return true
	}
	for _, x := range g.opts.Kinds {
		if x == k {
			return true
		}
	}
	return false
}

// GenProgram generates one well-formed program.
func GenProgram(id string, r *rand.Rand, opts GenOpts) *Gen {
	return GenProgramLayout(id, r, rand.New(rand.NewSource(r.Int63())), opts)
}

// GenProgramLayout: nodes and injectors are drawn from r, the grouping into sets,
// the order of arguments and the placement of sets from lr. The same r with a
// different lr yields a regrouped / reordered variant of the same program.
func GenProgramLayout(id string, r, lr *rand.Rand, opts GenOpts) *Gen {
	g := &Gen{P: &Program{ID: id, Module: ModulePath, Feat: map[string]string{}}, r: r, lr: lr, opts: opts}
	p := g.P
	npk := opts.NPkgs
	if npk < 1 {
		npk = 1
	}
	p.Pkgs = append(p.Pkgs, &Pkg{Name: "app", Dir: "app"})
	for i := 1; i < npk; i++ {
		dir := fmt.Sprintf("lib%c", 'a'+i-1)
		if i == 2 {
			// an import path element that merely ends in "vendor" is not a vendor directory
			dir = "thirdvendor/" + dir
		}
		p.Pkgs = append(p.Pkgs, &Pkg{Name: fmt.Sprintf("lib%c", 'a'+i-1), Dir: dir})
	}
	n := opts.MinNodes
	if opts.MaxNodes > opts.MinNodes {
		n += r.Intn(opts.MaxNodes - opts.MinNodes + 1)
	}
	g.valN = 1000000
	for len(g.nodes) < n {
		g.addNode()
	}
	g.makeInjectors()
	g.layoutSets()
	g.Emit()
	return g
}

func (g *Gen) depKey(d gdep) string {
	nd := g.nodes[d.n]
	if d.alt {
		return nd.alt.Key(g.P)
	}
	return nd.ty.Key(g.P)
}

func (g *Gen) depTy(d gdep) *Ty {
	nd := g.nodes[d.n]
	if d.alt {
		return nd.alt
	}
	return nd.ty
}

// pickDeps picks up to k distinct earlier nodes (as deps with random form).
func (g *Gen) pickDeps(k int) []gdep {
	if len(g.nodes) == 0 || k == 0 {
		return nil
	}
	perm := g.r.Perm(len(g.nodes))
	var ds []gdep
	seen := map[string]bool{}
	for _, j := range perm {
		if len(ds) >= k {
			break
		}
		nd := g.nodes[j]
		d := gdep{n: j}
		if nd.alt != nil && g.r.Intn(2) == 0 {
			d.alt = true
		}
		key := g.depKey(d)
		if seen[key] {
			continue
		}
		seen[key] = true
		ds = append(ds, d)
	}
	return ds
}

func (g *Gen) minPkg(ds []gdep) int {
	m := len(g.P.Pkgs) - 1
	for _, d := range ds {
		if g.nodes[d.n].pkg < m {
			m = g.nodes[d.n].pkg
		}
	}
	return m
}

func (g *Gen) choosePkg(ds []gdep) int {
	m := g.minPkg(ds)
	if m == 0 {
		return 0
	}
	if g.r.Intn(3) == 0 {
		return g.r.Intn(m + 1)
	}
	return m
}

func (g *Gen) newNode(kind string, pkg int) *gnode {
	nd := &gnode{idx: len(g.nodes), kind: kind, pkg: pkg, parent: -1, reqPkg: pkg}
	g.nodes = append(g.nodes, nd)
	return nd
}

func (g *Gen) newUnit(nodes ...int) int {
	u := &gunit{nodes: nodes, home: -1}
	g.units = append(g.units, u)
	for _, n := range nodes {
		g.nodes[n].unit = len(g.units) - 1
	}
	return len(g.units) - 1
}

func (g *Gen) addNode() {
	r := g.r
	p := g.P
	// choose kind
	kinds := []string{"func", "func", "func", "func", "func", "struct", "struct", "value", "ifacevalue", "bind", "bind", "parent", "arg", "arg", "ifunc"}
	var kind string
	for tries := 0; ; tries++ {
		kind = kinds[r.Intn(len(kinds))]
		if !g.kindAllowed(kind) && tries < 40 {
			continue
		}
		if (kind == "struct" || kind == "bind") && len(g.nodes) == 0 {
			continue
		}
		break
	}
	g.nameN++
	idx := g.nameN
	switch kind {
	case "func", "ifunc":
		fan := 0
		if len(g.nodes) > 0 {
			fan = r.Intn(g.opts.MaxFanIn + 1)
		}
		deps := g.pickDeps(fan)
		pkg := g.choosePkg(deps)
		nd := g.newNode("func", pkg)
		nd.deps = deps
		if kind == "ifunc" {
			// function returning an interface type directly
			impl := p.NewDecl(pkg, g.typeName("Impl", pkg, idx), StructOf(FieldT{Name: "ID_", Ty: Basic("tr.ID")}), "struct")
			m := fmt.Sprintf("M%d", idx)
			impl.Methods = append(impl.Methods, Method{Name: m})
			id := p.NewDecl(pkg, g.typeName("I", pkg, idx), &Ty{K: "iface", Meths: []string{m}, Params: []*Ty{Named(impl)}}, "iface")
			nd.ty = Named(id)
		} else {
			nd.ty = g.newType(pkg, idx, false, false)
		}
		it := &Item{Kind: KFunc, Pkg: pkg, Name: g.typeName("New", pkg, idx), Out: nd.ty}
		// a function name must be exported if used from other packages
		it.Name = "New" + fmt.Sprint(idx)
		if pkg == 0 && r.Intn(3) == 0 {
			it.Name = "new" + fmt.Sprint(idx)
		}
		for _, d := range deps {
			it.Params = append(it.Params, g.depTy(d))
		}
		it.Cleanup = r.Float64() < g.opts.PCleanup
		it.Err = r.Float64() < g.opts.PErr
		if len(deps) > 0 && g.depTy(deps[len(deps)-1]).K == "slice" && r.Intn(2) == 0 {
			it.Variadic = true
		}
		nd.item = p.AddItem(it)
		g.newUnit(nd.idx)
	case "struct":
		fan := 1 + r.Intn(g.opts.MaxFanIn)
		deps := g.pickDeps(fan)
		pkg := g.choosePkg(deps)
		nd := g.newNode("struct", pkg)
		nd.deps = deps
		var fs []FieldT
		var names []string
		advNames := r.Intn(2) == 0
		for k, d := range deps {
			fn := fmt.Sprintf("F%d", k)
			if advNames && k < len(advFieldNames) {
				// names that are prefixes of each other or differ only in case
				fn = advFieldNames[k]
			}
			if pkg == 0 && r.Intn(3) == 0 {
				fn = strings.ToLower(fn[:1]) + fn[1:]
			}
			fs = append(fs, FieldT{Name: fn, Ty: g.depTy(d)})
			names = append(names, fn)
		}
		star := r.Intn(3) == 0
		if r.Intn(2) == 0 {
			fs = append(fs, FieldT{Name: "Skip", Ty: Basic("int"), Tag: `wire:"-"`})
		}
		if !star && r.Intn(2) == 0 {
			fs = append(fs, FieldT{Name: "Unsel", Ty: Basic("string")})
		}
		r.Shuffle(len(fs), func(i, j int) { fs[i], fs[j] = fs[j], fs[i] })
		// deps order follows the field order for "*" and the name order otherwise; either way the set is the same
		sd := p.NewDecl(pkg, g.typeName("S", pkg, idx), StructOf(fs...), "none")
		nd.ty = Named(sd)
		nd.alt = PtrTo(Named(sd))
		if r.Intn(2) == 0 {
			nd.ty, nd.alt = nd.alt, nd.ty
		}
		it := &Item{Kind: KStruct, Struct: Named(sd), Star: star}
		if !star {
			r.Shuffle(len(names), func(i, j int) { names[i], names[j] = names[j], names[i] })
			it.Names = names
		}
		nd.item = p.AddItem(it)
		g.newUnit(nd.idx)
	case "value":
		pkg := r.Intn(len(p.Pkgs))
		nd := g.newNode("value", pkg)
		nd.ty = g.newType(pkg, idx, true, false)
		g.valN++
		nd.item = p.AddItem(&Item{Kind: KValue, Out: nd.ty, ValID: g.valN})
		g.newUnit(nd.idx)
	case "ifacevalue":
		pkg := r.Intn(len(p.Pkgs))
		nd := g.newNode("ifacevalue", pkg)
		impl := p.NewDecl(pkg, g.typeName("Impl", pkg, idx), StructOf(FieldT{Name: "ID_", Ty: Basic("tr.ID")}), "struct")
		m := fmt.Sprintf("M%d", idx)
		impl.Methods = append(impl.Methods, Method{Name: m})
		id := p.NewDecl(pkg, g.typeName("I", pkg, idx), &Ty{K: "iface", Meths: []string{m}, Params: []*Ty{Named(impl)}}, "iface")
		nd.ty = Named(id)
		g.valN++
		conc := Named(impl)
		if r.Intn(2) == 0 {
			conc = PtrTo(Named(impl))
		}
		nd.item = p.AddItem(&Item{Kind: KIfaceValue, Iface: nd.ty, Concrete: conc, ValID: g.valN})
		g.newUnit(nd.idx)
	case "bind":
		// find an earlier node whose type can carry a method
		var cands []gdep
		for _, c := range g.nodes {
			if c.kind == "bind" {
				continue
			}
			if methodBase(c.ty) != nil && !c.ty.IsInterface() {
				cands = append(cands, gdep{n: c.idx})
			}
			if c.alt != nil && methodBase(c.alt) != nil {
				cands = append(cands, gdep{n: c.idx, alt: true})
			}
		}
		if len(cands) == 0 {
			return
		}
		d := cands[r.Intn(len(cands))]
		ct := g.depTy(d)
		base := methodBase(ct)
		pkg := g.choosePkg([]gdep{d})
		nd := g.newNode("bind", pkg)
		nd.deps = []gdep{d}
		m := fmt.Sprintf("M%d", idx)
		ptrRecv := ct.K == "ptr" && r.Intn(2) == 0
		base.Methods = append(base.Methods, Method{Name: m, PtrRecv: ptrRecv})
		id := p.NewDecl(pkg, g.typeName("I", pkg, idx), &Ty{K: "iface", Meths: []string{m}, Params: []*Ty{ct}}, "iface")
		nd.ty = Named(id)
		nd.item = p.AddItem(&Item{Kind: KBind, Iface: nd.ty, Concrete: ct})
		nd.reqPkg = pkg
		if base.Pkg < nd.reqPkg {
			nd.reqPkg = base.Pkg
		}
		g.newUnit(nd.idx)
	case "parent":
		pkg := r.Intn(len(p.Pkgs))
		k := 1 + r.Intn(3)
		fs := []FieldT{{Name: "ID_", Ty: Basic("tr.ID")}}
		var ftys []*Ty
		for j := 0; j < k; j++ {
			ft := g.newType(pkg, idx*10+j, true, false)
			ftys = append(ftys, ft)
			fn := fmt.Sprintf("Fld%d", j)
			if idx%2 == 1 {
				fn = []string{"Fld", "Fldx", "FLD"}[j]
			}
			if pkg == 0 && r.Intn(3) == 0 {
				fn = strings.ToLower(fn[:1]) + fn[1:]
			}
			fs = append(fs, FieldT{Name: fn, Ty: ft})
		}
		pd := p.NewDecl(pkg, g.typeName("P", pkg, idx), StructOf(fs...), "parent")
		ptr := r.Intn(2) == 0
		pt := Named(pd)
		if ptr {
			pt = PtrTo(pt)
		}
		// how is the parent provided?
		how := []string{"func", "func", "arg", "value"}[r.Intn(4)]
		var nd *gnode
		switch how {
		case "arg":
			nd = g.newNode("arg", pkg)
			nd.ty = pt
		case "value":
			nd = g.newNode("value", pkg)
			nd.ty = pt
			g.valN++
			nd.item = p.AddItem(&Item{Kind: KValue, Out: pt, ValID: g.valN})
			g.newUnit(nd.idx)
		default:
			nd = g.newNode("func", pkg)
			nd.ty = pt
			it := &Item{Kind: KFunc, Pkg: pkg, Name: "New" + fmt.Sprint(idx), Out: pt}
			it.Cleanup = r.Float64() < g.opts.PCleanup
			it.Err = r.Float64() < g.opts.PErr
			nd.item = p.AddItem(it)
			g.newUnit(nd.idx)
		}
		var fnodes []int
		for j, ft := range ftys {
			fn := g.newNode("field", pkg)
			fn.ty = ft
			if ptr {
				fn.alt = PtrTo(ft)
			}
			fn.parent = nd.idx
			fn.fieldName = fs[j+1].Name
			fn.deps = []gdep{{n: nd.idx}}
			fnodes = append(fnodes, fn.idx)
		}
		g.newUnit(fnodes...)
	case "arg":
		pkg := r.Intn(len(p.Pkgs))
		nd := g.newNode("arg", pkg)
		nd.ty = g.newType(pkg, idx, false, false)
	}
}

// layoutSets assigns units to a random forest of sets.
func (g *Gen) layoutSets() {
	r := g.lr
	g.sets = nil
	for _, u := range g.units {
		u.home = -1
	}
	if g.opts.FlatOnly {
		return
	}
	ns := 0
	if len(g.units) >= 2 {
		ns = r.Intn(len(g.units)/2 + 1)
	}
	if g.opts.ForceSets && ns == 0 && len(g.units) > 0 {
		ns = 1
	}
	if ns > 6 {
		ns = 6
	}
	for i := 0; i < ns; i++ {
		s := &gset{parent: -1, pkg: r.Intn(len(g.P.Pkgs)), name: fmt.Sprintf("Set%d", i)}
		if i > 0 && r.Intn(2) == 0 {
			s.parent = r.Intn(i)
		}
		g.sets = append(g.sets, s)
	}
	for ui, u := range g.units {
		if ns > 0 && r.Intn(4) > 0 {
			u.home = r.Intn(ns)
		}
		_ = ui
	}
	g.fixBindHomes()
	g.finishSets()
}

// fixBindHomes co-locates each binding with the unit providing its concrete type.
func (g *Gen) fixBindHomes() {
	for _, nd := range g.nodes {
		if nd.kind != "bind" {
			continue
		}
		c := g.nodes[nd.deps[0].n]
		if c.kind == "arg" {
			g.units[nd.unit].home = -1
		} else {
			g.units[nd.unit].home = g.units[c.unit].home
		}
	}
}

func (g *Gen) unitReqPkg(u *gunit) int {
	m := len(g.P.Pkgs) - 1
	for _, n := range u.nodes {
		nd := g.nodes[n]
		rp := nd.reqPkg
		if nd.kind == "field" {
			rp = nd.pkg
		}
		if nd.kind == "value" || nd.kind == "ifacevalue" {
			rp = nd.pkg
		}
		if rp < m {
			m = rp
		}
	}
	return m
}

// finishSets computes membership lists and legal packages bottom-up.
func (g *Gen) finishSets() {
	for _, s := range g.sets {
		s.units = nil
		s.kids = nil
	}
	for ui, u := range g.units {
		if u.home >= 0 {
			g.sets[u.home].units = append(g.sets[u.home].units, ui)
		}
	}
	for si, s := range g.sets {
		if s.parent >= 0 {
			g.sets[s.parent].kids = append(g.sets[s.parent].kids, si)
		}
	}
	// parents have smaller indices than children: process from the end
	for si := len(g.sets) - 1; si >= 0; si-- {
		s := g.sets[si]
		for _, ui := range s.units {
			if rp := g.unitReqPkg(g.units[ui]); rp < s.pkg {
				s.pkg = rp
			}
		}
		for _, k := range s.kids {
			if g.sets[k].pkg < s.pkg {
				s.pkg = g.sets[k].pkg
			}
		}
	}
}

// setEmpty reports whether a set subtree holds no unit.
func (g *Gen) setEmpty(si int) bool {
	s := g.sets[si]
	if len(s.units) > 0 {
		return false
	}
	for _, k := range s.kids {
		if !g.setEmpty(k) {
			return false
		}
	}
	return true
}

func (g *Gen) needed(res gdep) map[int]bool {
	need := map[int]bool{}
	var visit func(n int)
	visit = func(n int) {
		if need[n] {
			return
		}
		need[n] = true
		for _, d := range g.nodes[n].deps {
			visit(d.n)
		}
	}
	visit(res.n)
	return need
}

func (g *Gen) makeInjectors() {
	r := g.r
	ninj := g.opts.NInj
	if ninj < 1 {
		ninj = 1
	}
	// candidate results: non-arg nodes, prefer late ones
	var cands []int
	for _, nd := range g.nodes {
		if nd.kind != "arg" {
			cands = append(cands, nd.idx)
		}
	}
	if len(cands) == 0 {
		// degenerate: only args. add a func node
		g.opts.Kinds = []string{"func"}
		g.addNode()
		cands = []int{len(g.nodes) - 1}
	}
	used := map[int]bool{}
	for k := 0; k < ninj; k++ {
		var res int
		if k == 0 {
			res = cands[len(cands)-1]
		} else {
			res = cands[r.Intn(len(cands))]
		}
		if used[res] && len(used) < len(cands) {
			k--
			continue
		}
		used[res] = true
		d := gdep{n: res}
		if g.nodes[res].alt != nil && r.Intn(2) == 0 {
			d.alt = true
		}
		in := &GInj{Name: fmt.Sprintf("Init%d", len(g.Injs)), Result: d, Panic: r.Intn(3) == 0, File: r.Intn(2)}
		if r.Intn(4) == 0 {
			in.Name = fmt.Sprintf("init%d", len(g.Injs))
		}
		need := g.needed(d)
		var args []int
		for n := range need {
			if g.nodes[n].kind == "arg" {
				args = append(args, n)
			}
		}
		sort.Ints(args)
		r.Shuffle(len(args), func(i, j int) { args[i], args[j] = args[j], args[i] })
		in.Params = args
		nc, ne := false, false
		for n := range need {
			if it := g.nodes[n].item; it != nil && it.Kind == KFunc {
				nc = nc || it.Cleanup
				ne = ne || it.Err
			}
		}
		in.Cleanup = nc || r.Intn(4) == 0
		in.Err = ne || r.Intn(4) == 0
		if len(args) > 0 && g.nodes[args[len(args)-1]].ty.K == "slice" && r.Intn(2) == 0 {
			in.Variadic = true
		}
		g.Injs = append(g.Injs, in)
		if len(used) >= len(cands) {
			break
		}
	}
	if len(g.Injs) > 0 {
		// make sure file 0 exists
		g.Injs[0].File = 0
	}
}

// fieldsItem returns (creating if needed) a FieldsOf item for the given field nodes.
func (g *Gen) fieldsItem(nodes []int) *Item {
	p := g.P
	parent := g.nodes[g.nodes[nodes[0]].parent]
	var names []string
	for _, n := range nodes {
		names = append(names, g.nodes[n].fieldName)
	}
	key := parent.ty.Key(p) + "|" + strings.Join(names, ",")
	if g.fieldItems == nil {
		g.fieldItems = map[string]*Item{}
	}
	if it, ok := g.fieldItems[key]; ok {
		return it
	}
	it := p.AddItem(&Item{Kind: KFields, Parent: parent.ty, Names: names})
	it.Key = fmt.Sprintf("f%d", it.ID)
	g.fieldItems[key] = it
	return it
}

func (g *Gen) unitRef(ui int, onlyNodes map[int]bool) (Ref, bool) {
	u := g.units[ui]
	first := g.nodes[u.nodes[0]]
	if first.kind == "field" {
		var ns []int
		for _, n := range u.nodes {
			if onlyNodes == nil || onlyNodes[n] {
				ns = append(ns, n)
			}
		}
		if len(ns) == 0 {
			return Ref{}, false
		}
		return ItemRef(g.fieldsItem(ns).ID), true
	}
	if onlyNodes != nil && !onlyNodes[first.idx] {
		return Ref{}, false
	}
	return ItemRef(first.item.ID), true
}

// Emit (re)builds Program.Sets and Program.Injs from the layout.
func (g *Gen) Emit() {
	p := g.P
	r := g.lr
	p.Sets = nil
	p.Injs = nil
	// drop FieldsOf items from earlier emits
	var items []*Item
	for _, it := range p.Items {
		if it.Kind != KFields {
			items = append(items, it)
		}
	}
	p.Items = items
	for i, it := range p.Items {
		it.ID = i
	}
	g.fieldItems = nil
	// sets: create Set objects for non-empty subtrees
	for _, s := range g.sets {
		s.set = nil
	}
	for si := len(g.sets) - 1; si >= 0; si-- {
		s := g.sets[si]
		if g.setEmpty(si) {
			continue
		}
		name := s.name
		if s.pkg == 0 && r.Intn(3) == 0 {
			name = strings.ToLower(name[:1]) + name[1:]
		}
		s.set = p.AddSet(&Set{Pkg: s.pkg, Name: name, InInjectFile: s.pkg == 0 && r.Intn(3) == 0, Inline: !g.opts.NoInlineSets && r.Intn(4) == 0})
	}
	for si, s := range g.sets {
		if s.set == nil {
			continue
		}
		var ms []Ref
		for _, ui := range s.units {
			ref, _ := g.unitRef(ui, nil)
			ms = append(ms, ref)
		}
		for _, k := range s.kids {
			if g.sets[k].set != nil {
				ms = append(ms, SetRef(g.sets[k].set.ID))
			}
		}
		r.Shuffle(len(ms), func(i, j int) { ms[i], ms[j] = ms[j], ms[i] })
		s.set.Members = ms
		_ = si
	}
	for _, gi := range g.Injs {
		need := g.needed(gi.Result)
		in := &Injector{Name: gi.Name, Result: g.depTy(gi.Result), Cleanup: gi.Cleanup, Err: gi.Err, Panic: gi.Panic, File: gi.File, Variadic: gi.Variadic}
		for k, a := range gi.Params {
			nm := fmt.Sprintf("arg%d", k)
			in.Params = append(in.Params, Param{Name: nm, Ty: g.nodes[a].ty})
		}
		// which needed alt forms? FieldsOf direct lists names whose node is needed
		var build []Ref
		// units needed
		unitNeeded := map[int]bool{}
		for n := range need {
			nd := g.nodes[n]
			if nd.kind == "arg" {
				continue
			}
			unitNeeded[nd.unit] = true
		}
		// subtreeNeeded: does a set subtree contain a needed unit
		var subtreeNeeded func(si int) bool
		subtreeNeeded = func(si int) bool {
			for _, ui := range g.sets[si].units {
				if unitNeeded[ui] {
					return true
				}
			}
			for _, k := range g.sets[si].kids {
				if subtreeNeeded(k) {
					return true
				}
			}
			return false
		}
		var include func(si int)
		include = func(si int) {
			s := g.sets[si]
			if !subtreeNeeded(si) {
				return
			}
			if r.Intn(3) > 0 {
				build = append(build, SetRef(s.set.ID))
				return
			}
			// expand: needed direct units individually, recurse into kids
			for _, ui := range s.units {
				if unitNeeded[ui] {
					ref, ok := g.unitRef(ui, need)
					if ok {
						build = append(build, ref)
					}
				}
			}
			for _, k := range s.kids {
				include(k)
			}
		}
		for si, s := range g.sets {
			if s.parent < 0 {
				include(si)
			}
		}
		for ui, u := range g.units {
			if u.home < 0 && unitNeeded[ui] {
				ref, ok := g.unitRef(ui, need)
				if ok {
					build = append(build, ref)
				}
			}
		}
		r.Shuffle(len(build), func(i, j int) { build[i], build[j] = build[j], build[i] })
		in.Build = build
		p.Injs = append(p.Injs, in)
	}
	g.features()
}

// features fills the feature table used for shape signatures.
func (g *Gen) features() {
	p := g.P
	f := map[string]string{}
	kinds := map[string]int{}
	for _, nd := range g.nodes {
		kinds[nd.kind]++
	}
	var ks []string
	for k, n := range kinds {
		ks = append(ks, fmt.Sprintf("%s%d", k, n))
	}
	sort.Strings(ks)
	f["kinds"] = strings.Join(ks, ",")
	f["pkgs"] = fmt.Sprint(len(p.Pkgs))
	f["sets"] = fmt.Sprint(len(p.Sets))
	f["injs"] = fmt.Sprint(len(p.Injs))
	p.Feat = f
}
