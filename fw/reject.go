package fw

import (
	"fmt"
	"strings"
)

// RejectCase is a program that must be rejected (or, as a control, accepted).
type RejectCase struct {
	P           *Program
	Control     bool     // must be accepted
	Class       string   // expected class keyword set
	MustName    []string // at least one of these fragments must appear in a diagnostic of the class (empty = not required)
	MustNameAll []string // every one of these fragments must appear in some diagnostic of the class
	Cell        string   // matrix cell / shape signature
	ViaCheck    bool     // decided by `wire check` (set variable no injector uses)
	NoClaim     string   // non-empty: case is in a no-claim zone (still crash-monitored)
	Twin        string   // ID of the control twin
}

// classKeywords: fragments a diagnostic of the class contains.
var classKeywords = map[string][]string{
	"conflict":     {"multiple bindings"},
	"missing":      {"no provider found", "does not include a provider"},
	"bind-missing": {"does not include a provider"},
	"cycle":        {"cycle"},
	"unused":       {"unused"},
	"signature":    {"return", "signature"},
	"dup-param":    {"multiple parameters of type"},
	"dup-field":    {"multiple fields of type"},
	"need-err":     {"returns error but injection not allowed to fail"},
	"need-cleanup": {"returns cleanup but injection does not return cleanup"},
	"bad-bind":     {"does not implement", "cannot bind interface to itself", "must be a pointer to an interface", "must be a pointer"},
	"bad-field":    {"is not a field of"},
	"prevented":    {"prevented from injecting"},
	"bad-value":    {"too complex", "may not be an interface value", "does not implement", "can't be used", "unexported", "not declared in package scope"},
	"not-provider": {"is not a provider or a provider set"},
	"any":          {""},
}

// DiagName is the fragment by which a diagnostic must name type t.
func DiagName(p *Program, t *Ty) string {
	switch t.K {
	case "named", "ptr", "slice", "array", "map", "chan":
		ok := true
		var walk func(x *Ty)
		walk = func(x *Ty) {
			switch x.K {
			case "named":
				for _, a := range x.TArgs {
					walk(a)
				}
				if x.Decl.Alias {
					walk(x.Decl.Under)
				}
			case "ptr", "slice", "array", "chan":
				walk(x.Elem)
			case "map":
				walk(x.MapKey)
				walk(x.Elem)
			case "basic":
				if x.Name == "tr.ID" || x.Name == "unsafe.Pointer" {
					ok = false
				}
			default:
				ok = false
			}
		}
		walk(t)
		if ok {
			return t.Str(p)
		}
	case "basic":
		return t.Name
	}
	// weaker fragment: a named leaf
	var leaf string
	var walk func(x *Ty)
	walk = func(x *Ty) {
		if x == nil || leaf != "" {
			return
		}
		if x.K == "named" && !x.Decl.Alias {
			leaf = p.ImportPath(x.Decl.Pkg) + "." + x.Decl.Name
			return
		}
		if x.K == "named" {
			walk(x.Decl.Under)
		}
		walk(x.Elem)
		walk(x.MapKey)
		for _, f := range x.Fields {
			walk(f.Ty)
		}
		for _, f := range x.Params {
			walk(f)
		}
	}
	walk(t)
	if leaf == "" {
		// an unnamed struct somewhere inside: name it by its last field
		var frag string
		var find func(x *Ty)
		find = func(x *Ty) {
			if x == nil || frag != "" {
				return
			}
			if x.K == "struct" && len(x.Fields) > 0 {
				f := x.Fields[len(x.Fields)-1]
				frag = f.Name
				if f.Ty.K == "basic" && f.Ty.Name != "tr.ID" {
					frag = f.Name + " " + f.Ty.Name
				}
				return
			}
			if x.K == "named" && x.Decl.Alias {
				find(x.Decl.Under)
			}
			find(x.Elem)
			find(x.MapKey)
		}
		find(t)
		return frag
	}
	return leaf
}

// evalReject judges one case from its ProgResult.
func evalReject(rc *RejectCase, pr *ProgResult, prop string) (status string, is *Issue) {
	if pr.PreBad != "" {
		return "incon:harness: " + rc.P.ID + " does not type-check: " + firstLine(pr.PreBad) + " | " + secondLine(pr.PreBad), nil
	}
	if pr.Incon != "" {
		return "incon:" + pr.Incon, nil
	}
	if pr.Crash != "" {
		return "violated", &Issue{Prop: prop, Clause: "crash instead of a diagnostic", Witness: pr.Crash, Sig: prop + ":crash:" + rc.Cell}
	}
	diags := append([]Diag(nil), pr.Outcome.Diags...)
	diags = append(diags, pr.LibDiags...)
	wrote := pr.Outcome.Wrote || pr.GenFile != ""
	if rc.ViaCheck {
		diags = pr.CheckDiags
		wrote = false
	}
	var all []string
	for _, d := range diags {
		all = append(all, d.Text)
	}
	text := strings.Join(all, "\n")
	if rc.NoClaim != "" {
		return "noclaim", nil
	}
	if rc.Control {
		if rc.ViaCheck {
			if len(diags) > 0 {
				return "violated", &Issue{Prop: prop, Clause: "control (well-formed set variable) rejected by check", Witness: text, Sig: prop + ":control-rejected:" + rc.Cell}
			}
			return "held", nil
		}
		if !wrote || pr.Outcome.Failed || len(diags) > 0 {
			return "violated", &Issue{Prop: prop, Clause: "control (well-formed twin) rejected", Witness: text + "\n" + pr.GenStderr, Sig: prop + ":control-rejected:" + rc.Cell}
		}
		return "held", nil
	}
	if wrote {
		return "violated", &Issue{Prop: prop, Clause: fmt.Sprintf("program with a %s problem was accepted and output written", rc.Class), Witness: text, Sig: prop + ":accepted:" + rc.Cell}
	}
	if len(diags) == 0 {
		return "violated", &Issue{Prop: prop, Clause: fmt.Sprintf("program with a %s problem produced no diagnostic", rc.Class), Witness: pr.GenStderr, Sig: prop + ":silent:" + rc.Cell}
	}
	if !rc.ViaCheck && !pr.Outcome.Failed && pr.GenExit == 0 {
		return "violated", &Issue{Prop: prop, Clause: "diagnostics printed but the package was not reported as failed", Witness: text, Sig: prop + ":notfailed:" + rc.Cell}
	}
	kws := classKeywords[rc.Class]
	found := false
	named := len(rc.MustName) == 0
	for _, d := range diags {
		for _, kw := range kws {
			if strings.Contains(d.Text, kw) {
				found = true
				for _, n := range rc.MustName {
					if n != "" && strings.Contains(d.Text, n) {
						named = true
					}
				}
			}
		}
	}
	if !found {
		return "violated", &Issue{Prop: prop, Clause: fmt.Sprintf("rejected, but no diagnostic of class %q", rc.Class), Witness: text, Sig: prop + ":wrongclass:" + rc.Cell}
	}
	for _, n := range rc.MustNameAll {
		if n == "" {
			continue
		}
		hit := false
		for _, d := range diags {
			for _, kw := range kws {
				if strings.Contains(d.Text, kw) && strings.Contains(d.Text, n) {
					hit = true
				}
			}
		}
		if !hit {
			return "violated", &Issue{Prop: prop, Clause: fmt.Sprintf("no %s diagnostic names the type %s", rc.Class, n), Witness: text, Sig: prop + ":unnamed:" + rc.Cell}
		}
	}
	if !named {
		return "violated", &Issue{Prop: prop, Clause: fmt.Sprintf("%s diagnostic does not name the type (%s)", rc.Class, strings.Join(rc.MustName, " | ")), Witness: text, Sig: prop + ":unnamed:" + rc.Cell}
	}
	return "held", nil
}

func secondLine(s string) string {
	ls := strings.Split(s, "\n")
	if len(ls) > 1 {
		return ls[1]
	}
	return ""
}

// runRejectCases runs all cases and fills the report.
func runRejectCases(e *Env, rep *Report, cases []*RejectCase, name string) {
	var genProgs, chkProgs []*Program
	byID := map[string]*RejectCase{}
	for _, rc := range cases {
		byID[rc.P.ID] = rc
		if rc.ViaCheck {
			chkProgs = append(chkProgs, rc.P)
		} else {
			genProgs = append(genProgs, rc.P)
		}
	}
	var results []*ProgResult
	if len(genProgs) > 0 {
		results = append(results, RunPool(e, genProgs, PoolOpts{Name: name + "g", BatchSize: 48})...)
	}
	if len(chkProgs) > 0 {
		results = append(results, RunPool(e, chkProgs, PoolOpts{Name: name + "c", BatchSize: 48, NoGen: true})...)
	}
	resByID := map[string]*ProgResult{}
	for _, pr := range results {
		resByID[pr.P.ID] = pr
		if pr.Outcome == nil {
			pr.Outcome = &PkgOutcome{}
		}
	}
	for _, pr := range results {
		rc := byID[pr.P.ID]
		if pr.Outcome == nil {
			pr.Outcome = &PkgOutcome{}
		}
		status, is := evalReject(rc, pr, rep.Prop)
		// a mutant's rejection proves nothing if its control twin is rejected too
		if status == "held" && !rc.Control && rc.Twin != "" {
			if tw := resByID[rc.Twin]; tw != nil {
				if ts, _ := evalReject(byID[rc.Twin], tw, rep.Prop); ts != "held" {
					status = "incon:control twin of " + rc.P.ID + " not accepted"
				}
			}
		}
		switch {
		case status == "held":
			rep.Held(rc.Cell)
			if rc.Control {
				rep.Count("controls_accepted", 1)
			} else {
				rep.Count("rejected_with_expected_diagnostic", 1)
				if len(rep.Samples) < 4 {
					txt := pr.GenStderr
					if rc.ViaCheck {
						txt = ""
						for _, d := range pr.CheckDiags {
							txt += d.Text + "\n"
						}
					}
					rep.Sample(map[string]interface{}{"case": rc.P.ID, "cell": rc.Cell, "class": rc.Class, "diagnostic": firstN(txt, 600)})
				}
			}
		case status == "noclaim":
			rep.NoClaim++
		case strings.HasPrefix(status, "incon:"):
			rep.Incon = append(rep.Incon, strings.TrimPrefix(status, "incon:"))
		case status == "violated":
			files := pr.Files
			if files == nil {
				files = pr.P.Files(false)
			}
			notes := map[string]string{"wire_stderr.txt": pr.GenStderr, "spec.json": specJSON(pr.P), "cell.txt": rc.Cell}
			rep.Violate(pr.P.ID, *is, files, notes)
		}
	}
}

func firstN(s string, n int) string {
	if len(s) <= n {
		return s
	}
	return s[:n] + "..."
}
