package fw

import (
	"bufio"
	"encoding/json"
	"fmt"
	"os"
	"path/filepath"
	"strings"
	"time"
)

// GNode is a node of a provider graph: the kind of its source and what it needs.
type GNode struct {
	Kind string // func | struct | field | bind
	Deps []int
}

// normalizeGraph repairs kind constraints (field/bind need exactly one non-bind dep).
func normalizeGraph(nodes []GNode) []GNode {
	out := make([]GNode, len(nodes))
	copy(out, nodes)
	for changed := true; changed; {
		changed = false
		for i := range out {
			n := &out[i]
			switch n.Kind {
			case "field", "bind":
				if len(n.Deps) != 1 || out[n.Deps[0]].Kind == "bind" {
					n.Kind = "func"
					changed = true
				}
			case "struct":
				if len(n.Deps) == 0 {
					n.Kind = "func"
					changed = true
				}
			}
		}
	}
	return out
}

// graphCyclic: is there a directed cycle (10-line DFS; the oracle).
func graphCyclic(nodes []GNode) bool {
	color := make([]int, len(nodes))
	var visit func(u int) bool
	visit = func(u int) bool {
		color[u] = 1
		for _, v := range nodes[u].Deps {
			if color[v] == 1 || (color[v] == 0 && visit(v)) {
				return true
			}
		}
		color[u] = 2
		return false
	}
	for u := range nodes {
		if color[u] == 0 && visit(u) {
			return true
		}
	}
	return false
}

func graphEdges(nodes []GNode) int {
	e := 0
	for _, n := range nodes {
		e += len(n.Deps)
	}
	return e
}

// graphProgram renders a graph: all sources in one set variable, an injector
// needing only node `root`. unreferenced: no injector uses the set (check only).
func graphProgram(id string, nodes []GNode, root int, unreferenced bool) *Program {
	return graphProgramLayout(id, nodes, root, unreferenced, 0)
}

// graphLayouts: how the sources of a graph are distributed over provider sets.
//
//	0 one set variable holds every source
//	1 every source in a set variable of its own; SetG = NewSet(Sub0, Sub1, ...) adds nothing itself
//	2 two set variables by node parity, combined by SetG together with one unrelated local provider
//	3 a chain Sub0 ⊃ Sub1 ⊃ ..., every level adding the sources of one residue class mod 3
//	4 like 1, but the injector lists the sub-sets directly in wire.Build (no combining variable)
//	5 Base holds every source that is not a binding; SetG = NewSet(Base, bindings...) adds only the
//	  bindings (an including set may bind what an included set provides)
//	6 like 5, but the injector lists Base and the bindings directly in wire.Build
const graphLayouts = 7

func graphProgramLayout(id string, nodes []GNode, root int, unreferenced bool, layout int) *Program {
	nodes = normalizeGraph(nodes)
	b := NewPB(id, "app")
	n := len(nodes)
	decls := make([]*TypeDecl, n)
	tys := make([]*Ty, n)
	for i := 0; i < n; i++ {
		decls[i] = b.P.NewDecl(0, fmt.Sprintf("T%d", i), StructOf(FieldT{Name: "X", Ty: Basic("int")}), "none")
	}
	for i := 0; i < n; i++ {
		if nodes[i].Kind == "bind" {
			v := nodes[i].Deps[0]
			m := fmt.Sprintf("M%d", i)
			decls[v].Methods = append(decls[v].Methods, Method{Name: m})
			id := b.P.NewDecl(0, fmt.Sprintf("I%d", i), &Ty{K: "iface", Meths: []string{m}, Params: []*Ty{PtrTo(Named(decls[v]))}}, "iface")
			tys[i] = Named(id)
		} else {
			tys[i] = PtrTo(Named(decls[i]))
		}
	}
	var members []Ref
	for i := 0; i < n; i++ {
		nd := nodes[i]
		switch nd.Kind {
		case "func":
			var ps []*Ty
			for _, d := range nd.Deps {
				ps = append(ps, tys[d])
			}
			f := b.Func(0, fmt.Sprintf("New%d", i), tys[i], false, false, ps...)
			f.Stub = true
			members = append(members, ItemRef(f.ID))
		case "struct":
			var names []string
			for _, d := range nd.Deps {
				fn := fmt.Sprintf("D%d", d)
				decls[i].Under.Fields = append(decls[i].Under.Fields, FieldT{Name: fn, Ty: tys[d]})
				names = append(names, fn)
			}
			members = append(members, ItemRef(b.Struct(Named(decls[i]), false, names...).ID))
		case "field":
			v := nd.Deps[0]
			fn := fmt.Sprintf("Fld%d", i)
			decls[v].Under.Fields = append(decls[v].Under.Fields, FieldT{Name: fn, Ty: tys[i]})
			members = append(members, ItemRef(b.Fields(PtrTo(Named(decls[v])), fn).ID))
		case "bind":
			v := nd.Deps[0]
			members = append(members, ItemRef(b.Bind(tys[i], tys[v]).ID))
		}
	}
	// a binding must sit in the set that provides its concrete type: it follows its target
	part := func(i int, k int) int {
		if nodes[i].Kind == "bind" {
			return nodes[i].Deps[0] % k
		}
		return i % k
	}
	var s *Set
	var buildRefs []Ref
	switch layout {
	case 1, 4:
		var subs []Ref
		for i := 0; i < n; i++ {
			var ms []Ref
			for j := 0; j < n; j++ {
				if part(j, n) == i {
					ms = append(ms, members[j])
				}
			}
			if len(ms) > 0 {
				subs = append(subs, SetRef(b.Set(0, fmt.Sprintf("Sub%d", i), ms...).ID))
			}
		}
		s = b.Set(0, "SetG", subs...)
		buildRefs = subs
	case 2:
		var subs []Ref
		for k := 0; k < 2; k++ {
			var ms []Ref
			for j := 0; j < n; j++ {
				if part(j, 2) == k {
					ms = append(ms, members[j])
				}
			}
			if len(ms) > 0 {
				subs = append(subs, SetRef(b.Set(0, fmt.Sprintf("Sub%d", k), ms...).ID))
			}
		}
		s = b.Set(0, "SetG", subs...)
	case 3:
		var inner *Set
		for k := 2; k >= 0; k-- {
			var ms []Ref
			for j := 0; j < n; j++ {
				if part(j, 3) == k {
					ms = append(ms, members[j])
				}
			}
			if inner != nil {
				ms = append(ms, SetRef(inner.ID))
			}
			if len(ms) == 0 {
				continue
			}
			name := fmt.Sprintf("Sub%d", k)
			if k == 0 {
				name = "SetG"
			}
			inner = b.Set(0, name, ms...)
		}
		s = inner
	case 5, 6:
		var base, binds []Ref
		for j := 0; j < n; j++ {
			if nodes[j].Kind == "bind" {
				binds = append(binds, members[j])
			} else {
				base = append(base, members[j])
			}
		}
		if len(base) > 0 {
			bs := b.Set(0, "Base", base...)
			s = b.Set(0, "SetG", append([]Ref{SetRef(bs.ID)}, binds...)...)
			buildRefs = append([]Ref{SetRef(bs.ID)}, binds...)
		}
	default:
		s = b.Set(0, "SetG", members...)
	}
	if s == nil {
		s = b.Set(0, "SetG", members...)
	}
	if unreferenced {
		other := b.Carrier(0, "Other")
		f := b.Func(0, "NewOther", other, false, false)
		f.Stub = true
		b.Inj("InitOther", other, false, false, nil, ItemRef(f.ID))
	} else if layout == 4 && len(buildRefs) > 0 {
		// only the sub-sets the result needs (the others would rightly be reported as unused)
		reach := graphReach(nodes, root)
		var need []Ref
		for i := 0; i < n; i++ {
			if reach[i] && nodes[i].Kind != "bind" {
				for _, sr := range buildRefs {
					if b.P.Sets[sr.Set].Name == fmt.Sprintf("Sub%d", i) {
						need = append(need, sr)
					}
				}
			}
		}
		b.Inj("Init", tys[root], false, false, nil, need...)
	} else if layout == 6 && len(buildRefs) > 0 {
		// Base and the bindings the result needs (a binding nothing asks for is rightly unused)
		reach := graphReach(nodes, root)
		need := []Ref{buildRefs[0]}
		all := true
		for j := 0; j < n; j++ {
			if nodes[j].Kind == "bind" && reach[j] {
				need = append(need, members[j])
			} else if nodes[j].Kind == "bind" {
				all = false
			}
		}
		if !all {
			// the verdict is stated for the whole graph: keep every source in the injector's set
			need = []Ref{SetRef(s.ID)}
		}
		b.Inj("Init", tys[root], false, false, nil, need...)
	} else {
		b.Inj("Init", tys[root], false, false, nil, SetRef(s.ID))
	}
	return b.P
}

// graphReach: nodes reachable from root.
func graphReach(nodes []GNode, root int) map[int]bool {
	reach := map[int]bool{}
	var visit func(u int)
	visit = func(u int) {
		if reach[u] {
			return
		}
		reach[u] = true
		for _, v := range nodes[u].Deps {
			visit(v)
		}
	}
	visit(root)
	return reach
}

// graphCyclicWithin: is there a cycle among the nodes of keep.
func graphCyclicWithin(nodes []GNode, keep map[int]bool) bool {
	sub := make([]GNode, len(nodes))
	for i, nd := range nodes {
		sub[i].Kind = nd.Kind
		if !keep[i] {
			continue
		}
		for _, d := range nd.Deps {
			if keep[d] {
				sub[i].Deps = append(sub[i].Deps, d)
			}
		}
	}
	return graphCyclic(sub)
}

type graphCase struct {
	P      *Program
	Nodes  []GNode
	Cyclic bool
	// GenCyclic: is there a cycle in what the injector's wire.Build lists (differs from Cyclic
	// only when the injector lists a part of the sources)
	GenCyclic bool
	Family    string
	Unref     bool
}

// allDigraphs enumerates every labelled digraph with self-loops on n nodes (all-function edges).
func allDigraphs(n int) [][]GNode {
	var out [][]GNode
	total := 1 << uint(n*n)
	for m := 0; m < total; m++ {
		g := make([]GNode, n)
		for u := 0; u < n; u++ {
			g[u].Kind = "func"
			for v := 0; v < n; v++ {
				if m&(1<<uint(u*n+v)) != 0 {
					g[u].Deps = append(g[u].Deps, v)
				}
			}
		}
		out = append(out, g)
	}
	return out
}

type hookStats struct {
	activations int
	maxSteps    map[string]int
	worstRatio  float64
	lines       []string
}

// parseHookLog reads {site,n,steps} lines.
func parseHookLog(path string) (acts []struct {
	Site  string `json:"site"`
	N     int    `json:"n"`
	Steps int    `json:"steps"`
}) {
	f, err := os.Open(path)
	if err != nil {
		return nil
	}
	defer f.Close()
	sc := bufio.NewScanner(f)
	for sc.Scan() {
		var a struct {
			Site  string `json:"site"`
			N     int    `json:"n"`
			Steps int    `json:"steps"`
		}
		if json.Unmarshal(sc.Bytes(), &a) == nil && a.Site != "" {
			acts = append(acts, a)
		}
	}
	return acts
}

// runSolo runs wire gen (and check) on one program alone with the hook log on
// and returns the total steps per site.
func runSolo(e *Env, p *Program, cmd string) (res *CmdResult, steps map[string]int, maxAct map[string]int) {
	b, err := e.NewBatch("solo-"+p.ID, []*Program{p}, nil)
	if err != nil {
		return &CmdResult{Exit: -3, Stderr: err.Error()}, nil, nil
	}
	defer b.Remove()
	log := filepath.Join(b.Root, "hook.log")
	res = e.Wire(b.Root, []string{"VERIF_HOOK_LOG=" + log, "VERIF_STEP_CAP=400"}, cmd, "./...")
	steps = map[string]int{}
	maxAct = map[string]int{}
	for _, a := range parseHookLog(log) {
		steps[a.Site] += a.Steps
		if a.Steps > maxAct[a.Site] {
			maxAct[a.Site] = a.Steps
		}
	}
	return res, steps, maxAct
}

// CheckC07 — cycles detected, analysis terminates, work is path-independent.
func CheckC07(e *Env) int {
	t0 := time.Now()
	rep := NewReport(e, "C07", "exploration", "exhaustive: every labelled digraph with self-loops on n<=3 nodes (quick) / n<=4 (thorough), all-function edges; random graphs n=4..8 with mixed edge kinds (function parameter, struct-provider field, FieldsOf parent, binding); structured lassos, disjoint components, diamond lattices (2^d paths), long chains, wide fan-out; each graph as a set used by an injector needing only one node and as an unreferenced set under wire check; oracle: cyclic <=> rejected with a 'cycle' diagnostic (DFS in the monitor); termination and path-independence are decided on hook step counts (cap and linear budget), never on time; distinct = (family, nodes, edges, kinds, cyclic)")
	var gcs []*graphCase
	layout := 0
	add := func(family string, nodes []GNode, root int, unref bool) {
		nodes = normalizeGraph(nodes)
		id := fmt.Sprintf("g%05d", len(gcs))
		p := graphProgramLayout(id, nodes, root, unref, layout)
		if layout != 0 {
			family = fmt.Sprintf("%s/layout%d", family, layout)
		}
		p.Note = family
		gc := &graphCase{P: p, Nodes: nodes, Cyclic: graphCyclic(nodes), Family: family, Unref: unref}
		gc.GenCyclic = gc.Cyclic
		if layout == 4 && !unref {
			gc.GenCyclic = graphCyclicWithin(nodes, graphReach(nodes, root))
		}
		gcs = append(gcs, gc)
	}
	maxN := 3
	if e.Tier == "thorough" {
		maxN = 4
	}
	for n := 1; n <= maxN; n++ {
		for gi, g := range allDigraphs(n) {
			layout = 0
			add(fmt.Sprintf("exhaustive-n%d", n), g, 0, false)
			if n >= 2 {
				// the same graph with its sources spread over several set variables
				layout = 1 + gi%(graphLayouts-1)
				add(fmt.Sprintf("exhaustive-n%d", n), g, 0, gi%7 == 3)
				if e.Tier == "thorough" || n == 2 {
					for l := 1; l < graphLayouts; l++ {
						if l != 1+gi%(graphLayouts-1) {
							layout = l
							add(fmt.Sprintf("exhaustive-n%d", n), g, 0, false)
						}
					}
				}
			}
		}
		layout = 0
	}
	rep.Exhaustive = false
	// random mixed-kind graphs
	kinds := []string{"func", "func", "struct", "field", "bind"}
	nrand := e.tierN(300, 3000)
	for i := 0; i < nrand; i++ {
		r := Rng(e.Seed, "c07rand", i)
		n := 4 + r.Intn(5)
		g := make([]GNode, n)
		density := []float64{0.08, 0.15, 0.3}[i%3]
		for u := 0; u < n; u++ {
			g[u].Kind = kinds[r.Intn(len(kinds))]
			for v := 0; v < n; v++ {
				if r.Float64() < density {
					g[u].Deps = append(g[u].Deps, v)
				}
			}
			if (g[u].Kind == "field" || g[u].Kind == "bind") && len(g[u].Deps) > 1 {
				g[u].Deps = g[u].Deps[:1]
			}
		}
		layout = i % graphLayouts
		add("random-mixed", g, r.Intn(n), i%5 == 4)
		layout = 0
	}
	// lassos: tail 0..5, cycle 1..5, root at every position, closing edge of each kind
	for tail := 0; tail <= 5; tail++ {
		for cyc := 1; cyc <= 5; cyc++ {
			for _, closeKind := range []string{"func", "struct", "field", "bind"} {
				n := tail + cyc
				g := make([]GNode, n)
				for u := 0; u < n; u++ {
					g[u].Kind = "func"
					if u+1 < n {
						g[u].Deps = []int{u + 1}
					}
				}
				g[n-1].Kind = closeKind
				g[n-1].Deps = []int{tail}
				roots := []int{0, n - 1, tail}
				if e.Tier == "thorough" {
					roots = nil
					for u := 0; u < n; u++ {
						roots = append(roots, u)
					}
				}
				seen := map[int]bool{}
				for _, root := range roots {
					if seen[root] {
						continue
					}
					seen[root] = true
					layout = (tail + cyc + root) % graphLayouts
					add("lasso-"+closeKind, g, root, false)
					layout = 0
				}
			}
		}
	}
	// disjoint components, cycle in the alphabetically last one
	for comps := 2; comps <= 4; comps++ {
		var g []GNode
		for c := 0; c < comps; c++ {
			base := len(g)
			g = append(g, GNode{Kind: "func", Deps: []int{base + 1}}, GNode{Kind: "func", Deps: []int{base + 2}}, GNode{Kind: "func"})
			if c == comps-1 {
				g[base+2].Deps = []int{base}
			}
		}
		for l := 0; l < graphLayouts; l++ {
			layout = l
			add("components", g, 0, false)
			add("components", g, 0, true)
		}
		layout = 0
	}
	gcsStructStart := len(gcs)
	_ = gcsStructStart
	// run the batched families
	var progs []*Program
	byID := map[string]*graphCase{}
	for _, gc := range gcs {
		progs = append(progs, gc.P)
		byID[gc.P.ID] = gc
	}
	results := RunPool(e, progs, PoolOpts{Name: "c07", BatchSize: 64, AlsoCheck: true, ExtraEnv: []string{"VERIF_STEP_CAP=400"}})
	for _, pr := range results {
		gc := byID[pr.P.ID]
		judgeGraph(rep, gc, pr)
	}
	// acyclic well-formed programs in which the planner's own table of visited types must agree
	// with the provider map on type identity (a type met under two spellings, an argument
	// reached under the other spelling): the planner re-queues a type it cannot find
	tprogs := append(spellingTwinsFamily(), permutedSignatureFamily()...)
	for _, pr := range RunPool(e, tprogs, PoolOpts{Name: "c07t", BatchSize: 64, AlsoCheck: true, ExtraEnv: []string{"VERIF_STEP_CAP=400"}}) {
		fam := "well-formed/" + pr.P.Feat["family"]
		switch {
		case pr.PreBad != "":
			rep.Incon = append(rep.Incon, "harness: "+pr.P.ID+": "+firstLine(pr.PreBad))
		case pr.Incon != "":
			rep.Incon = append(rep.Incon, pr.P.ID+": "+pr.Incon)
		case pr.Crash != "":
			clause := "crash"
			if strings.Contains(pr.Crash, "VERIF-STEP-CAP") {
				clause = "step cap exceeded: analysis did not terminate within its budget"
			}
			rep.Violate(pr.P.ID, Issue{Prop: "C07", Clause: clause, Witness: pr.Crash, Sig: "C07:" + clause + ":" + fam}, pr.P.Files(false), map[string]string{"wire_stderr.txt": pr.GenStderr})
		case strings.Contains(pr.GenStderr, "cycle for") && strings.Contains(pr.GenStderr, pr.P.ID+"/"):
			rep.Violate(pr.P.ID, Issue{Prop: "C07", Clause: "acyclic program reported as cyclic", Witness: tail(pr.GenStderr, 1500), Sig: "C07:false-cycle:" + fam}, pr.P.Files(false), map[string]string{"wire_stderr.txt": pr.GenStderr})
		default:
			rep.Count("acyclic_wellformed_programs_terminated", 1)
			rep.Held(fam + ";" + pr.P.Feat["cell"])
		}
	}
	// programs that are REFUSED for another reason (a provider removed: below a struct whose field
	// is selected, below a binding, anywhere) must be refused quickly too: the planner runs on
	// after the first failure and has to remember what it could not build
	var rprogs []*Program
	for i, p := range genPool(e, "c7r", e.tierN(30, 300), func(i int, o *GenOpts) {
		o.NInj = 1
		o.MinNodes, o.MaxNodes = 4+i%5, 8+i%9
		o.Kinds = []string{"func", "func", "parent", "parent", "struct", "bind", "value", "arg"}
	}) {
		for _, rc := range removalMutants(p, p.ID, 3, Rng(e.Seed, "c7rm", i)) {
			rprogs = append(rprogs, rc.P)
		}
	}
	for _, pr := range RunPool(e, rprogs, PoolOpts{Name: "c07r", BatchSize: 64, AlsoCheck: true, ExtraEnv: []string{"VERIF_STEP_CAP=2000"}}) {
		switch {
		case pr.PreBad != "":
			rep.Incon = append(rep.Incon, "harness: "+pr.P.ID+": "+firstLine(pr.PreBad))
		case pr.Incon != "":
			rep.Incon = append(rep.Incon, pr.P.ID+": "+pr.Incon)
		case pr.Crash != "":
			clause := "crash"
			if strings.Contains(pr.Crash, "VERIF-STEP-CAP") {
				clause = "step cap exceeded: analysis of a program with a missing provider did not terminate within its budget"
			}
			rep.Violate(pr.P.ID, Issue{Prop: "C07", Clause: clause, Witness: pr.Crash, Sig: "C07:" + clause + ":refused-programs"}, pr.P.Files(false), map[string]string{"wire_stderr.txt": pr.GenStderr})
		default:
			rep.Count("refused_programs_terminated", 1)
			rep.Held("refused-for-a-missing-provider;" + ProgSig(pr.P))
		}
	}
	// structured scaling families, one wire invocation each, with hook step counts
	scaling(e, rep)
	// an erroneous set below a lattice of set inclusions: the report must not repeat per path
	errorLattices(e, rep)
	// interface bindings that only lead to each other
	bindLoops(e, rep)
	rep.Assumptions = []string{"termination is claimed only as: every explored input finished within the hook step cap (400*(n+1)^2 loop iterations per activation) and within the linear budget 16*(V+E)+64 on the scaling families"}
	return rep.Finish(t0)
}

func judgeGraph(rep *Report, gc *graphCase, pr *ProgResult) {
	if pr.PreBad != "" {
		rep.Incon = append(rep.Incon, "harness: "+pr.P.ID+": "+firstLine(pr.PreBad)+" | "+secondLine(pr.PreBad))
		return
	}
	if pr.Incon != "" {
		rep.Incon = append(rep.Incon, pr.P.ID+": "+pr.Incon)
		return
	}
	if pr.Outcome == nil {
		pr.Outcome = &PkgOutcome{}
	}
	kinds := map[string]int{}
	for _, n := range gc.Nodes {
		kinds[n.Kind]++
	}
	sig := fmt.Sprintf("%s;n=%d;e=%d;kinds=%v;cyclic=%v;unref=%v", gc.Family, len(gc.Nodes), graphEdges(gc.Nodes), kinds, gc.Cyclic, gc.Unref)
	violate := func(clause, witness string) {
		files := pr.Files
		if files == nil {
			files = pr.P.Files(false)
		}
		rep.Violate(pr.P.ID, Issue{Prop: "C07", Clause: clause, Witness: witness, Sig: "C07:" + clause + ":" + gc.Family}, files,
			map[string]string{"graph.txt": fmt.Sprintf("%+v", gc.Nodes), "wire_stderr.txt": pr.GenStderr})
	}
	if pr.Crash != "" {
		if strings.Contains(pr.Crash, "VERIF-STEP-CAP") {
			violate("step cap exceeded: analysis did not terminate within its budget", pr.Crash)
		} else {
			violate("crash", pr.Crash)
		}
		return
	}
	var texts []string
	for _, d := range pr.Outcome.Diags {
		texts = append(texts, d.Text)
	}
	genText := strings.Join(texts, "\n")
	texts = nil
	for _, d := range pr.CheckDiags {
		texts = append(texts, d.Text)
	}
	chkText := strings.Join(texts, "\n")
	if gc.Cyclic {
		rep.Count("cyclic_graphs", 1)
	} else {
		rep.Count("acyclic_graphs", 1)
	}
	if !gc.Unref {
		if gc.GenCyclic {
			if pr.Outcome.Wrote || pr.GenFile != "" {
				violate("cyclic provider set accepted by gen", genText)
				return
			}
			if !strings.Contains(genText, "cycle") {
				violate("cyclic provider set rejected by gen without a cycle diagnostic", genText+"\n"+pr.GenStderr)
				return
			}
		} else if !pr.Outcome.Wrote || len(pr.Outcome.Diags) > 0 {
			violate("acyclic provider set rejected by gen", genText+"\n"+pr.GenStderr)
			return
		}
	}
	if pr.CheckRan {
		if gc.Cyclic && !strings.Contains(chkText, "cycle") {
			violate("cyclic provider set not reported as a cycle by check", chkText)
			return
		}
		if !gc.Cyclic && len(pr.CheckDiags) > 0 {
			violate("acyclic provider set rejected by check", chkText)
			return
		}
	}
	rep.Held(sig)
	if gc.Cyclic && len(rep.Samples) < 3 {
		rep.Sample(map[string]interface{}{"graph": fmt.Sprintf("%+v", gc.Nodes), "family": gc.Family, "diagnostic": firstN(genText+chkText, 400)})
	}
}

// scaling runs lattices, chains and fan-outs one per invocation and compares hook
// step counts with a linear budget and across sizes.
func scaling(e *Env, rep *Report) {
	type sc struct {
		family string
		size   int
		nodes  []GNode
		// prog, when set, builds the program instead of graphProgram(nodes); v and e are its size
		prog func(id string) *Program
		v, e int
	}
	// a chain of interface bindings In -> ... -> I1 -> *T, listed from the concrete end or from
	// the far end; the injector needs In only, so every other binding counts as used only
	// because the one above it is
	bindChain := func(n int, reversed bool) func(id string) *Program {
		return func(id string) *Program {
			b := NewPB(id, "app")
			t := b.NamedOf(0, "T", StructOf(FieldT{Name: "X", Ty: Basic("int")}), "none")
			t.Decl.Methods = append(t.Decl.Methods, Method{Name: "M", PtrRecv: true})
			f := b.Func(0, "NewT", PtrTo(t), false, false)
			f.Stub = true
			prev := PtrTo(t)
			var binds []Ref
			for k := 1; k <= n; k++ {
				ik := Named(b.P.NewDecl(0, fmt.Sprintf("I%d", k), &Ty{K: "iface", Meths: []string{"M"}, Params: []*Ty{PtrTo(t)}}, "iface"))
				binds = append(binds, ItemRef(b.Bind(ik, prev).ID))
				prev = ik
			}
			if reversed {
				for i, j := 0, len(binds)-1; i < j; i, j = i+1, j-1 {
					binds[i], binds[j] = binds[j], binds[i]
				}
			}
			// listed in wire.Build itself: only there is every item checked for being used
			b.Inj("Init", prev, false, false, nil, append([]Ref{ItemRef(f.ID)}, binds...)...)
			return b.P
		}
	}
	var cases []sc
	lattice := func(depth int) []GNode {
		// level i has two nodes (2i, 2i+1), each depending on both nodes of level i+1; 2^depth paths
		var g []GNode
		for i := 0; i < depth; i++ {
			g = append(g, GNode{Kind: "func", Deps: []int{2*i + 2, 2*i + 3}}, GNode{Kind: "func", Deps: []int{2*i + 2, 2*i + 3}})
		}
		g = append(g, GNode{Kind: "func"}, GNode{Kind: "func"})
		return g
	}
	// lattices whose edges go through struct providers, interface bindings and field providers
	latticeStruct := func(depth int) []GNode {
		var g []GNode
		for i := 0; i < depth; i++ {
			g = append(g, GNode{Kind: "struct", Deps: []int{2*i + 2, 2*i + 3}}, GNode{Kind: "struct", Deps: []int{2*i + 2, 2*i + 3}})
		}
		return append(g, GNode{Kind: "func"}, GNode{Kind: "func"})
	}
	// level i: nodes 4i (bind->4i+2), 4i+1 (bind->4i+3), 4i+2 and 4i+3 (func needing both binds of level i+1)
	latticeVia := func(kind string, depth int) []GNode {
		var g []GNode
		for i := 0; i < depth; i++ {
			next := []int{4*i + 4, 4*i + 5}
			g = append(g, GNode{Kind: kind, Deps: []int{4*i + 2}}, GNode{Kind: kind, Deps: []int{4*i + 3}},
				GNode{Kind: "func", Deps: next}, GNode{Kind: "func", Deps: next})
		}
		// bottom level: two plain leaves standing for the last pair
		return append(g, GNode{Kind: "func"}, GNode{Kind: "func"})
	}
	depths := []int{5, 10, 20, 40}
	chains := []int{50, 200}
	if e.Tier == "thorough" {
		depths = []int{5, 10, 20, 40, 80}
		chains = []int{50, 200, 1000}
	}
	for _, d := range depths {
		cases = append(cases, sc{family: "lattice", size: d, nodes: lattice(d)})
		if d <= 20 || e.Tier == "thorough" {
			cases = append(cases, sc{family: "lattice-struct", size: d, nodes: latticeStruct(d)}, sc{family: "lattice-bind", size: d, nodes: latticeVia("bind", d)}, sc{family: "lattice-field", size: d, nodes: latticeVia("field", d)})
		}
	}
	for _, n := range chains {
		g := make([]GNode, n)
		for u := 0; u < n; u++ {
			g[u].Kind = "func"
			if u+1 < n {
				g[u].Deps = []int{u + 1}
			}
		}
		cases = append(cases, sc{family: "chain", size: n, nodes: g})
	}
	{
		g := []GNode{{Kind: "struct"}}
		for i := 1; i <= 50; i++ {
			g[0].Deps = append(g[0].Deps, i)
			g = append(g, GNode{Kind: "func"})
		}
		cases = append(cases, sc{family: "fanout", size: 50, nodes: g})
	}
	for _, n := range chains {
		if n > 200 {
			n = 400
		}
		cases = append(cases, sc{family: "bind-chain", size: n, prog: bindChain(n, false), v: n + 1, e: n},
			sc{family: "bind-chain-listed-backwards", size: n, prog: bindChain(n, true), v: n + 1, e: n})
	}
	type obs struct {
		solve, acyclic int
	}
	seen := map[string]map[int]obs{}
	results := make([]struct {
		res   *CmdResult
		steps map[string]int
	}, len(cases))
	e.ParallelDo(len(cases), func(i int) {
		c := cases[i]
		var p *Program
		if c.prog != nil {
			p = c.prog(fmt.Sprintf("sc_%s%d", c.family, c.size))
		} else {
			p = graphProgram(fmt.Sprintf("sc_%s%d", c.family, c.size), c.nodes, 0, false)
		}
		res, steps, _ := runSolo(e, p, "gen")
		results[i].res, results[i].steps = res, steps
	})
	for i, c := range cases {
		res, steps := results[i].res, results[i].steps
		var p *Program
		if c.prog != nil {
			p = c.prog(fmt.Sprintf("sc_%s%d", c.family, c.size))
		} else {
			p = graphProgram(fmt.Sprintf("sc_%s%d", c.family, c.size), c.nodes, 0, false)
		}
		name := fmt.Sprintf("%s-%d", c.family, c.size)
		sig := "scaling;" + name
		if res.TimedOut {
			rep.Incon = append(rep.Incon, "watchdog on "+name+" without a step-cap event")
			continue
		}
		if strings.Contains(res.Stderr, "VERIF-STEP-CAP") {
			rep.Violate("sc_"+name, Issue{Prop: "C07", Clause: "step cap exceeded on " + c.family + " (work grows with the number of paths, or no termination)", Witness: tail(res.Stderr, 500), Sig: "C07:stepcap:" + c.family}, p.Files(false), nil)
			continue
		}
		if res.Crashed() {
			rep.Violate("sc_"+name, Issue{Prop: "C07", Clause: "crash on " + name, Witness: tail(res.Stderr, 2000), Sig: "C07:crash:" + c.family}, p.Files(false), nil)
			continue
		}
		if res.Exit != 0 {
			rep.Violate("sc_"+name, Issue{Prop: "C07", Clause: "acyclic " + name + " rejected", Witness: tail(res.Stderr, 2000), Sig: "C07:rejected:" + c.family}, p.Files(false), nil)
			continue
		}
		if !e.Hooked || len(steps) == 0 {
			rep.Incon = append(rep.Incon, "hook log empty for "+name+" (hooks not active)")
			continue
		}
		V, E := len(c.nodes), graphEdges(c.nodes)
		if c.prog != nil {
			V, E = c.v, c.e
		}
		budget := 16*(V+E) + 64
		rep.Count("hook_steps_solve_"+name, steps["solve"])
		rep.Count("hook_steps_acyclic_"+name, steps["acyclic"])
		rep.Count("hook_steps_used_"+name, steps["used"])
		if steps["solve"] > budget || steps["acyclic"] > budget || steps["used"] > budget {
			rep.Violate("sc_"+name, Issue{Prop: "C07", Clause: fmt.Sprintf("analysis work not linear in graph size on %s: solve=%d acyclic=%d used=%d steps, budget %d for V=%d E=%d", name, steps["solve"], steps["acyclic"], steps["used"], budget, V, E), Sig: "C07:budget:" + c.family}, p.Files(false), nil)
			continue
		}
		if seen[c.family] == nil {
			seen[c.family] = map[int]obs{}
		}
		seen[c.family][c.size] = obs{steps["solve"], steps["acyclic"]}
		rep.Held(sig)
		rep.Sample(map[string]interface{}{"family": name, "V": V, "E": E, "solve_steps": steps["solve"], "acyclic_steps": steps["acyclic"], "budget": budget})
	}
	// doubling clause on lattices
	for _, fam := range []string{"lattice", "lattice-struct", "lattice-bind", "lattice-field"} {
		for d, o := range seen[fam] {
			if o2, ok := seen[fam][2*d]; ok {
				if o2.solve > 3*o.solve+16 || o2.acyclic > 3*o.acyclic+16 {
					rep.Violations = append(rep.Violations, Issue{Prop: "C07", Clause: fmt.Sprintf("steps more than triple when %s depth doubles %d->%d: solve %d->%d acyclic %d->%d", fam, d, 2*d, o.solve, o2.solve, o.acyclic, o2.acyclic), Witness: "(no bundle)", Sig: "C07:doubling"})
				}
			}
		}
	}
}

// errorLattices: a leaf set that is in error (a cycle, two providers of one type, a binding
// without a provider) sits under d levels of set variables, every level including both sets
// of the level below, so the leaf is reached along 2^d inclusion paths. Observed: the number
// of diagnostic lines wire prints (never time). It has to stay within a linear budget and must
// not more than triple when d doubles.
func errorLattices(e *Env, rep *Report) {
	leaves := []struct{ name, src string }{
		{"cycle", "func NewA(B) A { return A{} }\nfunc NewB(A) B { return B{} }\n\nvar Leaf = wire.NewSet(NewA, NewB)\n"},
		{"two-providers", "func NewA() A { return A{} }\nfunc OtherA() A { return A{} }\n\nvar Leaf = wire.NewSet(NewA, OtherA)\n"},
		{"binding-without-provider", "type I interface{ M() }\n\nfunc (B) M() {}\n\nfunc NewA(I) A { return A{} }\n\nvar Leaf = wire.NewSet(NewA, wire.Bind(new(I), new(B)))\n"},
	}
	depths := []int{4, 8, 16}
	type job struct {
		leaf  int
		depth int
		cmd   string
	}
	var jobs []job
	for li := range leaves {
		for _, d := range depths {
			jobs = append(jobs, job{li, d, "check"}, job{li, d, "gen"})
		}
	}
	lines := make([]int, len(jobs))
	res := make([]*CmdResult, len(jobs))
	progs := make([]*Program, len(jobs))
	e.ParallelDo(len(jobs), func(i int) {
		j := jobs[i]
		var src strings.Builder
		src.WriteString("package app\n\nimport \"github.com/google/wire\"\n\ntype A struct{}\ntype B struct{}\n\n" + leaves[j.leaf].src)
		src.WriteString("\nvar L0a = wire.NewSet(Leaf)\nvar L0b = wire.NewSet(Leaf)\n")
		for k := 1; k <= j.depth; k++ {
			fmt.Fprintf(&src, "var L%da = wire.NewSet(L%da, L%db)\nvar L%db = wire.NewSet(L%da, L%db)\n", k, k-1, k-1, k, k-1, k-1)
		}
		p := &Program{ID: fmt.Sprintf("el_%s_%d_%s", leaves[j.leaf].name, j.depth, j.cmd), Module: ModulePath, Extra: map[string]string{}, Feat: map[string]string{}, RawDriver: true}
		p.Pkgs = []*Pkg{{Name: "app", Dir: "app"}}
		p.Extra["0/sets.go"] = src.String()
		p.Extra["0/wire.go"] = fmt.Sprintf("//go:build wireinject\n// +build wireinject\n\npackage app\n\nimport \"github.com/google/wire\"\n\nfunc Init() A {\n\tpanic(wire.Build(L%da))\n}\n", j.depth)
		progs[i] = p
		r, _, _ := runSolo(e, p, j.cmd)
		res[i] = r
		lines[i] = strings.Count(r.Stderr, "\n")
	})
	byKey := map[string]int{}
	for i, j := range jobs {
		name := fmt.Sprintf("error-lattice/%s/%s/depth=%d", leaves[j.leaf].name, j.cmd, j.depth)
		fam := fmt.Sprintf("error-lattice/%s/%s", leaves[j.leaf].name, j.cmd)
		r := res[i]
		rep.Count("diagnostic_lines_"+name, lines[i])
		switch {
		case r.TimedOut:
			rep.Incon = append(rep.Incon, "watchdog on "+name)
			continue
		case strings.Contains(r.Stderr, "VERIF-STEP-CAP"):
			rep.Violate(progs[i].ID, Issue{Prop: "C07", Clause: "step cap exceeded on " + fam, Witness: tail(r.Stderr, 500), Sig: "C07:stepcap:" + fam}, progs[i].Files(false), nil)
			continue
		case r.Crashed():
			rep.Violate(progs[i].ID, Issue{Prop: "C07", Clause: "crash on " + name, Witness: tail(r.Stderr, 2000), Sig: "C07:crash:" + fam}, progs[i].Files(false), nil)
			continue
		case r.Exit == 0:
			rep.Violate(progs[i].ID, Issue{Prop: "C07", Clause: "erroneous leaf set accepted under " + name, Witness: tail(r.Stderr, 500), Sig: "C07:accepted:" + fam}, progs[i].Files(false), nil)
			continue
		}
		// every set of every level may report a bounded number of diagnostics of its own
		budget := 64 * (j.depth + 2)
		if lines[i] > budget {
			rep.Violate(progs[i].ID, Issue{Prop: "C07", Clause: fmt.Sprintf("report grows with the number of inclusion paths on %s: %d diagnostic lines, budget %d", name, lines[i], budget), Witness: firstN(r.Stderr, 1500), Sig: "C07:error-lattice:" + fam}, progs[i].Files(false), nil)
			continue
		}
		byKey[fmt.Sprintf("%s/%d", fam, j.depth)] = lines[i]
		if half, ok := byKey[fmt.Sprintf("%s/%d", fam, j.depth/2)]; ok && lines[i] > 3*half+16 {
			rep.Violate(progs[i].ID, Issue{Prop: "C07", Clause: fmt.Sprintf("diagnostic lines more than triple when the depth doubles on %s: %d -> %d", name, half, lines[i]), Witness: firstN(r.Stderr, 1500), Sig: "C07:error-lattice-doubling:" + fam}, progs[i].Files(false), nil)
			continue
		}
		rep.Held(name)
	}
}

// bindLoops: sets in which interface bindings lead only to other bindings and never reach a
// provided type - a loop of two or three, a loop with a tail leading into it, two tails, a
// binding chain to nowhere. No such set can be accepted; wire has to say so and terminate
// (decided on the hook step cap and the CPU-time cap of the wire process, never on wall-clock
// time).
func bindLoops(e *Env, rep *Report) {
	shapes := []struct {
		name  string
		n     int
		edges [][2]int // Bind(I<a>, I<b>)
	}{
		{"loop-of-two", 2, [][2]int{{0, 1}, {1, 0}}},
		{"loop-of-three", 3, [][2]int{{0, 1}, {1, 2}, {2, 0}}},
		{"tail-into-loop-of-two", 3, [][2]int{{0, 1}, {1, 2}, {2, 1}}},
		{"tail-into-loop-of-two-listed-last", 3, [][2]int{{1, 2}, {2, 1}, {0, 1}}},
		{"long-tail-into-loop-of-three", 6, [][2]int{{0, 1}, {1, 2}, {2, 3}, {3, 4}, {4, 5}, {5, 3}}},
		{"two-tails-into-one-loop", 4, [][2]int{{0, 2}, {1, 2}, {2, 3}, {3, 2}}},
		{"tail-to-nowhere", 3, [][2]int{{0, 1}, {1, 2}}},
	}
	type job struct {
		shape int
		cmd   string
		used  bool
	}
	var jobs []job
	for si := range shapes {
		jobs = append(jobs, job{si, "check", false}, job{si, "check", true}, job{si, "gen", true})
	}
	res := make([]*CmdResult, len(jobs))
	progs := make([]*Program, len(jobs))
	e.ParallelDo(len(jobs), func(i int) {
		j := jobs[i]
		sh := shapes[j.shape]
		var src strings.Builder
		src.WriteString("package app\n\nimport \"github.com/google/wire\"\n\ntype A struct{}\n\nfunc NewA() A { return A{} }\n\n")
		for k := 0; k < sh.n; k++ {
			fmt.Fprintf(&src, "type I%d interface{ M() }\n", k)
		}
		src.WriteString("\nvar Loop = wire.NewSet(\n")
		for _, ed := range sh.edges {
			fmt.Fprintf(&src, "\twire.Bind(new(I%d), new(I%d)),\n", ed[0], ed[1])
		}
		src.WriteString(")\n")
		p := &Program{ID: fmt.Sprintf("bl_%s_%s_%v", sh.name, j.cmd, j.used), Module: ModulePath, Extra: map[string]string{}, Feat: map[string]string{}, RawDriver: true}
		p.Pkgs = []*Pkg{{Name: "app", Dir: "app"}}
		p.Extra["0/sets.go"] = src.String()
		inj := "func Init() A {\n\tpanic(wire.Build(NewA))\n}\n"
		if j.used {
			inj = "func Init() I0 {\n\tpanic(wire.Build(Loop))\n}\n"
		}
		p.Extra["0/wire.go"] = "//go:build wireinject\n// +build wireinject\n\npackage app\n\nimport \"github.com/google/wire\"\n\n" + inj
		progs[i] = p
		r, _, _ := runSolo(e, p, j.cmd)
		res[i] = r
	})
	for i, j := range jobs {
		sh := shapes[j.shape]
		name := fmt.Sprintf("bind-loop/%s/%s/used=%v", sh.name, j.cmd, j.used)
		fam := "bind-loop/" + sh.name
		r := res[i]
		switch {
		case strings.Contains(r.Stderr, "VERIF-STEP-CAP"):
			rep.Violate(progs[i].ID, Issue{Prop: "C07", Clause: "no termination within the step / CPU-time budget on " + fam, Witness: tail(r.Stderr, 500), Sig: "C07:stepcap:" + fam}, progs[i].Files(false), nil)
		case r.TimedOut:
			rep.Incon = append(rep.Incon, "watchdog on "+name)
		case r.Crashed():
			rep.Violate(progs[i].ID, Issue{Prop: "C07", Clause: "crash on " + name, Witness: tail(r.Stderr, 2000), Sig: "C07:crash:" + fam}, progs[i].Files(false), nil)
		case r.Exit == 0:
			rep.Violate(progs[i].ID, Issue{Prop: "C07", Clause: "bindings that never reach a provided type were accepted: " + name, Witness: tail(r.Stderr, 500), Sig: "C07:accepted:" + fam}, progs[i].Files(false), nil)
		case !strings.Contains(r.Stderr, "wire: "):
			rep.Violate(progs[i].ID, Issue{Prop: "C07", Clause: "rejected without a diagnostic: " + name, Witness: tail(r.Stderr, 500), Sig: "C07:silent:" + fam}, progs[i].Files(false), nil)
		default:
			rep.Count("bind_loops_rejected", 1)
			rep.Held(name)
		}
	}
}
