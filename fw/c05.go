package fw

import (
	"fmt"
	"math/rand"
	"strings"
	"time"
)

// c05 source kinds
var c05Kinds = []string{"func", "structV", "structP", "value", "ifacevalue", "bind", "bindSame", "bindVia", "fieldV", "fieldP", "arg"}

// classes of the contested type and the kinds that can provide each
var c05Classes = map[string][]string{
	"S":    {"func", "structV", "value", "fieldV", "arg"},
	"PS":   {"func", "structP", "value", "fieldV", "fieldP", "arg"},
	"I":    {"func", "ifacevalue", "bind", "bindSame", "bindVia", "fieldV", "arg"},
	"COMP": {"func", "value", "fieldV", "arg"},
	// SPELL: one type written in two spellings ([]byte / []uint8, rune / int32, any / interface{})
	"SPELL": {"func", "value", "fieldV", "arg"},
}

var c05ClassOrder = []string{"S", "PS", "I", "COMP", "SPELL"}

type c05T struct {
	class  string
	T      *Ty   // the contested type
	alt    *Ty   // alias spelling (identical type), may be nil
	S      *Ty   // for S/PS: the named struct
	impls  []*Ty // for I: implementations created so far
	method string
}

// c05Type creates the contested type in package pkg.
func c05Type(b *PB, class string, pkg int, withAlias bool) *c05T {
	ct := &c05T{class: class}
	switch class {
	case "S":
		ct.S = b.NamedOf(pkg, "Contested", StructOf(FieldT{Name: "X", Ty: Basic("int")}), "none")
		ct.T = ct.S
	case "PS":
		ct.S = b.NamedOf(pkg, "Contested", StructOf(FieldT{Name: "X", Ty: Basic("int")}), "none")
		ct.T = PtrTo(ct.S)
	case "I":
		ct.method = "ContestedMethod"
		ct.T = Named(b.P.NewDecl(pkg, "Contested", &Ty{K: "iface", Meths: []string{ct.method}, Params: []*Ty{Basic("int")}}, "iface"))
	case "COMP":
		el := b.NamedOf(pkg, "Elem", StructOf(FieldT{Name: "X", Ty: Basic("int")}), "none")
		ct.T = []*Ty{SliceOf(el), MapOf(Basic("string"), el), ArrayOf(3, el), ChanOf("", el), FuncRet(el), StructOf(FieldT{Name: "E", Ty: el})}[b.next()%6]
	case "SPELL":
		pairs := [][2]*Ty{
			{SliceOf(Basic("byte")), SliceOf(Basic("uint8"))},
			{MapOf(Basic("string"), Basic("rune")), MapOf(Basic("string"), Basic("int32"))},
			{SliceOf(Basic("any")), SliceOf(&Ty{K: "iface"})},
			{ArrayOf(2, Basic("uint8")), ArrayOf(2, Basic("byte"))},
			{PtrTo(Basic("int32")), PtrTo(Basic("rune"))},
			{MapOf(Basic("byte"), &Ty{K: "iface"}), MapOf(Basic("uint8"), Basic("any"))},
		}
		pr := pairs[b.next()%len(pairs)]
		ct.T, ct.alt = pr[0], pr[1]
		return ct
	}
	if withAlias {
		a := b.P.NewDecl(pkg, "AliasOfContested", ct.T, "")
		a.Alias = true
		ct.alt = Named(a)
	}
	return ct
}

// zeroExpr spells a call-free expression of type t for wire.Value.
func zeroExprFor(t *Ty, ref func(*Ty) string) (string, bool) {
	switch t.K {
	case "named":
		if t.Decl.Alias {
			return zeroExprFor(t.Decl.Under, ref)
		}
		if t.Underlying().K == "struct" {
			return ref(t) + "{}", true
		}
	case "ptr":
		if t.Elem.K == "named" && t.Elem.Underlying().K == "struct" {
			return "&" + ref(t.Elem) + "{}", true
		}
	case "slice", "map", "array", "struct":
		return ref(t) + "{}", true
	case "chan", "func":
		return "(" + ref(t) + ")(nil)", true
	}
	return "", false
}

// typeRefTemplate renders a type expression with %P<n>% placeholders.
func typeRefTemplate(p *Program, t *Ty, pkgs map[int]bool) string {
	c := &fileCtx{p: p, pkg: -2, imports: map[string]string{}, names: map[string]bool{}}
	_ = c
	var r func(t *Ty) string
	r = func(t *Ty) string {
		switch t.K {
		case "named":
			pkgs[t.Decl.Pkg] = true
			return fmt.Sprintf("%%P%d%%%s", t.Decl.Pkg, t.Decl.Name)
		case "basic":
			return t.Name
		case "ptr":
			return "*" + r(t.Elem)
		case "slice":
			return "[]" + r(t.Elem)
		case "array":
			return fmt.Sprintf("[%d]%s", t.N, r(t.Elem))
		case "map":
			return "map[" + r(t.MapKey) + "]" + r(t.Elem)
		case "chan":
			d := t.Dir
			if d == "" {
				d = "chan"
			}
			return d + " " + r(t.Elem)
		case "func":
			return "func() " + r(t.Elem)
		case "struct":
			s := "struct{ "
			for i, f := range t.Fields {
				if i > 0 {
					s += "; "
				}
				s += f.Name + " " + r(f.Ty)
			}
			return s + " }"
		}
		return "BAD"
	}
	return r(t)
}

// valueItemFor makes a wire.Value item providing t via a call-free zero expression.
func valueItemFor(b *PB, t *Ty) *Item {
	pkgs := map[int]bool{}
	expr, ok := zeroExprFor(t, func(x *Ty) string { return typeRefTemplate(b.P, x, pkgs) })
	if !ok {
		return nil
	}
	it := b.P.AddItem(&Item{Kind: KValue, Out: t, Expr: expr})
	for k := range pkgs {
		it.ExprPkgs = append(it.ExprPkgs, k)
	}
	return it
}

// c05Source creates a source of the given kind for spelled type t (identical to ct.T).
// It returns the contested item (nil for arg) and support items.
func c05Source(b *PB, ct *c05T, kind string, t *Ty, pkg int) (main *Item, support []*Item, ok bool) {
	stub := func(out *Ty, params ...*Ty) *Item {
		it := b.Func(pkg, "", out, false, false, params...)
		it.Stub = true
		return it
	}
	switch kind {
	case "func":
		return stub(t), nil, true
	case "structV", "structP":
		return b.Struct(ct.S, false), nil, true
	case "value":
		it := valueItemFor(b, t)
		return it, nil, it != nil
	case "ifacevalue":
		impl := b.NamedOf(pkg, fmt.Sprintf("Impl%d", b.next()), StructOf(FieldT{Name: "X", Ty: Basic("int")}), "none")
		impl.Decl.Methods = append(impl.Decl.Methods, Method{Name: ct.method})
		pkgs := map[int]bool{}
		expr := typeRefTemplate(b.P, impl, pkgs) + "{}"
		it := b.P.AddItem(&Item{Kind: KIfaceValue, Iface: t, Concrete: impl, Expr: expr, ExprPkgs: []int{pkg}})
		return it, nil, true
	case "bind":
		impl := b.NamedOf(pkg, fmt.Sprintf("Impl%d", b.next()), StructOf(FieldT{Name: "X", Ty: Basic("int")}), "none")
		impl.Decl.Methods = append(impl.Decl.Methods, Method{Name: ct.method})
		ct.impls = append(ct.impls, impl)
		return b.Bind(t, impl), []*Item{stub(impl)}, true
	case "bindSame":
		// a second binding of the interface to the SAME concrete type an earlier binding used
		// (its provider is the earlier source's; only where the enclosing set includes it)
		if len(ct.impls) == 0 {
			return nil, nil, false
		}
		return b.Bind(t, ct.impls[0]), nil, true
	case "bindVia":
		// the interface is bound to another interface, which a binding listed later in the
		// same group binds to a struct: the first binding can only be resolved after the second
		impl := b.NamedOf(pkg, fmt.Sprintf("Impl%d", b.next()), StructOf(FieldT{Name: "X", Ty: Basic("int")}), "none")
		impl.Decl.Methods = append(impl.Decl.Methods, Method{Name: ct.method})
		mid := Named(b.P.NewDecl(pkg, fmt.Sprintf("Mid%d", b.next()), &Ty{K: "iface", Meths: []string{ct.method}, Params: []*Ty{Basic("int")}}, "iface"))
		return b.Bind(t, mid), []*Item{stub(impl), b.Bind(mid, impl)}, true
	case "fieldV":
		par := b.NamedOf(pkg, fmt.Sprintf("Parent%d", b.next()), StructOf(FieldT{Name: "Fld", Ty: t}), "none")
		return b.Fields(par, "Fld"), []*Item{stub(par)}, true
	case "fieldP":
		// t is *S: the field has type S and the parent is provided as a pointer
		if t.Underlying().K != "ptr" && !(t.K == "named" && t.Decl.Alias) {
			return nil, nil, false
		}
		par := b.NamedOf(pkg, fmt.Sprintf("Parent%d", b.next()), StructOf(FieldT{Name: "Fld", Ty: ct.S}), "none")
		return b.Fields(PtrTo(par), "Fld"), []*Item{stub(PtrTo(par))}, true
	case "arg":
		return nil, nil, true
	}
	return nil, nil, false
}

var c05Placements = []string{"direct", "nested+direct", "siblings", "otherpkg+direct", "unused-var(check)", "unneeded-part", "inline+direct", "two-levels+direct", "inline-siblings"}

// c05Case builds the conflict program and its control twin for one cell.
func c05Case(id string, k1, k2, class, placement string, alias bool) (mut, ctl *Program, name string, ok bool) {
	build := func(withSecond bool) (*Program, string, bool) {
		b := NewPB(id, "app", "libq")
		if !withSecond {
			b.P.ID = id + "c"
		}
		tpkg := 0
		if placement == "otherpkg+direct" {
			tpkg = 1
		}
		ct := c05Type(b, class, tpkg, alias)
		t1 := ct.T
		t2 := ct.T
		if alias || class == "SPELL" {
			t2 = ct.alt
		}
		pkg1, pkg2 := 0, 0
		if placement == "otherpkg+direct" {
			pkg1 = 1
		}
		m1, sup1, ok1 := c05Source(b, ct, k1, t1, pkg1)
		if !ok1 {
			return nil, "", false
		}
		var m2 *Item
		var sup2 []*Item
		if withSecond {
			var ok2 bool
			m2, sup2, ok2 = c05Source(b, ct, k2, t2, pkg2)
			if !ok2 {
				return nil, "", false
			}
		}
		var params []Param
		// every other cell spells its parameters "_"
		num := strings.TrimSuffix(id, "c")
		blank := len(num) > 0 && (num[len(num)-1]-'0')%2 == 1
		pname := func(n string) string {
			if blank {
				return "_"
			}
			return n
		}
		if k1 == "arg" {
			params = append(params, Param{Name: pname("a1"), Ty: t1})
		}
		if withSecond && k2 == "arg" {
			params = append(params, Param{Name: pname("a2"), Ty: t2})
		}
		g1 := refs(sup1...)
		if m1 != nil {
			g1 = append(g1, ItemRef(m1.ID))
		}
		g2 := refs(sup2...)
		if m2 != nil {
			g2 = append(g2, ItemRef(m2.ID))
		}
		// the binding that has to wait is listed before the one it waits for
		if k1 == "bindVia" {
			g1 = append([]Ref{ItemRef(m1.ID)}, refs(sup1...)...)
		}
		if withSecond && k2 == "bindVia" {
			g2 = append([]Ref{ItemRef(m2.ID)}, refs(sup2...)...)
		}
		// an unrelated needed provider, for the unneeded-part placement
		other := b.Carrier(0, "Other")
		otherF := b.Func(0, "NewOther", other, false, false)
		otherF.Stub = true
		result := ct.T
		wantOther := false
		var bl []Ref
		switch placement {
		case "direct":
			bl = append(append(bl, g1...), g2...)
		case "nested+direct", "otherpkg+direct", "inline+direct", "two-levels+direct":
			wrap := func(pkg int, name string, g []Ref) Ref {
				s := b.Set(pkg, name, g...)
				s.Inline = placement == "inline+direct"
				if placement == "two-levels+direct" {
					outer := b.Set(pkg, name+"Outer", SetRef(s.ID))
					return SetRef(outer.ID)
				}
				return SetRef(s.ID)
			}
			if len(g1) == 0 {
				// arg cannot be nested: nest the second instead
				if len(g2) == 0 {
					return nil, "", false
				}
				bl = append(bl, wrap(pkg2, "SetB", g2))
			} else {
				bl = append(bl, wrap(pkg1, "SetA", g1))
				bl = append(bl, g2...)
			}
		case "siblings", "inline-siblings":
			if len(g1) == 0 || (withSecond && len(g2) == 0) || k2 == "bindSame" {
				return nil, "", false
			}
			s1 := b.Set(0, "SetA", g1...)
			s1.Inline = placement == "inline-siblings"
			bl = append(bl, SetRef(s1.ID))
			if withSecond {
				// the second set also holds something the injector needs, so that it is "used"
				s2 := b.Set(0, "SetB", append(append([]Ref{}, g2...), ItemRef(otherF.ID))...)
				s2.Inline = placement == "inline-siblings"
				bl = append(bl, SetRef(s2.ID))
				wantOther = true
			}
		case "unused-var(check)":
			if k1 == "arg" || k2 == "arg" {
				return nil, "", false
			}
			b.Set(0, "TopLevel", append(append([]Ref{}, g1...), g2...)...)
			// an unrelated injector keeps the package a normal wire package
			b.Inj("InitOther", other, false, false, nil, ItemRef(otherF.ID))
			if class == "SPELL" {
				return b.P, DiagName(b.P, ct.T) + "|" + DiagName(b.P, ct.alt), true
			}
			return b.P, ct.T.Key(b.P), true
		case "unneeded-part":
			all := append(append([]Ref{ItemRef(otherF.ID)}, g1...), g2...)
			if len(g1)+len(g2) == 0 {
				return nil, "", false
			}
			s := b.Set(0, "SetAll", all...)
			bl = append(bl, SetRef(s.ID))
			result = other
		}
		if placement != "unneeded-part" && class == "PS" && (k1 == "fieldP") && !withSecond {
			// fine: control needs *S from the field provider
		}
		if wantOther {
			// result := User(T, Other)
			u := b.Carrier(0, "User")
			fu := b.Func(0, "NewUser", u, false, false, ct.T, other)
			fu.Stub = true
			bl = append(bl, ItemRef(fu.ID))
			result = u
		}
		b.Inj("Init", result, false, false, params, bl...)
		if class == "SPELL" {
			// wire may print either spelling of the one type
			return b.P, DiagName(b.P, ct.T) + "|" + DiagName(b.P, ct.alt), true
		}
		return b.P, DiagName(b.P, ct.T), true
	}
	mut, name, ok = build(true)
	if !ok {
		return nil, nil, "", false
	}
	ctl, _, ok = build(false)
	if !ok {
		return nil, nil, "", false
	}
	return mut, ctl, name, true
}

// c05TwoPaths: one set reached along two paths.
func c05TwoPaths(id string, variant int) (*Program, *Program, string) {
	mk := func(dup bool) (*Program, string) {
		b := NewPB(id, "app", "libq")
		if !dup {
			b.P.ID = id + "c"
		}
		t := b.Carrier(variant%2, "Shared")
		f := b.Func(variant%2, "NewShared", t, false, false)
		f.Stub = true
		u := b.Carrier(0, "User")
		fu := b.Func(0, "NewUser", u, false, false, t)
		fu.Stub = true
		c := b.Set(variant%2, "Common", ItemRef(f.ID))
		a := b.Set(0, "SetA", SetRef(c.ID))
		var bl []Ref
		switch variant / 2 {
		case 0: // Build(A, B) both including Common
			bb := b.Set(0, "SetB", SetRef(c.ID))
			bl = []Ref{SetRef(a.ID), ItemRef(fu.ID)}
			if dup {
				bl = append(bl, SetRef(bb.ID))
			}
		case 1: // Build(A, Common)
			bl = []Ref{SetRef(a.ID), ItemRef(fu.ID)}
			if dup {
				bl = append(bl, SetRef(c.ID))
			}
		case 2: // the same provider listed twice
			bl = []Ref{SetRef(a.ID), ItemRef(fu.ID)}
			if dup {
				bl = append(bl, ItemRef(f.ID))
			}
		case 3: // the same named set listed twice
			bl = []Ref{SetRef(a.ID), ItemRef(fu.ID)}
			if dup {
				bl = append(bl, SetRef(a.ID))
			}
		}
		b.Inj("Init", u, false, false, nil, bl...)
		return b.P, DiagName(b.P, t)
	}
	m, n := mk(true)
	c, _ := mk(false)
	return m, c, n
}

// CheckC05 — ambiguous provider sets are rejected.
func CheckC05(e *Env) int {
	t0 := time.Now()
	rep := NewReport(e, "C05", "exploration", "enumerated matrix: every feasible unordered pair of the nine source kinds providing identical types x placement x type-identity form, each program alone in its package with an accepted control twin; oracle: no output, package reported failed, a 'multiple bindings' diagnostic naming the type; distinct = matrix cell (kind pair, class, placement, alias form)")
	r := Rng(e.Seed, "c05", 0)
	var cases []*RejectCase
	n := 0
	cellsSeen := map[string]bool{}
	infeasible := 0
	for _, class := range c05ClassOrder {
		kinds := c05Classes[class]
		for i := 0; i < len(kinds); i++ {
			for j := i; j < len(kinds); j++ {
				k1, k2 := kinds[i], kinds[j]
				placements := c05Placements
				aliasForms := []bool{false, true}
				if (k1 == "bindSame") != (k2 == "bindSame") && !(k1 == "bind" || k2 == "bind") {
					continue // a re-binding needs an earlier binding
				}
				if k1 == "bindSame" && k2 == "bindSame" {
					continue
				}
				via := k1 == "bindVia" || k2 == "bindVia"
				if e.Tier != "thorough" && via {
					// both sources in one group, in both orders
					placements = []string{"direct", "unused-var(check)", "unneeded-part", "nested+direct"}
					aliasForms = []bool{false}
				}
				if e.Tier != "thorough" && !(k1 == "bind" && k2 == "bindSame") && !via {
					// two seeded placements, one alias form per cell
					p1 := r.Intn(len(c05Placements))
					p2 := (p1 + 1 + r.Intn(len(c05Placements)-1)) % len(c05Placements)
					placements = []string{c05Placements[p1], c05Placements[p2]}
					aliasForms = []bool{r.Intn(3) == 0}
				}
				if k1 == "arg" && k2 == "arg" {
					// two parameters can only meet in the injector's own signature
					placements = []string{"direct"}
					aliasForms = []bool{false, true}
				}
				for _, pl := range placements {
					for _, al := range aliasForms {
						a, b := k1, k2
						if r.Intn(2) == 0 && b != "bindSame" {
							a, b = b, a
						}
						if via && k1 != k2 && k1 != "bindSame" && k2 != "bindSame" {
							// fixed orders: the waiting binding first in two placements, second in the others
							a, b = k1, k2
							if (a == "bindVia") != (pl == "direct" || pl == "unneeded-part") {
								a, b = b, a
							}
						}
						n++
						id := fmt.Sprintf("cf%04d", n)
						mut, ctl, name, ok := c05Case(id, a, b, class, pl, al)
						if !ok {
							infeasible++
							continue
						}
						cell := fmt.Sprintf("%s+%s/%s/%s/alias=%v", k1, k2, class, pl, al)
						cellsSeen[fmt.Sprintf("%s+%s", k1, k2)] = true
						via := pl == "unused-var(check)"
						mut.Note, ctl.Note = cell, cell
						cases = append(cases, &RejectCase{P: mut, Class: "conflict", MustName: strings.Split(name, "|"), Cell: cell, ViaCheck: via, Twin: ctl.ID})
						cases = append(cases, &RejectCase{P: ctl, Control: true, Cell: "control:" + cell, ViaCheck: via})
					}
				}
			}
		}
	}
	for v := 0; v < 8; v++ {
		n++
		m, c, name := c05TwoPaths(fmt.Sprintf("cf%04d", n), v)
		cell := fmt.Sprintf("two-paths/variant=%d", v)
		m.Note, c.Note = cell, cell
		cases = append(cases, &RejectCase{P: m, Class: "conflict", MustName: []string{name}, Cell: cell, Twin: c.ID})
		cases = append(cases, &RejectCase{P: c, Control: true, Cell: "control:" + cell})
	}
	rep.Count("kind_pairs_covered", len(cellsSeen))
	rep.Count("infeasible_cells_skipped", infeasible)
	runRejectCases(e, rep, cases, "c05")
	_ = rand.Int
	return rep.Finish(t0)
}
