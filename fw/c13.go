package fw

import (
	"fmt"
	"path/filepath"
	"sort"
	"strings"
	"time"
)

// The atom universe of the value-expression grammar. "@" marks identifiers declared
// by the prelude (qualified with the home package's name when written elsewhere).
const c13Prelude = `package %s

import "%s/tr"

var _ = tr.New

type S struct {
	A  int
	B  string
	P  *int
	In Inner
	hid int
}
type Inner struct{ X, Y int }
type N int
type Str string
type FT func() int
type I interface{ M() int }
type Impl struct{ K int }
type NotImpl struct{ K int }
type hiddenT struct{ X int }

type PtrImpl struct{ K int }

// Other is an interface that does not include I's method; OtherV holds an Impl all the same.
type Other interface{ Unrelated() }
type Wider interface {
	M() int
	Extra()
}
type ImplBoth struct{ K int }

func (ImplBoth) M() int     { return 6 }
func (ImplBoth) Unrelated() {}
func (ImplBoth) Extra()     {}

var OtherV Other = ImplBoth{K: 4}
var WiderV Wider = ImplBoth{K: 5}
var AnyV interface{} = Impl{K: 6}

type UPos struct {
	A int
	b int
}
type LU []UPos
type BoxU[E any] struct{ v E }
type upHidden struct{ n int }
type UAlias = upHidden
type Pair[K comparable, V any] struct {
	Key K
	Val V
}

func (Impl) M() int     { return 1 }
func (*PtrImpl) M() int { return 2 }
func NewImpl() Impl     { return Impl{K: 9} }
func (S) Meth() int     { return 3 }
func (*S) PMeth() int   { return 4 }
func F() int            { return 5 }
func G(x int) int       { return x }

var (
	V1             = 7
	Vf             = 2.5
	Vs             = "vs"
	Vb             = true
	Arr            = [3]int{1, 2, 3}
	Sl             = []int{4, 5, 6}
	M              = map[string]int{"a": 1}
	PI             = new(int)
	VS             = S{A: 2, B: "b", P: PI, In: Inner{X: 8, Y: 9}}
	PS             = &S{A: 1, B: "p"}
	IfaceV interface{} = 5
	IV     I       = Impl{K: 3}
	FnV            = func() int { return 6 }
	FnTyped FT     = F
	Ch             = make(chan int, 4)
	SS             = []S{{A: 1}, {A: 2}}
	hidden         = 11
	Holder         = struct{ Fn func() int }{F}
	ChImpl         = func() chan Impl { c := make(chan Impl, 64); for i := 0; i < 64; i++ { c <- Impl{K: i} }; return c }()
)

const (
	C1   = 10
	CS   = "cs"
	Cf   = 1.5
	CIdx = 2
)

func init() { Ch <- 1; Ch <- 2; Ch <- 3 }
`

type vexpr struct {
	Expr    string // with @ markers
	Type    string // with @ markers
	Class   string // accept | reject | noclaim
	Why     string
	AddrVar bool   // &pkgVar: the very address must be delivered
	PtrLike bool   // result is pointer/map/chan/slice: same across calls
	Kind    string // production name (for coverage)
	Iface   string // non-empty: wire.InterfaceValue(new(Iface), Expr)
	Local   bool   // must live in the injector package (mentions unexported names)
	Param   string // injector parameter list (for the not-package-scope case)
	// DotInternal: the home package dot-imports <home>/internal/x (type T), which the injector's
	// package may import only if it is the home package itself
	DotInternal bool
}

func c13Atoms() map[string][]vexpr {
	a := map[string][]vexpr{}
	add := func(t string, e vexpr) {
		e.Type = t
		if e.Class == "" {
			e.Class = "accept"
		}
		a[t] = append(a[t], e)
	}
	for _, x := range []string{"1", "@V1", "@C1", "@VS.A", "@PS.A", "@Arr[1]", "@Sl[0]", `@M["a"]`, "@VS.In.X", "@IfaceV.(int)", "*@PI", "@SS[1].A", "(@V1)", "0x10", "int('c' - 'a')", "len(\"abc\")"} {
		e := vexpr{Expr: x, Kind: "atom"}
		if strings.HasPrefix(x, "len(") {
			e.Kind = "builtin-constant"
		}
		add("int", e)
	}
	for _, x := range []struct{ e, why string }{{"@F()", "function call"}, {"@VS.Meth()", "method call"}, {"@FnV()", "call of a function-typed variable"},
		{"@FnTyped()", "call of a variable of a named function type"}, {"@PS.PMeth()", "pointer method call"}, {"<-@Ch", "channel receive"}, {"@G(1)", "function call with argument"},
		{"@Holder.Fn()", "call of a function-typed field"}, {"@IV.M()", "interface method call"}, {"(@F)()", "parenthesised callee"}, {"func() int { return 1 }()", "call of a function literal"},
		{"@FT(@F)()", "call of a converted function"}} {
		add("int", vexpr{Expr: x.e, Class: "reject", Why: x.why, Kind: "call-atom"})
	}
	// builtin calls that execute at initialisation are calls; those folded to constants are not
	add("int", vexpr{Expr: "len(@Sl)", Class: "reject", Why: "non-constant builtin call", Kind: "builtin-call"})
	add("int", vexpr{Expr: "cap(@Sl)", Class: "reject", Why: "non-constant builtin call", Kind: "builtin-call"})
	add("int", vexpr{Expr: "len(@M)", Class: "reject", Why: "non-constant builtin call", Kind: "builtin-call"})
	add("int", vexpr{Expr: "copy(@Sl, @Sl)", Class: "reject", Why: "non-constant builtin call", Kind: "builtin-call"})
	add("int", vexpr{Expr: "min(@V1, 2)", Class: "reject", Why: "non-constant builtin call", Kind: "builtin-call"})
	add("*int", vexpr{Expr: "new(int)", Class: "reject", Why: "non-constant builtin call", Kind: "builtin-call"})
	add("[]int", vexpr{Expr: "append(@Sl, 1)", Class: "reject", Why: "non-constant builtin call", Kind: "builtin-call"})
	add("[]int", vexpr{Expr: "make([]int, 2)", Class: "reject", Why: "non-constant builtin call", Kind: "builtin-call"})
	add("float64", vexpr{Expr: "real(complex(@Vf, 1))", Class: "reject", Why: "non-constant builtin call", Kind: "builtin-call"})
	add("int", vexpr{Expr: "len(@Arr)", Kind: "builtin-constant"})
	add("int", vexpr{Expr: "len(@CS)", Kind: "builtin-constant"})
	add("int", vexpr{Expr: "min(@C1, 2)", Kind: "builtin-constant"})
	for _, x := range []string{`"s"`, "@Vs", "@CS", "@VS.B", "`raw`", `"a" + "b"`, "@Vs[1:]", `string(@Str("x"))`} {
		add("string", vexpr{Expr: x, Kind: "atom"})
	}
	for _, x := range []string{"true", "@Vb", "!@Vb", "@V1 == 7", `@Vs != ""`} {
		add("bool", vexpr{Expr: x, Kind: "atom"})
	}
	for _, x := range []string{"1.5", "@Vf", "@Cf", "float64(@V1)", "@Vf * 2"} {
		add("float64", vexpr{Expr: x, Kind: "atom"})
	}
	add("@N", vexpr{Expr: "@N(3)", Kind: "conversion"})
	add("@N", vexpr{Expr: "@N(@V1)", Kind: "conversion"})
	add("@Str", vexpr{Expr: `@Str("x")`, Kind: "conversion"})
	add("@S", vexpr{Expr: "@VS", Kind: "atom"})
	add("@S", vexpr{Expr: "*@PS", Kind: "deref"})
	add("@S", vexpr{Expr: "@S{}", Kind: "composite"})
	add("@S", vexpr{Expr: "@SS[0]", Kind: "index"})
	add("*@S", vexpr{Expr: "@PS", Kind: "atom", PtrLike: true})
	add("*@S", vexpr{Expr: "&@VS", Kind: "addr-of-var", PtrLike: true, AddrVar: true})
	add("*@S", vexpr{Expr: "&@S{A: 1}", Kind: "addr-of-composite", PtrLike: true})
	add("*@S", vexpr{Expr: "(*@S)(nil)", Kind: "nil-conversion"})
	add("*@S", vexpr{Expr: "&@SS[1]", Kind: "addr-of-element", PtrLike: true, AddrVar: true})
	add("*int", vexpr{Expr: "@PI", Kind: "atom", PtrLike: true, AddrVar: true})
	add("*int", vexpr{Expr: "&@V1", Kind: "addr-of-var", PtrLike: true, AddrVar: true})
	add("*int", vexpr{Expr: "&@VS.A", Kind: "addr-of-field", PtrLike: true, AddrVar: true})
	add("*int", vexpr{Expr: "&@Arr[2]", Kind: "addr-of-element", PtrLike: true, AddrVar: true})
	add("*int", vexpr{Expr: "@VS.P", Kind: "selector", PtrLike: true, AddrVar: true})
	add("@Inner", vexpr{Expr: "@VS.In", Kind: "selector"})
	add("@Inner", vexpr{Expr: "@Inner{1, 2}", Kind: "composite-positional"})
	add("[]int", vexpr{Expr: "@Sl", Kind: "atom", PtrLike: true, AddrVar: true})
	add("[]int", vexpr{Expr: "@Sl[1:]", Kind: "slice"})
	add("[]int", vexpr{Expr: "@Arr[:2]", Kind: "slice-of-array"})
	add("[]int", vexpr{Expr: "@Sl[0:1:2]", Kind: "slice3"})
	add("[]int", vexpr{Expr: "@Arr[:1:2]", Kind: "slice3-of-array"})
	add("[]int", vexpr{Expr: "@Sl[:2:2][1:]", Kind: "slice-of-slice3"})
	add("[]int", vexpr{Expr: "[]int{1, 2}", Kind: "composite", PtrLike: true})
	add("[]int", vexpr{Expr: "[]int(nil)", Kind: "nil-conversion"})
	add("[3]int", vexpr{Expr: "@Arr", Kind: "atom"})
	add("[3]int", vexpr{Expr: "[3]int{1, 2, 3}", Kind: "composite"})
	add("[3]int", vexpr{Expr: "[...]int{7, 8, 9}", Kind: "composite-ellipsis"})
	add("[3]int", vexpr{Expr: "[3]int{2: 1}", Kind: "composite-keyed"})
	add("map[string]int", vexpr{Expr: "@M", Kind: "atom", PtrLike: true, AddrVar: true})
	add("map[string]int", vexpr{Expr: `map[string]int{"k": 1}`, Kind: "composite", PtrLike: true})
	add("[]byte", vexpr{Expr: `[]byte("abc")`, Kind: "conversion", PtrLike: true})
	add("[]@S", vexpr{Expr: "@SS", Kind: "atom", PtrLike: true, AddrVar: true})
	add("[]@S", vexpr{Expr: "[]@S{{A: 1}, {B: \"x\"}}", Kind: "composite-elided"})
	add("[]*@S", vexpr{Expr: "[]*@S{{A: 1}, @PS}", Kind: "composite-elided-ptr"})
	add("map[string]@S", vexpr{Expr: `map[string]@S{"k": {A: 1}}`, Kind: "composite-elided-map"})
	// literals whose KEYS are package-level identifiers (they must be re-qualified like any other
	// identifier when the expression is written in another package; struct field keys must not)
	add("map[int]string", vexpr{Expr: `map[int]string{@C1: "ten", @CIdx: "two"}`, Kind: "composite-ident-keys-map", PtrLike: true})
	add("map[string]int", vexpr{Expr: `map[string]int{@CS: @C1, @Vs: @V1}`, Kind: "composite-ident-keys-map", PtrLike: true})
	add("[3]int", vexpr{Expr: "[3]int{@CIdx: @C1}", Kind: "composite-ident-keys-array"})
	add("[]int", vexpr{Expr: "[]int{@CIdx: @V1, 0: @C1}", Kind: "composite-ident-keys-slice", PtrLike: true})
	add("map[int]@S", vexpr{Expr: `map[int]@S{@C1: {A: @V1, B: @Vs}}`, Kind: "composite-ident-keys-nested", PtrLike: true})
	add("@S", vexpr{Expr: "@S{A: @V1, B: @Vs, P: @PI}", Kind: "composite-struct-ident-values"})
	add("[]map[int]int", vexpr{Expr: "[]map[int]int{@CIdx: {@C1: @V1}}", Kind: "composite-ident-keys-nested", PtrLike: true})
	add("struct{ X int }", vexpr{Expr: "struct{ X int }{X: 3}", Kind: "anon-struct"})
	add("struct{ X, Y int }", vexpr{Expr: "struct{ X, Y int }{1, 2}", Kind: "anon-struct"})
	add("[]interface{}", vexpr{Expr: "[]interface{}{1, \"a\"}", Kind: "iface-elements"})
	add("chan int", vexpr{Expr: "@Ch", Kind: "atom", PtrLike: true, AddrVar: true})
	add("<-chan int", vexpr{Expr: "(<-chan int)(@Ch)", Kind: "conversion", PtrLike: true, AddrVar: true})
	add("complex128", vexpr{Expr: "1 + 2i", Kind: "literal"})
	add("rune", vexpr{Expr: "'x'", Kind: "literal"})
	add("uint8", vexpr{Expr: `"abc"[1]`, Kind: "index-string"})
	add("@FT", vexpr{Expr: "@FnTyped", Class: "noclaim", Why: "function value (not comparable)", Kind: "func-value"})
	add("func() int", vexpr{Expr: "@F", Class: "noclaim", Why: "function value (not comparable)", Kind: "func-value"})
	add("func() int", vexpr{Expr: "func() int { return 1 }", Class: "noclaim", Why: "function literal", Kind: "func-literal"})
	add("func() int", vexpr{Expr: "@VS.Meth", Class: "noclaim", Why: "method value", Kind: "method-value"})
	// interface-typed wire.Value must be refused
	add("interface{}", vexpr{Expr: "@IfaceV", Class: "reject", Why: "wire.Value of interface type", Kind: "iface-value"})
	add("@I", vexpr{Expr: "@IV", Class: "reject", Why: "wire.Value of interface type", Kind: "iface-value"})
	add("error", vexpr{Expr: "error(nil)", Class: "reject", Why: "wire.Value of interface type", Kind: "iface-value"})
	add("@I", vexpr{Expr: "@I(@Impl{})", Class: "reject", Why: "wire.Value of interface type", Kind: "iface-conversion"})
	// InterfaceValue
	add("@I", vexpr{Expr: "@Impl{K: 2}", Iface: "@I", Kind: "ifacevalue"})
	add("@I", vexpr{Expr: "&@Impl{K: 2}", Iface: "@I", Kind: "ifacevalue-ptr", PtrLike: true})
	add("@I", vexpr{Expr: "@IV", Iface: "@I", Kind: "ifacevalue-var"})
	add("@I", vexpr{Expr: "@NotImpl{K: 2}", Iface: "@I", Class: "reject", Why: "does not implement", Kind: "ifacevalue-notimpl"})
	add("@I", vexpr{Expr: "3", Iface: "@I", Class: "reject", Why: "does not implement", Kind: "ifacevalue-notimpl"})
	add("interface{}", vexpr{Expr: "3", Iface: "interface{}", Kind: "ifacevalue-empty"})
	// values of INTERFACE type: usable exactly when that interface type implements the target
	add("@I", vexpr{Expr: "@OtherV", Iface: "@I", Class: "reject", Why: "the value's interface type lacks the target's method (the dynamic value would have it)", Kind: "ifacevalue-unrelated-interface"})
	add("@I", vexpr{Expr: "@AnyV", Iface: "@I", Class: "reject", Why: "interface{} does not implement the target", Kind: "ifacevalue-empty-interface-value"})
	add("@I", vexpr{Expr: "@WiderV", Iface: "@I", Kind: "ifacevalue-wider-interface"})
	add("@I", vexpr{Expr: "@I(@WiderV)", Iface: "@I", Kind: "ifacevalue-converted-interface"})
	add("@I", vexpr{Expr: "@Other(@OtherV)", Iface: "@I", Class: "reject", Why: "conversion to an unrelated interface type", Kind: "ifacevalue-converted-unrelated"})
	add("@I", vexpr{Expr: "@F()", Iface: "@I", Class: "reject", Why: "function call (and does not implement)", Kind: "ifacevalue-call"})
	add("@I", vexpr{Expr: "nil", Iface: "@I", Class: "reject", Why: "untyped nil does not implement", Kind: "ifacevalue-untyped-nil"})
	add("interface{}", vexpr{Expr: "nil", Iface: "interface{}", Class: "reject", Why: "untyped nil has no type to declare the variable with", Kind: "ifacevalue-untyped-nil-any"})
	add("@I", vexpr{Expr: "@PtrImpl{K: 1}", Iface: "@I", Class: "reject", Why: "only the pointer type implements", Kind: "ifacevalue-value-of-ptr-impl"})
	add("@I", vexpr{Expr: "&@PtrImpl{K: 1}", Iface: "@I", Kind: "ifacevalue-ptr-impl", PtrLike: true})
	add("@I", vexpr{Expr: "(*@PtrImpl)(nil)", Iface: "@I", Kind: "ifacevalue-typed-nil"})
	// calls and receives whose result DOES implement the interface
	add("@I", vexpr{Expr: "@NewImpl()", Iface: "@I", Class: "reject", Why: "function call", Kind: "ifacevalue-call-implementing"})
	add("@I", vexpr{Expr: "<-@ChImpl", Iface: "@I", Class: "reject", Why: "channel receive", Kind: "ifacevalue-recv-implementing"})
	return a
}

// c13Exprs enumerates the grammar to the given depth (sampled deterministically).
func c13Exprs(e *Env) []vexpr {
	atoms := c13Atoms()
	var out []vexpr
	var types []string
	for t := range atoms {
		types = append(types, t)
	}
	sort.Strings(types)
	for _, t := range types {
		out = append(out, atoms[t]...)
	}
	ints := atoms["int"]
	strs := atoms["string"]
	wrap := func(kind, tmpl, typ string, sub vexpr, ptrLike bool) vexpr {
		se := sub.Expr
		if (strings.HasPrefix(se, "-") || strings.HasPrefix(se, "+") || strings.HasPrefix(se, "^")) && !strings.Contains(tmpl, "($)") {
			// "-" + "-x" would read as a decrement
			se = "(" + se + ")"
		}
		v := vexpr{Expr: strings.ReplaceAll(tmpl, "$", se), Type: typ, Class: sub.Class, Why: sub.Why, Kind: kind + "(" + sub.Kind + ")", PtrLike: ptrLike}
		return v
	}
	intTemplates := []struct {
		kind, tmpl, typ string
		ptr             bool
	}{
		{"paren", "($)", "int", false}, {"neg", "-$", "int", false}, {"add", "$ + 1", "int", false}, {"mul", "2 * ($)", "int", false}, {"shift", "$ << 2", "int", false},
		{"xor", "^$", "int", false}, {"conv-named", "@N($)", "@N", false}, {"conv-float", "float64($)", "float64", false}, {"cmp", "$ > 3", "bool", false},
		{"struct-field", "@S{A: $}", "@S", false}, {"addr-struct", "&@S{A: $, B: \"q\"}", "*@S", true}, {"slice-elem", "[]int{$, 2}", "[]int", true},
		{"array-elem", "[...]int{$}", "[1]int", false}, {"map-val", "map[string]int{\"k\": $}", "map[string]int", true}, {"anon-struct", "struct{ X int }{$}", "struct{ X int }", false},
		{"nested-struct", "@S{In: @Inner{X: $}}", "@S", false}, {"slice-of-struct", "[]@S{{A: $}}", "[]@S", true}, {"keyed-array", "[3]int{1: $}", "[3]int", false},
		{"ptr-slice-elem", "[]*@S{{A: $}}", "[]*@S", true}, {"iface-elem", "[]interface{}{$}", "[]interface{}", true}, {"map-key", "map[int]string{$: \"v\"}", "map[int]string", true},
		{"index-dyn", "@Arr[($)%3&1]", "int", false},
		{"slice-low-bound", "@Sl[($)&1:][0]", "int", false}, {"slice-high-bound", "@Sl[0 : ($)&1+1][0]", "int", false}, {"slice3-max-bound", "@Sl[0:1:($)&1+2][0]", "int", false},
		{"selector-of-literal", "(@S{A: $}).A", "int", false}, {"index-of-literal", "[]int{$}[0]", "int", false}, {"map-index-of-literal", "map[int]int{1: $}[1]", "int", false},
		{"nested-index", "@Arr[@Sl[($)&1]&1]", "int", false}, {"deref-addr-of-literal-elem", "*(&[]int{$}[0])", "int", false},
		{"nested-literal-key", "map[int]map[int]int{1: {$: 2}}", "map[int]map[int]int", true}, {"literal-in-index", "@Arr[[]int{($) & 1}[0]]", "int", false},
		{"conv-in-paren", "@N(($))", "@N", false}, {"type-assert-of-literal", "interface{}($).(int)", "int", false},
	}
	n := 0
	for _, tm := range intTemplates {
		for i, sub := range ints {
			if e.Tier != "thorough" && (i+n)%3 != 0 && sub.Class == "accept" {
				continue
			}
			n++
			out = append(out, wrap(tm.kind, tm.tmpl, tm.typ, sub, tm.ptr))
		}
	}
	for _, tm := range []struct{ kind, tmpl, typ string }{{"concat", "$ + \"!\"", "string"}, {"conv-str", "@Str($)", "@Str"}, {"bytes", "[]byte($)", "[]byte"}, {"struct-str", "@S{B: $}", "@S"}, {"slice-str", "($)[0:1]", "string"}} {
		for _, sub := range strs {
			out = append(out, wrap(tm.kind, tm.tmpl, tm.typ, sub, tm.typ == "[]byte"))
		}
	}
	// depth 2: wrap a sample of depth-1 int expressions again
	var d1 []vexpr
	for _, v := range out {
		if v.Type == "int" && strings.Contains(v.Kind, "(") {
			d1 = append(d1, v)
		}
	}
	for i, sub := range d1 {
		if e.Tier != "thorough" && i%4 != 0 {
			continue
		}
		tm := intTemplates[i%len(intTemplates)]
		out = append(out, wrap(tm.kind, tm.tmpl, tm.typ, sub, tm.ptr))
	}
	// accessibility
	out = append(out,
		vexpr{Expr: "@hidden", Type: "int", Class: "reject-cross", Why: "unexported variable", Kind: "unexported-var"},
		vexpr{Expr: "@hiddenT{X: 1}", Type: "@hiddenT", Class: "reject-cross", Why: "unexported type", Kind: "unexported-type", Local: true},
		vexpr{Expr: "@S{hid: 1}", Type: "@S", Class: "reject-cross", Why: "unexported field key", Kind: "unexported-field"},
		vexpr{Expr: "@VS.hid", Type: "int", Class: "reject-cross", Why: "unexported field selector", Kind: "unexported-selector"},
		// a dot-imported type of an internal package, mentioned as an embedded field (the identifier
		// then stands for the field and for the type)
		vexpr{Expr: "struct{ T }{}", Type: "interface{}", Iface: "interface{}", Class: "reject-cross", Why: "embedded field naming a dot-imported type of an internal package", Kind: "embedded-dot-imported-internal-type", DotInternal: true},
		// selecting an exported field of a value whose TYPE comes from an internal package names
		// nothing of that package
		vexpr{Expr: "@VW.Inner.N", Type: "int", Class: "accept", Why: "field selection through a field typed by an internal package", Kind: "selector-through-internal-typed-field", DotInternal: true},
		vexpr{Expr: "@VW.Inner.N + 1", Type: "int", Class: "accept", Why: "field selection through a field typed by an internal package", Kind: "selector-through-internal-typed-field", DotInternal: true},
		vexpr{Expr: "[]T{{N: 1}}", Type: "interface{}", Iface: "interface{}", Class: "reject-cross", Why: "dot-imported type of an internal package", Kind: "dot-imported-internal-type", DotInternal: true},
		// a literal without keys assigns the unexported fields too: legal only where they are visible
		vexpr{Expr: "@UPos{1, 2}", Type: "@UPos", Class: "reject-cross", Why: "positional literal of a struct with an unexported field", Kind: "unexported-field-positional"},
		vexpr{Expr: "&@UPos{1, 2}", Type: "*@UPos", Class: "reject-cross", Why: "positional literal of a struct with an unexported field", Kind: "unexported-field-positional", PtrLike: true},
		vexpr{Expr: "[]@UPos{{1, 2}}", Type: "[]@UPos", Class: "reject-cross", Why: "positional literal (elided type) of a struct with an unexported field", Kind: "unexported-field-positional-elided", PtrLike: true},
		vexpr{Expr: "[]*@UPos{{1, 2}}", Type: "[]*@UPos", Class: "reject-cross", Why: "positional literal (elided pointer type) of a struct with an unexported field", Kind: "unexported-field-positional-elided", PtrLike: true},
		vexpr{Expr: "@LU{{1, 2}, {3, 4}}", Type: "@LU", Class: "reject-cross", Why: "positional literal (elided type) of a struct with an unexported field", Kind: "unexported-field-positional-elided", PtrLike: true},
		vexpr{Expr: "map[@UPos]int{{1, 2}: 3}", Type: "map[@UPos]int", Class: "reject-cross", Why: "positional literal (elided key type) of a struct with an unexported field", Kind: "unexported-field-positional-elided", PtrLike: true},
		vexpr{Expr: "@BoxU[int]{3}", Type: "@BoxU[int]", Class: "reject-cross", Why: "positional literal of a generic struct with an unexported field", Kind: "unexported-field-positional"},
		vexpr{Expr: "@UAlias{1}", Type: "@UAlias", Class: "reject-cross", Why: "positional literal, through an exported alias, of a struct with an unexported field", Kind: "unexported-field-positional"},
		vexpr{Expr: "@Pair[int, string]{Key: 1}", Type: "@Pair[int, string]", Class: "accept", Why: "literal of a generic type with two type arguments", Kind: "generic-lit-two-args"},
		vexpr{Expr: "&@Pair[@N, []@S]{Key: 2}", Type: "*@Pair[@N, []@S]", Class: "accept", Why: "literal of a generic type with two type arguments", Kind: "generic-lit-two-args", PtrLike: true},
		vexpr{Expr: "[]func(x int) int{nil, nil}", Type: "[]func(int) int", Class: "accept", Why: "literal whose element type is a function type that names its parameters", Kind: "func-type-named-params-in-literal", PtrLike: true},
		vexpr{Expr: "map[string]func(a, b int) (sum int){\"k\": nil}", Type: "map[string]func(int, int) int", Class: "accept", Why: "literal whose element type is a function type that names its parameters", Kind: "func-type-named-params-in-literal", PtrLike: true},
		vexpr{Expr: "(func(x @N) @N)(nil)", Type: "func(@N) @N", Class: "accept", Why: "conversion to a function type that names its parameters", Kind: "conversion-func-type-named-params"},
		vexpr{Expr: "(func() (n int, err error))(nil)", Type: "func() (int, error)", Class: "accept", Why: "conversion to a function type that names its results", Kind: "conversion-func-type-named-params"},
		vexpr{Expr: "@UPos{}", Type: "@UPos", Class: "accept", Why: "empty literal assigns no field", Kind: "unexported-field-empty-literal"},
		vexpr{Expr: "@UPos{A: 1}", Type: "@UPos", Class: "accept", Why: "keyed literal naming exported fields only", Kind: "unexported-field-keyed-exported"},
		vexpr{Expr: "float64(x) + 0.5", Type: "float64", Class: "reject", Why: "mentions an injector parameter (not package scope)", Kind: "param-ref", Param: "x int", Local: true},
		// the parameter is spelled like something the package scope does declare: the copied
		// expression would silently mean that other thing
		vexpr{Expr: "V1 + 0", Type: "int", Class: "reject", Why: "mentions an injector parameter spelled like a package-level variable", Kind: "param-ref-shadows-var", Param: "V1 int", Local: true},
		vexpr{Expr: "Vs", Type: "string", Class: "reject", Why: "mentions an injector parameter spelled like a package-level variable", Kind: "param-ref-shadows-var", Param: "Vs string", Local: true},
		vexpr{Expr: "C1 * 2", Type: "int", Class: "reject", Why: "mentions an injector parameter spelled like a package-level constant", Kind: "param-ref-shadows-const", Param: "C1 int", Local: true},
		vexpr{Expr: "[]int{F, 1}", Type: "[]int", Class: "reject", Why: "mentions an injector parameter spelled like a package-level function", Kind: "param-ref-shadows-func", Param: "F int", Local: true},
		vexpr{Expr: "&PS.A", Type: "*int", Class: "reject", Why: "mentions an injector parameter spelled like a package-level variable", Kind: "param-ref-shadows-var", Param: "PS *S", Local: true},
	)
	return out
}

type c13Case struct {
	ID    int
	V     vexpr
	Cross bool // written in another package's set
	Class string
	// ResShape: extra results of the injector (0 none, 1 error, 2 func(), 3 func() and error)
	ResShape int
	// HomeInjector (cross only): the package that declares the set has an injector of its own
	// using it, and its directory sorts before the injector package's (so it is analysed first)
	HomeInjector bool
}

// c13Program renders a group of cases into one program. Each case k has injector InitK
// (and InitKb sharing the value through the same set when cross).
func c13Program(id string, cases []c13Case) *Program {
	p := &Program{ID: id, Module: ModulePath, Extra: map[string]string{}, Feat: map[string]string{}, RawDriver: true}
	p.Pkgs = []*Pkg{{Name: "app", Dir: "app"}, {Name: "lib", Dir: "lib"}}
	cross := cases[0].Cross
	var homeInj strings.Builder
	for _, c := range cases {
		if c.Cross && c.HomeInjector {
			p.Pkgs[1].Dir = "aaa_lib"
		}
	}
	home := "app"
	homeIdx := 0
	if cross {
		home = "lib"
		homeIdx = 1
	}
	q := func(s string, inHome bool) string {
		if inHome || !cross {
			return strings.ReplaceAll(s, "@", "")
		}
		return strings.ReplaceAll(s, "@", "lib.")
	}
	p.Extra[fmt.Sprintf("%d/prelude.go", homeIdx)] = fmt.Sprintf(c13Prelude, home, ModulePath)
	dotImp, dotUse := "", ""
	for _, c := range cases {
		if c.V.DotInternal {
			p.Pkgs = append(p.Pkgs, &Pkg{Name: "x", Dir: p.Pkgs[homeIdx].Dir + "/internal/x"})
			p.Extra[fmt.Sprintf("%d/x.go", len(p.Pkgs)-1)] = "package x\n\ntype T struct{ N int }\n"
			dotImp = "\t. \"" + p.ImportPath(len(p.Pkgs)-1) + "\"\n"
			dotUse = "var _ T\n\n"
			break
		}
	}
	var homeSrc, sets, injs, drv strings.Builder
	fmt.Fprintf(&homeSrc, "package %s\n\nimport (\n\t\"%s/tr\"\n%s)\n\nvar _ = tr.New\n\n%s", home, ModulePath, dotImp, dotUse)
	if dotImp != "" {
		// an exported variable whose type has a field of the internal package's type
		homeSrc.WriteString("type WT struct{ Inner T }\n\nfunc (t WT) Num() int { return t.Inner.N }\n\nvar VW = WT{Inner: T{N: 5}}\n\n")
	}
	fmt.Fprintf(&sets, "package %s\n\nimport (\n\t\"github.com/google/wire\"\n%s)\n\nvar _ = wire.NewSet\n\n%s", home, dotImp, dotUse)
	injs.WriteString("//go:build wireinject\n// +build wireinject\n\npackage app\n\nimport (\n\t\"github.com/google/wire\"\n")
	if !cross {
		injs.WriteString(dotImp)
	}
	drv.WriteString("//go:build !wireinject\n// +build !wireinject\n\npackage app\n\nimport (\n\t\"" + ModulePath + "/tr\"\n")
	if cross {
		injs.WriteString("\t\"" + p.ImportPath(1) + "\"\n")
		// the home package must be linked even when the copied expression mentions nothing of it
		drv.WriteString("\t_ \"" + p.ImportPath(1) + "\"\n")
	}
	injs.WriteString(")\n\nvar _ = wire.NewSet\n\n")
	if !cross {
		injs.WriteString(dotUse)
	}
	drv.WriteString(")\n\nvar _ = tr.New\n\nfunc Scenarios() {\n")
	usesLibInInj := false
	for _, c := range cases {
		v := c.V
		key := fmt.Sprintf("k%d", c.ID)
		item := "wire.Value(" + q(v.Expr, true) + ")"
		if v.Iface != "" {
			item = "wire.InterfaceValue(new(" + q(v.Iface, true) + "), " + q(v.Expr, true) + ")"
		}
		typ := q(v.Type, false)
		if strings.Contains(typ, "lib.") {
			usesLibInInj = true
		}
		switch c.ResShape {
		case 1:
			typ = "(" + typ + ", error)"
		case 2:
			typ = "(" + typ + ", func())"
		case 3:
			typ = "(" + typ + ", func(), error)"
		}
		if c.Class != "reject" && v.Param == "" {
			fmt.Fprintf(&homeSrc, "var _ = tr.Home(%q, %s)\n", key, q(v.Expr, true))
		}
		if cross {
			fmt.Fprintf(&sets, "var ValSet%d = wire.NewSet(%s)\n", c.ID, item)
			if c.HomeInjector {
				fmt.Fprintf(&homeInj, "func InitLocal%d() %s {\n\tpanic(wire.Build(ValSet%d))\n}\n\n", c.ID, q(v.Type, true), c.ID)
			}
			fmt.Fprintf(&injs, "func Init%d(%s) %s {\n\tpanic(wire.Build(lib.ValSet%d))\n}\n\n", c.ID, v.Param, typ, c.ID)
			fmt.Fprintf(&injs, "func Init%db(%s) %s {\n\tpanic(wire.Build(lib.ValSet%d))\n}\n\n", c.ID, v.Param, typ, c.ID)
			usesLibInInj = true
		} else {
			fmt.Fprintf(&injs, "func Init%d(%s) %s {\n\tpanic(wire.Build(%s))\n}\n\n", c.ID, v.Param, typ, item)
		}
		if c.Class == "accept" || c.Class == "noclaim" {
			arg := ""
			if v.Param != "" {
				arg = "1"
			}
			fmt.Fprintf(&drv, "\ttr.Injector(%q, \"Init%d\", nil, func(c_ *tr.Call) {\n\t\tres_ := Init%d(%s)\n\t\ttr.SameAsHome(%q, res_)\n\t})\n", id, c.ID, c.ID, arg, key)
			if cross {
				fmt.Fprintf(&drv, "\ttr.Injector(%q, \"Init%db\", nil, func(c_ *tr.Call) {\n\t\tres_ := Init%db(%s)\n\t\ttr.SameAsHome(%q, res_)\n\t})\n", id, c.ID, c.ID, arg, key)
			}
		}
	}
	drv.WriteString("}\n")
	_ = usesLibInInj
	p.Extra[fmt.Sprintf("%d/home.go", homeIdx)] = homeSrc.String()
	if cross {
		p.Extra["1/sets.go"] = sets.String()
		if homeInj.Len() > 0 {
			p.Extra["1/wire.go"] = "//go:build wireinject\n// +build wireinject\n\npackage lib\n\nimport \"github.com/google/wire\"\n\n" + homeInj.String()
		}
	}
	p.Extra["0/wire.go"] = injs.String()
	p.Extra["0/zz_driver.go"] = drv.String()
	return p
}

const c13TwinDecls = `
const twinScale = %d
const twinTag = %q

var (
	TwinI  = 7 * twinScale
	TwinS  = "twin" + twinTag
	TwinSl = []int{twinScale, 2}
	TwinM  = map[string]int{"k": twinScale}
	TwinF  = 1.5 * twinScale
	TwinA  = [2]int{twinScale, 1}
)
`

// c13TwinProgram: two packages declare the same names with different values; the same
// expression text is written in a set of each; injectors of one package use both. Also the
// same pointer-valued composite written twice in one package.
func c13TwinProgram(id string) (*Program, []string, [][2]string) {
	p := &Program{ID: id, Module: ModulePath, Extra: map[string]string{}, Feat: map[string]string{"family": "twin-packages"}, RawDriver: true}
	p.Pkgs = []*Pkg{{Name: "app", Dir: "app"}, {Name: "lib", Dir: "lib"}, {Name: "lib", Dir: "lib2"}, {Name: "region", Dir: "east/region"}, {Name: "region", Dir: "west/region"}}
	// a second application package of the same invocation uses lib2 alone, so it names that
	// library differently than package app does: nothing of app's output may show in its own
	p.Pkgs = append(p.Pkgs, &Pkg{Name: "app2", Dir: "app2"})
	p.Extra["5/wire.go"] = "//go:build wireinject\n// +build wireinject\n\npackage app2\n\nimport (\n\t\"github.com/google/wire\"\n\t\"" + p.ImportPath(2) + "\"\n)\n\nfunc SliceOfB() []int {\n\tpanic(wire.Build(lib.TwinSet6))\n}\n\nfunc MapOfB() map[string]string {\n\tpanic(wire.Build(lib.TwinSet10))\n}\n"
	p.Extra["5/use.go"] = "package app2\n\n// Use keeps the injectors referenced under the default tags.\nfunc Use() int { return len(SliceOfB()) + len(MapOfB()) }\n"
	// each twin imports ITS region package under the same (default) name
	p.Extra["3/region.go"] = "package region\n\nvar Name = \"east\"\n\nvar Rate = 3\n"
	p.Extra["4/region.go"] = "package region\n\nvar Name = \"west\"\n\nvar Rate = 50\n"
	exprs := []struct{ e, t string }{
		{"TwinI", "int"}, {"TwinS", "string"}, {"TwinSl", "[]int"}, {"TwinM", "map[string]int"}, {"&TwinI", "*int"},
		{"TwinI + 1", "int"}, {"[]int{TwinI, 3}", "[]int"}, {"TwinF", "float64"}, {"TwinA", "[2]int"}, {"TwinSl[0]", "int"},
		{"map[string]string{TwinS: TwinS}", "map[string]string"}, {"-TwinI", "int"}, {"TwinS[1:]", "string"},
	}
	var keys []string
	var injs, drv strings.Builder
	injs.WriteString("//go:build wireinject\n// +build wireinject\n\npackage app\n\nimport (\n\t\"github.com/google/wire\"\n\tliba \"" + p.ImportPath(1) + "\"\n\tlibb \"" + p.ImportPath(2) + "\"\n)\n\n")
	drv.WriteString("//go:build !wireinject\n// +build !wireinject\n\npackage app\n\nimport (\n\t\"" + ModulePath + "/tr\"\n\t_ \"" + p.ImportPath(1) + "\"\n\t_ \"" + p.ImportPath(2) + "\"\n)\n\nvar _ = tr.New\n\nfunc Scenarios() {\n")
	for li, lib := range []struct {
		idx   int
		scale int
		tag   string
		alias string
	}{{1, 1, "A", "liba"}, {2, 10, "B", "libb"}} {
		var src strings.Builder
		fmt.Fprintf(&src, "package lib\n\nimport (\n\t\"github.com/google/wire\"\n\t\"%s/tr\"\n\t\"%s\"\n)\n\nvar _ = tr.New\n", ModulePath, p.ImportPath(lib.idx+2))
		fmt.Fprintf(&src, c13TwinDecls, lib.scale, lib.tag)
		for k, ex := range []struct{ e, t string }{{"region.Name", "string"}, {"region.Rate * 2", "int"}, {"[]string{region.Name}", "[]string"}} {
			key := fmt.Sprintf("twr%d_%s", k, lib.tag)
			fmt.Fprintf(&src, "var RegionSet%d = wire.NewSet(wire.Value(%s))\nvar _ = tr.Home(%q, %s)\n", k, ex.e, key, ex.e)
			inj := fmt.Sprintf("TwinRegion%d%s", k, lib.tag)
			fmt.Fprintf(&injs, "func %s() %s {\n\tpanic(wire.Build(%s.RegionSet%d))\n}\n\n", inj, ex.t, lib.alias, k)
			fmt.Fprintf(&drv, "\ttr.Injector(%q, %q, nil, func(c_ *tr.Call) {\n\t\tres_ := %s()\n\t\ttr.SameAsHome(%q, res_)\n\t})\n", id, inj, inj, key)
			keys = append(keys, inj)
		}
		for k, ex := range exprs {
			key := fmt.Sprintf("tw%d_%s", k, lib.tag)
			fmt.Fprintf(&src, "var TwinSet%d = wire.NewSet(wire.Value(%s))\nvar _ = tr.Home(%q, %s)\n", k, ex.e, key, ex.e)
			inj := fmt.Sprintf("Twin%d%s", k, lib.tag)
			fmt.Fprintf(&injs, "func %s() %s {\n\tpanic(wire.Build(%s.TwinSet%d))\n}\n\n", inj, ex.t, lib.alias, k)
			fmt.Fprintf(&drv, "\ttr.Injector(%q, %q, nil, func(c_ *tr.Call) {\n\t\tres_ := %s()\n\t\ttr.SameAsHome(%q, res_)\n\t})\n", id, inj, inj, key)
			keys = append(keys, inj)
		}
		p.Extra[fmt.Sprintf("%d/twin.go", lib.idx)] = src.String()
		_ = li
	}
	// the same pointer-valued expression written twice in the injector's package
	p.Extra["0/decl.go"] = "package app\n\nimport \"" + ModulePath + "/tr\"\n\ntype Scratch struct{ N int }\n\nvar _ = tr.Home(\"twp1\", &Scratch{N: 1})\nvar _ = tr.Home(\"twp2\", &Scratch{N: 1})\nvar _ = tr.Home(\"twm1\", map[string]int{\"a\": 1})\nvar _ = tr.Home(\"twm2\", map[string]int{\"a\": 1})\n"
	var pairs [][2]string
	for _, pr := range []struct{ a, b, e, t, ka, kb string }{
		{"ScratchOne", "ScratchTwo", "&Scratch{N: 1}", "*Scratch", "twp1", "twp2"},
		{"MapOne", "MapTwo", "map[string]int{\"a\": 1}", "map[string]int", "twm1", "twm2"},
	} {
		for _, x := range [][2]string{{pr.a, pr.ka}, {pr.b, pr.kb}} {
			fmt.Fprintf(&injs, "func %s() %s {\n\tpanic(wire.Build(wire.Value(%s)))\n}\n\n", x[0], pr.t, pr.e)
			fmt.Fprintf(&drv, "\ttr.Injector(%q, %q, nil, func(c_ *tr.Call) {\n\t\tres_ := %s()\n\t\ttr.SameAsHome(%q, res_)\n\t})\n", id, x[0], x[0], x[1])
			keys = append(keys, x[0])
		}
		pairs = append(pairs, [2]string{pr.a, pr.b})
	}
	drv.WriteString("}\n")
	p.Extra["0/wire.go"] = injs.String()
	p.Extra["0/zz_driver.go"] = drv.String()
	return p, keys, pairs
}

// judgeTwin checks the twin-package program.
func judgeTwin(rep *Report, pr *ProgResult, keys []string, pairs [][2]string) {
	if pr == nil {
		return
	}
	if pr.PreBad != "" {
		rep.Incon = append(rep.Incon, "harness: twin program does not type-check: "+secondLine(pr.PreBad))
		return
	}
	violate := func(clause, witness string) {
		files := pr.P.Files(false)
		if pr.GenFile != "" {
			files[pr.P.ID+"/app/wire_gen.go"] = pr.GenFile
		}
		rep.Violate(pr.P.ID+"_"+strings.ReplaceAll(strings.Split(clause, ":")[0], " ", "_"), Issue{Prop: rep.Prop, Clause: clause, Witness: witness, Sig: rep.Prop + ":twin:" + strings.Split(clause, ":")[0]}, files, map[string]string{"wire_stderr.txt": pr.GenStderr})
	}
	if pr.Crash != "" {
		violate("crash", pr.Crash)
		return
	}
	if pr.Outcome == nil || !pr.Outcome.Wrote {
		violate("call-free value expressions written identically in two packages were rejected", pr.GenStderr)
		return
	}
	if pr.BuildErr != "" {
		violate("accepted, but the generated package does not compile", pr.BuildErr)
		return
	}
	addr := map[string]uint64{}
	seen := map[string]bool{}
	for _, ct := range pr.Calls {
		for _, ev := range ct.Events {
			if ev.Ev != "home_cmp" {
				continue
			}
			seen[ct.Inj] = true
			if !ev.Known || !ev.DeepEqual {
				violate("value differs from the written expression evaluated in its own package: "+ct.Inj, fmt.Sprintf("injector %s returned %s, the expression in its home package is %s", ct.Inj, ev.Dd.Canon(), ev.Home.Canon()))
				return
			}
			if ev.Dd != nil && ev.Dd.Addr != 0 {
				addr[ct.Inj] = ev.Dd.Addr
			}
		}
	}
	for _, k := range keys {
		if !seen[k] {
			rep.Incon = append(rep.Incon, "twin program: no observation for "+k)
			return
		}
		rep.Held("twin;" + k)
	}
	for _, pq := range pairs {
		if addr[pq[0]] != 0 && addr[pq[0]] == addr[pq[1]] {
			violate("two separately written value expressions share one instance: "+pq[0]+"/"+pq[1], fmt.Sprintf("%s and %s both return %#x", pq[0], pq[1], addr[pq[0]]))
			return
		}
		rep.Held("twin-distinct;" + pq[0])
	}
	rep.Count("twin_package_values_compared", len(keys))
}

// CheckC13 — value providers.
func CheckC13(e *Env) int {
	t0 := time.Now()
	rep := NewReport(e, "C13", "exploration", "typed grammar enumeration (atoms over every operand kind, then unary/binary/conversion/composite/index/slice/selector/deref/address-of/type-assert wrappers to depth 2-3) each placed in the injector's package and in another package's set; oracle from the generator's own expression tree: expressions containing a call of a function, method, function-typed variable/field (named function types included), function literal call or a channel receive, wire.Value of interface type, InterfaceValue that does not implement, or unexported/non-package-scope identifiers seen from another package must be rejected; all others must be accepted and at run time be reflect.DeepEqual to the same expression evaluated in its home package, deliver the very address for &pkgVar forms, and the same pointer across calls and across injectors sharing the set; distinct = (production, operand kind, placement, class)")
	runValueCases(e, rep, append(c13Exprs(e), c13LiteralExprs()...), "c13")
	judgeHazards(e, rep)
	tp, tkeys, tpairs := c13TwinProgram("vtwin")
	tres := RunPool(e, []*Program{tp}, PoolOpts{Execute: true, Name: "c13tw", BatchSize: 1})
	judgeTwin(rep, tres[0], tkeys, tpairs)
	return rep.Finish(t0)
}

func judgeValueGroup(rep *Report, gid string, cases []c13Case, pr *ProgResult) {
	if pr == nil {
		return
	}
	if pr.PreBad != "" {
		if len(cases) == 1 && cases[0].Class == "noclaim" {
			rep.NoClaim++
			return
		}
		rep.Incon = append(rep.Incon, "harness: "+gid+" ("+cases[0].V.Expr+") does not type-check: "+secondLine(pr.PreBad))
		return
	}
	if pr.Incon != "" {
		rep.Incon = append(rep.Incon, gid+": "+pr.Incon)
		return
	}
	if pr.Outcome == nil {
		pr.Outcome = &PkgOutcome{}
	}
	violate := func(c c13Case, clause, witness string) {
		files := pr.P.Files(false)
		if pr.GenFile != "" {
			files[pr.P.ID+"/app/wire_gen.go"] = pr.GenFile
		}
		rep.Violate(fmt.Sprintf("%s_k%d", gid, c.ID), Issue{Prop: rep.Prop, Clause: clause, Witness: witness, Sig: strings.Replace(c13Sig(clause, c), "C13:", rep.Prop+":", 1)}, files,
			map[string]string{"expr.txt": fmt.Sprintf("%+v\ncross=%v class=%s", c.V, c.Cross, c.Class), "wire_stderr.txt": pr.GenStderr})
	}
	sigOf := func(c c13Case) string {
		return fmt.Sprintf("%s;type=%s;cross=%v;class=%s", c.V.Kind, c.V.Type, c.Cross, c.Class)
	}
	if pr.Crash != "" {
		violate(cases[0], "crash", pr.Crash)
		return
	}
	var diagText []string
	for _, d := range pr.Outcome.Diags {
		diagText = append(diagText, d.Text)
	}
	for _, d := range pr.LibDiags {
		diagText = append(diagText, d.Text)
	}
	dt := strings.Join(diagText, "\n")
	rejected := !pr.Outcome.Wrote
	if len(cases) == 1 {
		c := cases[0]
		switch c.Class {
		case "reject":
			if !rejected {
				violate(c, "expression that must be refused ("+c.V.Why+") was accepted: "+c.V.Expr, pr.GenFile)
				return
			}
			if dt == "" {
				violate(c, "refused without a diagnostic", pr.GenStderr)
				return
			}
			rep.Count("must_reject_refused", 1)
			rep.Held(sigOf(c))
			if len(rep.Samples) < 3 {
				rep.Sample(map[string]interface{}{"expr": c.V.Expr, "why": c.V.Why, "cross_package": c.Cross, "diagnostic": firstN(dt, 300)})
			}
			return
		case "noclaim":
			if rejected {
				rep.NoClaim++
				return
			}
			// accepted: the accepted-path oracle applies (function values are compared by
			// calling them)
		case "accept":
			if rejected {
				violate(c, "call-free expression rejected: "+c.V.Expr, dt+"\n"+pr.GenStderr)
				return
			}
		}
	} else if rejected {
		// handled by the retry round; if still here, the whole group was not retried
		rep.Incon = append(rep.Incon, gid+": group rejected and not retried")
		return
	}
	if pr.BuildErr != "" {
		violate(cases[0], "accepted, but the generated package does not compile", pr.BuildErr)
		return
	}
	// run-time comparison
	byInj := map[string][]Event{}
	for _, ct := range pr.Calls {
		for _, ev := range ct.Events {
			if ev.Ev == "home_cmp" {
				byInj[ct.Inj] = append(byInj[ct.Inj], ev)
			}
			if ev.Ev == "panic" {
				byInj[ct.Inj] = append(byInj[ct.Inj], ev)
			}
		}
	}
	for _, c := range cases {
		if c.Class != "accept" && c.Class != "noclaim" {
			continue
		}
		evs := byInj[fmt.Sprintf("Init%d", c.ID)]
		if len(evs) == 0 {
			rep.Incon = append(rep.Incon, fmt.Sprintf("%s: no run-time observation for Init%d (%s)", gid, c.ID, c.V.Expr))
			continue
		}
		bad := false
		var addrs []uint64
		all := append([]Event(nil), evs...)
		if c.Cross {
			all = append(all, byInj[fmt.Sprintf("Init%db", c.ID)]...)
		}
		for _, ev := range all {
			if ev.Ev == "panic" {
				violate(c, "injector panicked: "+ev.Msg, "")
				bad = true
				break
			}
			if !ev.Known {
				rep.Incon = append(rep.Incon, gid+": home value missing")
				bad = true
				break
			}
			if !ev.DeepEqual {
				violate(c, "injector result differs from the expression evaluated in its home package: "+c.V.Expr, fmt.Sprintf("result: %s\nhome:   %s", ev.Dd.Canon(), ev.Home.Canon()))
				bad = true
				break
			}
			if c.V.AddrVar && !ev.SamePtr {
				violate(c, "pointer-like value does not refer to the same variable as in its home package: "+c.V.Expr, fmt.Sprintf("result addr %#x home addr %#x", ev.Dd.Addr, ev.Home.Addr))
				bad = true
				break
			}
			if c.V.PtrLike && ev.Dd != nil && ev.Dd.Addr != 0 {
				addrs = append(addrs, ev.Dd.Addr)
			}
		}
		if bad {
			continue
		}
		for i := 1; i < len(addrs); i++ {
			if addrs[i] != addrs[0] {
				violate(c, "injector calls observe different pointers for one wire.Value (not evaluated once): "+c.V.Expr, fmt.Sprintf("%#x vs %#x", addrs[0], addrs[i]))
				bad = true
				break
			}
		}
		if bad {
			continue
		}
		rep.Count("accepted_and_equal_to_home", 1)
		if len(addrs) > 1 {
			rep.Count("pointer_stable_across_calls", 1)
		}
		rep.Held(sigOf(c))
	}
}

// c13Sig: the signature by which a violation is matched against known findings.
func c13Sig(clause string, c c13Case) string {
	if strings.HasPrefix(clause, "expression that must be refused") {
		return fmt.Sprintf("C13:must-refuse-accepted:%s:cross=%v", c.V.Kind, c.Cross)
	}
	return "C13:" + clause + ":" + c.V.Kind
}

// runValueCases places every expression in the injector's package and in another package's
// set, runs the programs and judges them (shared by C13 and, for relocation-sensitive
// expressions, C10).
func runValueCases(e *Env, rep *Report, exprs []vexpr, name string) {
	var cases []c13Case
	id := 0
	for _, v := range exprs {
		if v.Class == "" {
			panic("c13: expression without a class: " + v.Expr)
		}
		for _, cross := range []bool{false, true} {
			if cross && v.Local {
				continue
			}
			class := v.Class
			if class == "reject-cross" {
				if cross {
					class = "reject"
				} else {
					class = "accept"
				}
			}
			id++
			cases = append(cases, c13Case{ID: id, V: v, Cross: cross, Class: class})
		}
	}
	// round 1: must-accept packed 12 per package, must-reject / noclaim alone
	type group struct {
		id    string
		cases []c13Case
	}
	var groups []group
	var accApp, accLib []c13Case
	for _, c := range cases {
		if c.Class == "accept" {
			if c.Cross {
				accLib = append(accLib, c)
			} else {
				accApp = append(accApp, c)
			}
		} else {
			groups = append(groups, group{fmt.Sprintf("vx%04d", c.ID), []c13Case{c}})
		}
	}
	pack := func(cs []c13Case, tag string) {
		for i := 0; i < len(cs); i += 12 {
			j := i + 12
			if j > len(cs) {
				j = len(cs)
			}
			groups = append(groups, group{fmt.Sprintf("vg%s%03d", tag, i/12), cs[i:j]})
		}
	}
	pack(accApp, "a")
	pack(accLib, "l")
	run := func(gs []group, name string) map[string]*ProgResult {
		var progs []*Program
		for _, g := range gs {
			progs = append(progs, c13Program(g.id, g.cases))
		}
		res := RunPool(e, progs, PoolOpts{Execute: true, Name: name, BatchSize: 16})
		m := map[string]*ProgResult{}
		for _, pr := range res {
			m[pr.P.ID] = pr
		}
		return m
	}
	res := run(groups, name)
	// round 2: groups that were rejected as a whole are re-run one case per package
	var retry []group
	for _, g := range groups {
		pr := res[g.id]
		if len(g.cases) > 1 && pr != nil && pr.PreBad == "" && (pr.Outcome == nil || !pr.Outcome.Wrote || pr.BuildErr != "" || pr.Crash != "") {
			for _, c := range g.cases {
				retry = append(retry, group{fmt.Sprintf("vr%04d", c.ID), []c13Case{c}})
			}
		}
	}
	if len(retry) > 0 {
		r2 := run(retry, name+"r")
		for k, v := range r2 {
			res[k] = v
		}
		var keep []group
		retried := map[int]bool{}
		for _, g := range retry {
			retried[g.cases[0].ID] = true
		}
		for _, g := range groups {
			if len(g.cases) > 1 && retried[g.cases[0].ID] {
				continue
			}
			keep = append(keep, g)
		}
		groups = append(keep, retry...)
	}
	for _, g := range groups {
		judgeValueGroup(rep, g.id, g.cases, res[g.id])
	}
}

// c13RelocationExprs: accepted expressions whose copy depends on which package wrote them
// (identifiers to re-qualify in every syntactic position).
func c13RelocationExprs() []vexpr {
	var out []vexpr
	atoms := c13Atoms()
	var types []string
	for t := range atoms {
		types = append(types, t)
	}
	sort.Strings(types)
	for _, t := range types {
		for _, v := range atoms[t] {
			if v.Class != "accept" || v.Local || v.Iface != "" && !strings.Contains(v.Expr, "@") {
				continue
			}
			if strings.Contains(v.Expr, "@") {
				out = append(out, v)
			}
		}
	}
	return out
}

// c13Hazard: a value (or provider) written in another package that the injector's package
// cannot reproduce faithfully although every identifier in it is exported: it mentions an
// INTERNAL package the injector's package may not import, or a predeclared identifier that the
// injector's package re-declares. wire must refuse it, or else the generated package must
// compile and deliver exactly the home value.
type c13Hazard struct {
	Name      string
	P         *Program
	MustAllow bool // a control: must be accepted and equal
}

func c13Hazards() []c13Hazard {
	var out []c13Hazard
	mk := func(name string, mustAllow bool, libImports, libDecls, valueExpr, typ, appDecls string, extraPkgs map[string]string, libDir string) {
		id := "vh_" + name
		p := &Program{ID: id, Module: ModulePath, Extra: map[string]string{}, Feat: map[string]string{"family": "value-hazard", "case": name}, RawDriver: true}
		p.Pkgs = []*Pkg{{Name: "app", Dir: "app"}, {Name: "lib", Dir: libDir}}
		for dir, src := range extraPkgs {
			p.Pkgs = append(p.Pkgs, &Pkg{Name: filepath.Base(dir), Dir: dir})
			p.Extra[fmt.Sprintf("%d/pkg.go", len(p.Pkgs)-1)] = src
		}
		lib := "package lib\n\nimport (\n\t\"github.com/google/wire\"\n\t\"" + ModulePath + "/tr\"\n" + strings.ReplaceAll(libImports, "%ID%", ModulePath+"/"+id) + ")\n\nvar _ = tr.New\n\n" + libDecls +
			"\nvar Set = wire.NewSet(wire.Value(" + valueExpr + "))\n\nvar _ = tr.Home(\"hz\", " + valueExpr + ")\n"
		p.Extra["1/lib.go"] = lib
		p.Extra["0/wire.go"] = "//go:build wireinject\n// +build wireinject\n\npackage app\n\nimport (\n\t\"github.com/google/wire\"\n\tlib \"" + p.ImportPath(1) + "\"\n)\n\nfunc Init() " + typ + " {\n\tpanic(wire.Build(lib.Set))\n}\n"
		p.Extra["0/decl.go"] = "package app\n\n" + appDecls + "\n"
		p.Extra["0/zz_driver.go"] = "//go:build !wireinject\n// +build !wireinject\n\npackage app\n\nimport (\n\t\"" + ModulePath + "/tr\"\n\t_ \"" + p.ImportPath(1) + "\"\n)\n\nfunc Scenarios() {\n\ttr.Injector(\"" + id + "\", \"Init\", nil, func(c_ *tr.Call) {\n\t\tres_ := Init()\n\t\ttr.SameAsHome(\"hz\", res_)\n\t})\n}\n"
		p.Note = "value-hazard:" + name
		out = append(out, c13Hazard{Name: name, P: p, MustAllow: mustAllow})
	}
	cfgSrc := "package cfg\n\nconst Port = 8080\n\nvar Name = \"cfg\"\n"
	// internal package mentioned by a value expression of a neighbouring package
	mk("internal-package-const", false, "\t\"%ID%/lib/internal/cfg\"\n", "type Port int\n", "Port(cfg.Port)", "lib.Port", "", map[string]string{"lib/internal/cfg": cfgSrc}, "lib")
	mk("internal-package-var", false, "\t\"%ID%/lib/internal/cfg\"\n", "", "[]string{cfg.Name}", "[]string", "", map[string]string{"lib/internal/cfg": cfgSrc}, "lib")
	// the same with an importable package: must work
	mk("sibling-package-const", true, "\t\"%ID%/lib/cfg\"\n", "type Port int\n", "Port(cfg.Port)", "lib.Port", "", map[string]string{"lib/cfg": cfgSrc}, "lib")
	// the injector's package lives INSIDE the tree of the internal directory: allowed
	mk("internal-package-visible-to-injector", true, "\t\"%ID%/app/internal/cfg\"\n", "type Port int\n", "Port(cfg.Port)", "lib.Port", "", map[string]string{"app/internal/cfg": cfgSrc}, "app/sub/lib")
	// predeclared identifiers the injector's package re-declares
	mk("shadowed-true", false, "", "type Flag bool\n", "Flag(true)", "lib.Flag", "const true = false\n", nil, "lib")
	mk("shadowed-nil-slice", false, "", "", "[]int(nil)", "[]int", "var nil = []int{1}\n", nil, "lib")
	mk("shadowed-conversion-type", false, "", "var N = 65\n", "string(rune(N))", "string", "func rune(x int) int { return x + 1 }\n", nil, "lib")
	mk("shadowed-iota-free-const", false, "", "", "int64(3)", "int64", "type int64 = int32\n", nil, "lib")
	mk("not-shadowed-control", true, "", "type Flag bool\n", "Flag(true)", "lib.Flag", "const truth = false\n", nil, "lib")
	return out
}

func judgeHazards(e *Env, rep *Report) {
	hz := c13Hazards()
	var progs []*Program
	for _, h := range hz {
		progs = append(progs, h.P)
	}
	res := RunPool(e, progs, PoolOpts{Execute: true, Name: "c13hz", BatchSize: 1})
	for i, pr := range res {
		h := hz[i]
		violate := func(clause, witness string) {
			files := pr.P.Files(false)
			if pr.GenFile != "" {
				files[pr.P.ID+"/app/wire_gen.go"] = pr.GenFile
			}
			rep.Violate(pr.P.ID, Issue{Prop: rep.Prop, Clause: clause, Witness: witness, Sig: rep.Prop + ":hazard:" + h.Name}, files, map[string]string{"wire_stderr.txt": pr.GenStderr})
		}
		if pr.PreBad != "" {
			rep.Incon = append(rep.Incon, "harness: hazard "+h.Name+" does not type-check: "+firstLine(pr.PreBad)+" / "+secondLine(pr.PreBad))
			continue
		}
		if pr.Incon != "" && !strings.Contains(pr.Incon, "driver") {
			rep.Incon = append(rep.Incon, pr.P.ID+": "+pr.Incon)
			continue
		}
		if pr.Crash != "" {
			violate("crash", pr.Crash)
			continue
		}
		accepted := pr.Outcome != nil && pr.Outcome.Wrote
		if !accepted {
			if h.MustAllow {
				violate("a value every identifier of which the injector's package can reach was refused: "+h.Name, pr.GenStderr)
				continue
			}
			if pr.Outcome == nil || len(pr.Outcome.Diags)+len(pr.LibDiags) == 0 {
				violate("refused without a diagnostic", pr.GenStderr)
				continue
			}
			rep.Held("hazard;" + h.Name + ";refused")
			continue
		}
		if pr.BuildErr != "" || strings.Contains(pr.Incon, "go build failed") {
			violate("accepted a value the injector's package cannot reproduce ("+h.Name+"): the generated package does not compile", pr.BuildErr+pr.Incon)
			continue
		}
		ok, seen := true, false
		for _, ct := range pr.Calls {
			for _, ev := range ct.Events {
				if ev.Ev == "home_cmp" {
					seen = true
					if (!ev.Known || !ev.DeepEqual) && ok {
						ok = false
						violate("accepted a value the injector's package cannot reproduce ("+h.Name+"): the injector returns "+ev.Dd.Canon()+", the written expression is "+ev.Home.Canon(), ct.Dump())
					}
				}
			}
		}
		if !seen {
			rep.Incon = append(rep.Incon, pr.P.ID+": no run-time observation ("+pr.Incon+")")
			continue
		}
		if ok {
			rep.Held("hazard;" + h.Name + ";accepted-equal")
		}
	}
}

// c13LiteralExprs: number, rune and string literals in every spelling the language has (digit
// separators, binary / octal / hex prefixes, hex floats, imaginary literals, escapes): the copy
// has to denote exactly the written value, to the last digit.
func c13LiteralExprs() []vexpr {
	var out []vexpr
	add := func(typ string, exprs ...string) {
		for _, x := range exprs {
			out = append(out, vexpr{Expr: x, Type: typ, Class: "accept", Kind: "literal-spelling"})
		}
	}
	add("float64", "0.072_125_57", "1_000.000_001", "0x1.921fb54442d18p+1", "0X1p-2", "1e-7", "6.02214076e23", "0.1 + 0.2", "1_0.2_5e1_0", ".5", "5.")
	add("int", "12_500_000", "0b1010_0101", "0o17_7", "0x_FF_FF", "0377", "1_0")
	add("rune", "'\\u00e9'", "'\\x7f' + 1", "'a'")
	add("complex128", "1_0.5i", "0x1p-2i", "2.5 + 1e3i")
	add("float32", "float32(16_777_217.0)", "float32(0.072_125_57)")
	add("string", "\"\\u00e9\\x41\\101\\n\"", "`a\\n_1_0`", "\"0.072_125_57\"")
	return out
}
