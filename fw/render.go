package fw

import (
	"fmt"
	"os"
	"path/filepath"
	"sort"
	"strconv"
	"strings"
)

const ModulePath = "example.com/m"

// fileCtx tracks the imports a rendered file needs.
type fileCtx struct {
	p       *Program
	pkg     int
	imports map[string]string // import path -> local name
	names   map[string]bool   // local names taken
	blank   []string          // blank imports of the file
	body    strings.Builder
}

func newFileCtx(p *Program, pkg int) *fileCtx {
	c := &fileCtx{p: p, pkg: pkg, imports: map[string]string{}, names: map[string]bool{}}
	// import names must not collide with the package's own top-level identifiers
	for _, n := range p.PkgScopeNames(pkg) {
		c.names[n] = true
	}
	return c
}

// PkgScopeNames lists the identifiers declared at package scope in package pkg.
func (p *Program) PkgScopeNames(pkg int) []string {
	var r []string
	for _, d := range p.Decls {
		if d.Pkg == pkg {
			r = append(r, d.Name)
		}
	}
	for _, it := range p.Items {
		if it.Kind == KFunc && it.Pkg == pkg {
			r = append(r, it.Name)
		}
	}
	for _, s := range p.Sets {
		if s.Pkg == pkg && !s.Inline {
			r = append(r, s.Name)
		}
	}
	if pkg == 0 {
		for _, in := range p.Injs {
			r = append(r, in.Name)
		}
		r = append(r, p.PkgIdents...)
		r = append(r, "Scenarios")
	}
	return r
}

func (c *fileCtx) imp(path, want string) string {
	if n, ok := c.imports[path]; ok {
		return n
	}
	n := want
	for i := 2; c.names[n]; i++ {
		n = want + "_" + strconv.Itoa(i)
	}
	c.names[n] = true
	c.imports[path] = n
	return n
}

func (c *fileCtx) tr() string   { return c.imp(c.p.Module+"/tr", "tr") }
func (c *fileCtx) wire() string { return c.imp("github.com/google/wire", "wire") }

// q returns the qualifier ("alias." or "") for things declared in package pkg.
func (c *fileCtx) q(pkg int) string {
	if pkg == c.pkg || pkg < 0 {
		return ""
	}
	name := c.p.Pkgs[pkg].Name
	if c.p.AliasImports {
		name = "al_" + name
	}
	if name == "init" {
		// a package named init must be imported under another name
		name = "ini"
	}
	return c.imp(c.p.ImportPath(pkg), name) + "."
}

func (c *fileCtx) pf(format string, args ...interface{}) {
	fmt.Fprintf(&c.body, format, args...)
}

// ty renders a type expression.
func (c *fileCtx) ty(t *Ty) string {
	switch t.K {
	case "named":
		s := c.q(t.Decl.Pkg) + t.Decl.Name
		if len(t.TArgs) > 0 {
			var as []string
			for _, a := range t.TArgs {
				as = append(as, c.ty(a))
			}
			s += "[" + strings.Join(as, ", ") + "]"
		}
		return s
	case "basic":
		if t.Name == "tr.ID" {
			return c.tr() + ".ID"
		}
		if t.Name == "unsafe.Pointer" {
			return c.imp("unsafe", "unsafe") + ".Pointer"
		}
		return t.Name
	case "ptr":
		return "*" + c.ty(t.Elem)
	case "slice":
		return "[]" + c.ty(t.Elem)
	case "array":
		return fmt.Sprintf("[%d]%s", t.N, c.ty(t.Elem))
	case "map":
		return "map[" + c.ty(t.MapKey) + "]" + c.ty(t.Elem)
	case "chan":
		d := t.Dir
		if d == "" {
			d = "chan"
		}
		if t.Dir == "" && t.Elem.K == "chan" && t.Elem.Dir == "<-chan" {
			return d + " (" + c.ty(t.Elem) + ")"
		}
		return d + " " + c.ty(t.Elem)
	case "func":
		var ps []string
		for i, x := range t.Params {
			if t.Var && i == len(t.Params)-1 {
				ps = append(ps, "..."+c.ty(x.Elem))
				continue
			}
			ps = append(ps, c.ty(x))
		}
		s := "func(" + strings.Join(ps, ", ") + ")"
		if t.Elem != nil {
			s += " " + c.ty(t.Elem)
		}
		return s
	case "struct":
		var fs []string
		for _, f := range t.Fields {
			s := f.Name + " " + c.ty(f.Ty)
			if f.Embedded {
				s = c.ty(f.Ty)
			}
			if f.Tag != "" {
				s += " `" + f.Tag + "`"
			}
			fs = append(fs, s)
		}
		if len(fs) == 0 {
			return "struct{}"
		}
		return "struct{ " + strings.Join(fs, "; ") + " }"
	case "iface":
		var fs []string
		for _, em := range t.Embeds {
			fs = append(fs, c.ty(em))
		}
		for _, m := range t.Meths {
			fs = append(fs, m+"()")
		}
		if len(fs) == 0 {
			return "interface{}"
		}
		return "interface{ " + strings.Join(fs, "; ") + " }"
	}
	panic("bad ty kind " + t.K)
}

// mk renders an expression producing a value of type t that carries identity id.
// id is a Go expression of type tr.ID (or an integer literal when konst).
func (c *fileCtx) mk(t *Ty, id string, konst bool) string {
	switch t.K {
	case "named":
		d := t.Decl
		name := c.ty(t)
		if d.Alias {
			// build as the target, typed through the alias where composite
			u := d.Under
			if u.K == "named" && u.Decl.Carrier == "struct" {
				return name + "{ID_: " + id + "}"
			}
			return c.mk(u, id, konst)
		}
		switch d.Carrier {
		case "struct":
			return name + "{ID_: " + id + "}"
		case "int":
			return name + "(" + id + ")"
		case "string":
			if konst {
				return name + `("id:` + id + `")`
			}
			return name + "(" + c.tr() + ".S(" + id + "))"
		case "wrap":
			// named type over a composite: convert the composite value
			return name + "(" + c.mk(d.Under, id, konst) + ")"
		case "opaque":
			return name + "{}"
		case "bool":
			return name + "(true)"
		case "complexop":
			return name + "(complex(float64(" + id + "), 0))"
		case "uptr":
			return name + "(" + c.imp("unsafe", "unsafe") + ".Pointer(" + c.tr() + ".Ptr(" + id + ")))"
		case "iface":
			// interface: produce the implementation
			return name + "(" + c.mk(d.Under.Params[0], id, konst) + ")"
		case "parent":
			// struct with ID_ and carrier fields filled with fresh ids
			var fs []string
			fs = append(fs, "ID_: "+id)
			for _, f := range d.Under.Fields {
				if f.Name == "ID_" {
					continue
				}
				if isPrevented(f) && f.Ty.K == "basic" {
					continue
				}
				var fid string
				if konst {
					fid = id + strconv.Itoa(len(fs))
				} else {
					fid = c.tr() + ".New()"
				}
				fs = append(fs, fieldName(f)+": "+c.mk(f.Ty, fid, konst))
			}
			return name + "{" + strings.Join(fs, ", ") + "}"
		}
		panic("mk: decl without carrier: " + d.Name + " " + d.Carrier)
	case "basic":
		switch t.Name {
		case "string":
			if konst {
				return `"id:` + id + `"`
			}
			return c.tr() + ".S(" + id + ")"
		case "bool":
			return "true"
		case "tr.ID":
			return c.ty(t) + "(" + id + ")"
		case "unsafe.Pointer":
			return c.ty(t) + "(" + c.tr() + ".Ptr(" + id + "))"
		case "error":
			return "error(&" + c.tr() + ".Err{Key: \"value\", N: int64(" + id + ")})"
		case "complex64":
			return "complex64(complex(float64(" + id + "), 0))"
		case "complex128":
			return "complex(float64(" + id + "), 0)"
		default:
			return t.Name + "(" + id + ")"
		}
	case "ptr":
		if t.Elem.K == "named" && (t.Elem.Decl.Carrier == "struct" || t.Elem.Decl.Carrier == "parent") && !t.Elem.Decl.Alias {
			return "&" + c.mk(t.Elem, id, konst)
		}
		if konst {
			panic("mk: const pointer to non-struct")
		}
		return c.tr() + ".Ptr(" + c.mk(t.Elem, id, konst) + ")"
	case "slice":
		return c.ty(t) + "{" + c.mk(t.Elem, id, konst) + "}"
	case "array":
		return c.ty(t) + "{" + c.mk(t.Elem, id, konst) + "}"
	case "map":
		k := `"id"`
		if t.MapKey.K == "basic" && t.MapKey.Name != "string" {
			k = "0"
		}
		return c.ty(t) + "{" + k + ": " + c.mk(t.Elem, id, konst) + "}"
	case "chan":
		if konst {
			panic("mk: const chan")
		}
		e := c.tr() + ".Chan[" + c.ty(t.Elem) + "](" + id + ")"
		if t.Dir != "" {
			return "(" + c.ty(t) + ")(" + e + ")"
		}
		return e
	case "func":
		if konst {
			panic("mk: const func")
		}
		var ps []string
		for i, x := range t.Params {
			if t.Var && i == len(t.Params)-1 {
				ps = append(ps, "_ ..."+c.ty(x.Elem))
				continue
			}
			ps = append(ps, "_ "+c.ty(x))
		}
		return "func(" + strings.Join(ps, ", ") + ") " + c.ty(t.Elem) + " { return " + c.mk(t.Elem, id, konst) + " }"
	case "struct":
		return c.ty(t) + "{ID_: " + id + "}"
	case "iface":
		if len(t.Params) > 0 {
			// an interface literal with methods: Params[0] is a type implementing it
			return c.ty(t) + "(" + c.mk(t.Params[0], id, konst) + ")"
		}
		return c.ty(t) + "(" + id + ")"
	}
	panic("mk: bad kind " + t.K)
}

// ConstExpressible reports whether mk(t, id, konst=true) works.
func ConstExpressible(t *Ty) bool {
	switch t.K {
	case "named":
		d := t.Decl
		if d.Alias {
			return ConstExpressible(d.Under)
		}
		switch d.Carrier {
		case "struct", "int", "string":
			return true
		case "wrap":
			return ConstExpressible(d.Under)
		case "parent":
			for _, f := range d.Under.Fields {
				if f.Name != "ID_" && !ConstExpressible(f.Ty) {
					return false
				}
			}
			return true
		}
		return false
	case "basic":
		return t.Name != "error"
	case "ptr":
		return t.Elem.K == "named" && (t.Elem.Decl.Carrier == "struct" || t.Elem.Decl.Carrier == "parent") && !t.Elem.Decl.Alias
	case "slice", "array", "map":
		return ConstExpressible(t.Elem)
	case "struct":
		return true
	}
	return false
}

// itemExpr renders a member of wire.Build/wire.NewSet.
func (c *fileCtx) itemExpr(it *Item) string {
	w := c.wire()
	switch it.Kind {
	case KFunc:
		return c.q(it.Pkg) + it.Name
	case KStruct:
		s := w + ".Struct(new(" + c.ty(it.Struct) + ")"
		if it.Star {
			s += `, "*"`
		}
		for _, n := range it.Names {
			s += ", " + strconv.Quote(n)
		}
		return s + ")"
	case KStructLit:
		return c.ty(it.Struct) + "{}"
	case KValue:
		return w + ".Value(" + c.valueExpr(it) + ")"
	case KIfaceValue:
		return w + ".InterfaceValue(new(" + c.ty(it.Iface) + "), " + c.valueExpr(it) + ")"
	case KBind:
		switch it.Spelling {
		case "typed-nil-second":
			return w + ".Bind(new(" + c.ty(it.Iface) + "), (*" + c.ty(it.Concrete) + ")(nil))"
		case "typed-nil-both":
			return w + ".Bind((*" + c.ty(it.Iface) + ")(nil), (*" + c.ty(it.Concrete) + ")(nil))"
		}
		return w + ".Bind(new(" + c.ty(it.Iface) + "), new(" + c.ty(it.Concrete) + "))"
	case KFields:
		s := w + ".FieldsOf(new(" + c.ty(it.Parent) + ")"
		for _, n := range it.Names {
			s += ", " + strconv.Quote(n)
		}
		return s + ")"
	}
	panic("bad item kind")
}

func (c *fileCtx) valueExpr(it *Item) string {
	if it.Expr != "" {
		e := it.Expr
		for _, pk := range it.ExprPkgs {
			e = strings.ReplaceAll(e, fmt.Sprintf("%%P%d%%", pk), c.q(pk))
		}
		if strings.Contains(e, "%TR%") {
			e = strings.ReplaceAll(e, "%TR%", c.tr()+".")
		}
		return e
	}
	t := it.Out
	if it.Kind == KIfaceValue {
		t = it.Concrete
	}
	return c.mk(t, strconv.FormatInt(it.ValID, 10), true)
}

func (c *fileCtx) refExpr(r Ref) string {
	if r.Set >= 0 {
		s := c.p.Sets[r.Set]
		if s.Inline {
			var ms []string
			for _, m := range s.Members {
				ms = append(ms, c.refExpr(m))
			}
			return c.wire() + ".NewSet(" + strings.Join(ms, ", ") + ")"
		}
		return c.q(s.Pkg) + s.Name
	}
	return c.itemExpr(c.p.Items[r.Item])
}

func (c *fileCtx) file(header string) string {
	var b strings.Builder
	b.WriteString(header)
	fmt.Fprintf(&b, "package %s\n\n", c.p.Pkgs[c.pkg].Name)
	if len(c.imports) > 0 {
		var paths []string
		for p := range c.imports {
			paths = append(paths, p)
		}
		sort.Strings(paths)
		b.WriteString("import (\n")
		for _, p := range paths {
			fmt.Fprintf(&b, "\t%s %q\n", c.imports[p], p)
		}
		for _, p := range c.blank {
			// possibly the same path a second time (legal Go)
			fmt.Fprintf(&b, "\t_ %q\n", p)
		}
		b.WriteString(")\n\n")
	} else if len(c.blank) > 0 {
		b.WriteString("import (\n")
		for _, p := range c.blank {
			fmt.Fprintf(&b, "\t_ %q\n", p)
		}
		b.WriteString(")\n\n")
	}
	b.WriteString(c.body.String())
	return b.String()
}

// Files renders all files of a program: map from path relative to the module root to content.
// withDriver: render the driver (only for programs expected to be accepted).
func (p *Program) Files(withDriver bool) map[string]string {
	files := map[string]string{}
	an := Analyze(p)
	for pi := range p.Pkgs {
		dir := filepath.Join(p.ID, p.Pkgs[pi].Dir)
		// --- declarations
		c := newFileCtx(p, pi)
		for _, d := range p.Decls {
			if d.Pkg != pi {
				continue
			}
			c.renderDecl(d)
		}
		for _, it := range p.Items {
			if it.Kind == KFunc && it.Pkg == pi {
				c.renderFunc(it)
			}
		}
		if pi == 0 {
			for _, v := range p.PkgVars {
				if strings.Contains(v, "%TR%") {
					v = strings.ReplaceAll(v, "%TR%", c.tr()+".")
				}
				c.pf("%s\n\n", v)
			}
		}
		if c.body.Len() > 0 {
			files[filepath.Join(dir, "decl.go")] = c.file("")
		}
		// --- sets (non-inject file)
		c = newFileCtx(p, pi)
		for _, s := range p.Sets {
			if s.Pkg != pi || s.InInjectFile || s.Inline {
				continue
			}
			c.renderSet(s)
		}
		if c.body.Len() > 0 {
			files[filepath.Join(dir, "sets.go")] = c.file("")
		}
		if pi != 0 {
			for k, v := range p.Extra {
				if strings.HasPrefix(k, strconv.Itoa(pi)+"/") {
					files[filepath.Join(dir, strings.TrimPrefix(k, strconv.Itoa(pi)+"/"))] = v
				}
			}
			continue
		}
		// --- injector files
		nfiles := 0
		for _, in := range p.Injs {
			if in.File+1 > nfiles {
				nfiles = in.File + 1
			}
		}
		for f := 0; f < nfiles; f++ {
			c = newFileCtx(p, 0)
			// a parameter name would shadow an import inside the template body
			for _, in := range p.Injs {
				if in.File == f {
					for _, prm := range in.Params {
						c.names[prm.Name] = true
					}
				}
			}
			c.wire()
			for _, in := range p.Injs {
				if in.File == f {
					c.renderInjector(in)
				}
			}
			if f == 1 && p.InjRawB != "" {
				c.pf("%s\n", p.InjRawB)
			}
			if f == 0 {
				for _, s := range p.Sets {
					if s.Pkg == 0 && s.InInjectFile && !s.Inline {
						c.renderSet(s)
					}
				}
				c.blank = append(c.blank, p.InjBlankImports...)
				if p.BlankLibs == "injector" {
					c.blank = append(c.blank, p.blankLibPaths()...)
				}
				if p.InjRaw != "" {
					c.pf("%s\n", p.InjRaw)
				}
				for ip, nm := range p.InjImports {
					c.imports[ip] = nm
				}
			}
			name := "wire.go"
			if f > 0 {
				name = fmt.Sprintf("wire_%c.go", 'a'+f)
			}
			hdr := "//go:build wireinject\n// +build wireinject\n\n"
			if p.GeneratedHeader {
				hdr = "// Code generated by mkwire from app.tmpl. DO NOT EDIT.\n\n" + hdr
			}
			files[filepath.Join(dir, name)] = c.file(hdr)
		}
		for k, v := range p.Extra {
			if strings.HasPrefix(k, "0/") {
				files[filepath.Join(dir, strings.TrimPrefix(k, "0/"))] = v
			}
		}
		if p.BlankLibs == "file" {
			src := "package " + p.Pkgs[0].Name + "\n\nimport (\n"
			for _, ip := range p.blankLibPaths() {
				src += "\t_ \"" + ip + "\"\n"
			}
			src += "\t_ \"fmt\"\n)\n"
			files[filepath.Join(dir, "blank_imports.go")] = src
		}
		// --- driver
		if withDriver {
			c = newFileCtx(p, 0)
			c.renderDriver(an)
			files[filepath.Join(dir, "zz_driver.go")] = c.file("//go:build !wireinject\n// +build !wireinject\n\n")
		}
	}
	return files
}

func (c *fileCtx) renderDecl(d *TypeDecl) {
	tp := ""
	if d.TParams > 0 {
		var ps []string
		for i := 0; i < d.TParams; i++ {
			ps = append(ps, fmt.Sprintf("T%d any", i))
		}
		tp = "[" + strings.Join(ps, ", ") + "]"
	}
	if d.Alias {
		c.pf("type %s = %s\n\n", d.Name, c.ty(d.Under))
		return
	}
	if d.Carrier == "iface" {
		// Under: iface type with Meths; Params[0] = implementation type (model-only)
		u := &Ty{K: "iface", Meths: d.Under.Meths, Embeds: d.Under.Embeds}
		c.pf("type %s%s %s\n\n", d.Name, tp, c.ty(u))
	} else {
		c.pf("type %s%s %s\n\n", d.Name, tp, c.ty(d.Under))
	}
	for _, m := range d.Methods {
		recv := d.Name
		if d.TParams > 0 {
			var ps []string
			for i := 0; i < d.TParams; i++ {
				ps = append(ps, fmt.Sprintf("T%d", i))
			}
			recv += "[" + strings.Join(ps, ", ") + "]"
		}
		if m.PtrRecv {
			recv = "*" + recv
		}
		c.pf("func (%s) %s() {}\n\n", recv, m.Name)
	}
}

func (c *fileCtx) renderFunc(it *Item) {
	var ps, pn []string
	for i, t := range it.Params {
		n := fmt.Sprintf("p%d", i)
		if i < len(it.PNames) && it.PNames[i] != "" {
			n = it.PNames[i]
		}
		pn = append(pn, n)
		if it.Variadic && i == len(it.Params)-1 {
			ps = append(ps, n+" ..."+c.ty(t.Elem))
		} else {
			ps = append(ps, n+" "+c.ty(t))
		}
	}
	if it.RawResults != nil {
		res := strings.Join(it.RawResults, ", ")
		for _, d := range c.p.Decls {
			res = strings.ReplaceAll(res, fmt.Sprintf("%%D%d%%", d.ID), c.q(d.Pkg)+d.Name)
		}
		if len(it.RawResults) > 1 {
			res = "(" + res + ")"
		}
		c.pf("func %s(%s) %s {\n\tpanic(\"never called\")\n}\n\n", it.Name, strings.Join(ps, ", "), res)
		return
	}
	res := c.ty(it.Out)
	switch {
	case it.Cleanup && it.Err:
		res = "(" + res + ", func(), error)"
	case it.Cleanup:
		res = "(" + res + ", func())"
	case it.Err:
		res = "(" + res + ", error)"
	}
	if it.Stub {
		c.pf("func %s(%s) %s {\n\tpanic(\"stub\")\n}\n\n", it.Name, strings.Join(ps, ", "), res)
		return
	}
	tr := c.tr()
	c.pf("func %s(%s) %s {\n", it.Name, strings.Join(ps, ", "), res)
	args := ""
	for _, n := range pn {
		args += ", " + n
	}
	if it.Err {
		c.pf("\tif e_ := %s.Fail(%q%s); e_ != nil {\n", tr, it.Key, args)
		if it.Cleanup {
			c.pf("\t\treturn *new(%s), %s.Poison(%q), e_\n", c.ty(it.Out), tr, it.Key)
		} else {
			c.pf("\t\treturn *new(%s), e_\n", c.ty(it.Out))
		}
		c.pf("\t}\n")
	}
	c.pf("\tid_ := %s.New()\n\t_ = id_\n", tr)
	c.pf("\tv_ := %s\n", c.mk(it.Out, "id_", false))
	c.pf("\t%s.Prov(%q, v_%s)\n", tr, it.Key, args)
	if it.Mutate {
		for i, t := range it.Params {
			if t.K == "ptr" && t.Elem.K == "named" && t.Elem.Decl.Under != nil && t.Elem.Decl.Under.K == "struct" {
				for _, f := range t.Elem.Decl.Under.Fields {
					if f.Name == "Scratch_" {
						c.pf("\t%s.Scratch_ += 7\n", pn[i])
					}
				}
			}
		}
	}
	switch {
	case it.Cleanup && it.Err:
		c.pf("\treturn v_, %s.Cleanup(%q), nil\n", tr, it.Key)
	case it.Cleanup:
		c.pf("\treturn v_, %s.Cleanup(%q)\n", tr, it.Key)
	case it.Err:
		c.pf("\treturn v_, nil\n")
	default:
		c.pf("\treturn v_\n")
	}
	c.pf("}\n\n")
}

func (c *fileCtx) renderSet(s *Set) {
	if s.AliasOf > 0 {
		t := c.p.Sets[s.AliasOf-1]
		c.pf("var %s = %s%s\n\n", s.Name, c.q(t.Pkg), t.Name)
		return
	}
	if s.Joined {
		return
	}
	var ms []string
	for _, m := range s.Members {
		ms = append(ms, c.refExpr(m))
	}
	if s.JoinWith > 0 {
		t := c.p.Sets[s.JoinWith-1]
		var ts []string
		for _, m := range t.Members {
			ts = append(ts, c.refExpr(m))
		}
		c.pf("var %s, %s = %s.NewSet(%s), %s.NewSet(%s)\n\n", s.Name, t.Name, c.wire(), strings.Join(ms, ", "), c.wire(), strings.Join(ts, ", "))
		return
	}
	if len(s.BlankSibling) > 0 {
		var bs []string
		for _, m := range s.BlankSibling {
			bs = append(bs, c.refExpr(m))
		}
		own, other := c.wire()+".NewSet("+strings.Join(ms, ", ")+")", c.wire()+".NewSet("+strings.Join(bs, ", ")+")"
		if s.SiblingAfter {
			c.pf("var %s, _ = %s, %s\n\n", s.Name, own, other)
		} else {
			c.pf("var _, %s = %s, %s\n\n", s.Name, other, own)
		}
		return
	}
	if s.Grouped {
		c.pf("var (\n\tgroupedBefore%s = 1\n\t%s = %s.NewSet(%s)\n\tgroupedAfter%s = \"x\"\n)\n\n", s.Name, s.Name, c.wire(), strings.Join(ms, ", "), s.Name)
		return
	}
	if len(ms) <= 2 {
		c.pf("var %s = %s.NewSet(%s)\n\n", s.Name, c.wire(), strings.Join(ms, ", "))
		return
	}
	c.pf("var %s = %s.NewSet(\n\t%s,\n)\n\n", s.Name, c.wire(), strings.Join(ms, ",\n\t"))
}

func (c *fileCtx) injSig(in *Injector, withNames bool) (params, results string) {
	var ps []string
	for i, prm := range in.Params {
		t := c.ty(prm.Ty)
		if in.Variadic && i == len(in.Params)-1 {
			t = "..." + c.ty(prm.Ty.Elem)
		}
		if withNames && prm.Name != "" {
			ps = append(ps, prm.Name+" "+t)
		} else {
			ps = append(ps, t)
		}
	}
	if in.RawResults != nil {
		res := strings.Join(in.RawResults, ", ")
		for _, d := range c.p.Decls {
			res = strings.ReplaceAll(res, fmt.Sprintf("%%D%d%%", d.ID), c.q(d.Pkg)+d.Name)
		}
		if len(in.RawResults) > 1 {
			res = "(" + res + ")"
		}
		return strings.Join(ps, ", "), res
	}
	res := c.ty(in.Result)
	if withNames && len(in.ResultNames) > 0 {
		rs := []string{in.ResultNames[0] + " " + res}
		i := 1
		if in.Cleanup {
			rs = append(rs, in.ResultNames[i]+" func()")
			i++
		}
		if in.Err {
			rs = append(rs, in.ResultNames[i]+" error")
		}
		return strings.Join(ps, ", "), "(" + strings.Join(rs, ", ") + ")"
	}
	switch {
	case in.Cleanup && in.Err:
		res = "(" + res + ", func(), error)"
	case in.Cleanup:
		res = "(" + res + ", func())"
	case in.Err:
		res = "(" + res + ", error)"
	}
	return strings.Join(ps, ", "), res
}

func (c *fileCtx) renderInjector(in *Injector) {
	// all-or-none parameter names: Go requires either all named or none
	named := false
	for _, prm := range in.Params {
		if prm.Name != "" {
			named = true
		}
	}
	in2 := *in
	if named {
		in2.Params = nil
		for _, prm := range in.Params {
			if prm.Name == "" {
				prm.Name = "_"
			}
			in2.Params = append(in2.Params, prm)
		}
	}
	ps, res := c.injSig(&in2, true)
	var ms []string
	for _, m := range in.Build {
		ms = append(ms, c.refExpr(m))
	}
	build := c.wire() + ".Build(" + strings.Join(ms, ", ") + ")"
	if len(ms) > 2 {
		build = c.wire() + ".Build(\n\t\t" + strings.Join(ms, ",\n\t\t") + ",\n\t)"
	}
	if in.Doc != "" {
		c.pf("%s\n", in.Doc)
	}
	c.pf("func %s(%s) %s {\n", in.Name, ps, res)
	if in.Panic || in.RawResults != nil {
		c.pf("\tpanic(%s)\n}\n\n", build)
		return
	}
	c.pf("\t%s\n", build)
	ret := "*new(" + c.ty(in.Result) + ")"
	if in.Cleanup {
		ret += ", nil"
	}
	if in.Err {
		ret += ", nil"
	}
	c.pf("\treturn %s\n}\n\n", ret)
}

func (c *fileCtx) renderDriver(an *Analysis) {
	p := c.p
	tr := c.tr()
	for _, in := range p.Injs {
		ps, res := c.injSig(in, false)
		c.pf("var _ func(%s) %s = %s\n", ps, res, in.Name)
	}
	c.pf("\nfunc Scenarios() {\n")
	for i, in := range p.Injs {
		pl := an.Injs[i]
		var keys []string
		for _, k := range pl.ErrKeys {
			keys = append(keys, strconv.Quote(k))
		}
		c.pf("\t%s.Injector(%q, %q, []string{%s}, func(c_ *%s.Call) {\n", tr, p.ID, in.Name, strings.Join(keys, ", "), tr)
		var args []string
		for j, prm := range in.Params {
			c.pf("\t\ti%d_ := %s.New()\n\t\t_ = i%d_\n", j, tr, j)
			c.pf("\t\ta%d_ := %s\n", j, c.mk(prm.Ty, fmt.Sprintf("i%d_", j), false))
			a := fmt.Sprintf("a%d_", j)
			args = append(args, a)
		}
		c.pf("\t\tc_.Enter(%s)\n", strings.Join(args, ", "))
		call := append([]string(nil), args...)
		if in.Variadic {
			call[len(call)-1] += "..."
		}
		switch {
		case in.Cleanup && in.Err:
			c.pf("\t\tres_, cu_, err_ := %s(%s)\n", in.Name, strings.Join(call, ", "))
			c.pf("\t\tc_.Ret(&res_, true, cu_ == nil, true, err_)\n")
			c.pf("\t\tif err_ == nil && cu_ != nil {\n\t\t\tc_.CuInvoke()\n\t\t\tcu_()\n\t\t\tc_.CuDone()\n\t\t}\n")
		case in.Cleanup:
			c.pf("\t\tres_, cu_ := %s(%s)\n", in.Name, strings.Join(call, ", "))
			c.pf("\t\tc_.Ret(&res_, true, cu_ == nil, false, nil)\n")
			c.pf("\t\tif cu_ != nil {\n\t\t\tc_.CuInvoke()\n\t\t\tcu_()\n\t\t\tc_.CuDone()\n\t\t}\n")
		case in.Err:
			c.pf("\t\tres_, err_ := %s(%s)\n", in.Name, strings.Join(call, ", "))
			c.pf("\t\tc_.Ret(&res_, false, true, true, err_)\n")
		default:
			c.pf("\t\tres_ := %s(%s)\n", in.Name, strings.Join(call, ", "))
			c.pf("\t\tc_.Ret(&res_, false, true, false, nil)\n")
		}
		c.pf("\t})\n")
	}
	c.pf("}\n")
}

// ---------------------------------------------------------------------------
// Module-level files

// WriteModule writes go.mod, the wire marker module and the tr package.
func WriteModule(root string, repo string, trSrc []byte) error {
	if err := os.MkdirAll(filepath.Join(root, "wiremod"), 0o755); err != nil {
		return err
	}
	gomod := "module " + ModulePath + "\n\ngo 1.21\n\nrequire github.com/google/wire v0.0.0\n\nreplace github.com/google/wire => ./wiremod\n"
	if err := os.WriteFile(filepath.Join(root, "go.mod"), []byte(gomod), 0o644); err != nil {
		return err
	}
	w, err := os.ReadFile(filepath.Join(repo, "wire.go"))
	if err != nil {
		return err
	}
	if err := os.WriteFile(filepath.Join(root, "wiremod", "wire.go"), w, 0o644); err != nil {
		return err
	}
	if err := os.WriteFile(filepath.Join(root, "wiremod", "go.mod"), []byte("module github.com/google/wire\n\ngo 1.12\n"), 0o644); err != nil {
		return err
	}
	if err := os.MkdirAll(filepath.Join(root, "tr"), 0o755); err != nil {
		return err
	}
	return os.WriteFile(filepath.Join(root, "tr", "tr.go"), trSrc, 0o644)
}

// WriteFiles writes rendered files under root.
func WriteFiles(root string, files map[string]string) error {
	for rel, content := range files {
		path := filepath.Join(root, rel)
		if err := os.MkdirAll(filepath.Dir(path), 0o755); err != nil {
			return err
		}
		if err := os.WriteFile(path, []byte(content), 0o644); err != nil {
			return err
		}
	}
	return nil
}
