package fw

import (
	"fmt"
	"math/rand"
	"regexp"
	"sort"
	"strconv"
	"strings"
	"time"
	"unicode"
)

var idRe = regexp.MustCompile(`#(\d+)`)

// wiringSig renders the wiring of one call with identities replaced by the label of
// their producer, so that calls of different runs / variants are comparable.
func wiringSig(ct *CallTrace) string {
	label := map[int64]string{}
	var walk func(d *D, base string)
	walk = func(d *D, base string) {
		if d == nil {
			return
		}
		if d.ID != 0 && d.ID < 1000000 {
			if _, ok := label[d.ID]; !ok {
				label[d.ID] = base
			}
		}
		for _, f := range d.F {
			walk(f.D, base+"."+f.N)
		}
		for i, e := range d.E {
			walk(e, base+"["+strconv.Itoa(i)+"]")
		}
	}
	relabel := func(d *D) string {
		return idRe.ReplaceAllStringFunc(d.Canon(), func(m string) string {
			n, _ := strconv.ParseInt(m[1:], 10, 64)
			if l, ok := label[n]; ok {
				return "<" + l + ">"
			}
			if n >= 1000000 {
				return m
			}
			return "<?>"
		})
	}
	var lines []string
	ret := ""
	for _, e := range ct.Events {
		switch e.Ev {
		case "inj_enter":
			for i, a := range e.Args {
				walk(a, "arg"+strconv.Itoa(i))
			}
		case "prov":
			var ins []string
			for _, in := range e.In {
				ins = append(ins, relabel(in))
			}
			lines = append(lines, e.Key+"("+strings.Join(ins, ", ")+")")
			walk(e.Out, e.Key)
		case "inj_ret":
			ret = "ret=" + relabel(e.Res)
		}
	}
	sort.Strings(lines)
	return strings.Join(lines, "\n") + "\n" + ret
}

// firstSuccessSigs maps injector -> wiring signature of its first fault-free call.
func firstSuccessSigs(pr *ProgResult) map[string]string {
	m := map[string]string{}
	for _, ct := range pr.Calls {
		if ct.Plan != "" {
			continue
		}
		if _, ok := m[ct.Inj]; !ok {
			m[ct.Inj] = wiringSig(ct)
		}
	}
	return m
}

// CheckC10 — well-formed programs are accepted however grouped or ordered.
func CheckC10(e *Env) int {
	t0 := time.Now()
	rep := NewReport(e, "C10", "exploration", "generated well-formed programs, each in 6 variants that keep the same providers and injectors but regroup them (flat, random nesting, deep nesting, sets relocated to other packages) and permute every argument list; every variant must be accepted, pass the wiring oracle, and have the same producer-labelled wiring as the base variant; plus false-conflict probes (both forms of one struct provider consumed, items used only through bindings); distinct = (program shape, variant kind)")
	nbase := e.tierN(60, 600)
	type vk struct {
		name string
		mod  func(o *GenOpts)
	}
	variants := []vk{
		{"base", nil},
		{"regroup1", nil},
		{"regroup2", nil},
		{"flat", func(o *GenOpts) { o.FlatOnly = true }},
		{"forcesets", func(o *GenOpts) { o.ForceSets = true }},
		{"regroup3", nil},
	}
	var progs []*Program
	type key struct{ base, v int }
	idOf := map[string]key{}
	for i := 0; i < nbase; i++ {
		for v, vr := range variants {
			r := Rng(e.Seed, "c10", i)
			o := DefaultGenOpts()
			o.MinNodes, o.MaxNodes = 3+i%7, 6+i%16
			o.NPkgs = 1 + i%4
			o.NInj = 1 + i%3
			o.PCleanup, o.PErr = 0.3, 0.2
			if vr.mod != nil {
				vr.mod(&o)
			}
			lr := Rng(e.Seed, "c10layout", i*16+v)
			id := fmt.Sprintf("v%04d_%d", i, v)
			g := GenProgramLayout(id, r, lr, o)
			g.P.Feat["variant"] = vr.name
			g.P.Note = "variant:" + vr.name
			progs = append(progs, g.P)
			idOf[id] = key{i, v}
		}
	}
	// a base set shared by wrappers that each add a different source for one interface
	progs = append(progs, sharedBaseFamily()...)
	// which package declares a set must not matter even when two packages share their package
	// clause and the names of their members
	progs = append(progs, twinPackagesFamily()...)
	// adapters between types that differ only in the order of their parts: accepted
	progs = append(progs, permutedSignatureFamily()...)
	// how a set variable is DECLARED does not matter either
	progs = append(progs, multiNameSetSpecFamily()...)
	results := RunPool(e, progs, PoolOpts{Execute: true, Name: "c10"})
	byKey := map[key]*ProgResult{}
	for _, pr := range results {
		EvalAccepted(pr)
		if k, ok := idOf[pr.P.ID]; ok {
			byKey[k] = pr
		}
	}
	// variant vs base wiring
	for i := 0; i < nbase; i++ {
		base := byKey[key{i, 0}]
		if base == nil || len(base.Issues) > 0 || base.Calls == nil {
			continue
		}
		bs := firstSuccessSigs(base)
		for v := 1; v < len(variants); v++ {
			pr := byKey[key{i, v}]
			if pr == nil || pr.Calls == nil || len(pr.Issues) > 0 {
				continue
			}
			vs := firstSuccessSigs(pr)
			for inj, sig := range bs {
				pr.Stats["variant_wiring_compared"]++
				if vs[inj] != sig {
					pr.add("C10", fmt.Sprintf("wiring of %s differs between the base grouping and variant %s", inj, variants[v].name), "base:\n"+sig+"\n\nvariant:\n"+vs[inj])
				}
			}
		}
	}
	reportPool(rep, results, "C02", "C01")
	addSamples(rep, results, 2)
	// false-conflict probes
	runRejectCases(e, rep, append(indirectUseControls(), c10Probes()...), "c10p")
	// value expressions: the same expression listed in the injector's own package and in a set
	// declared by another package must be accepted in both places and deliver the same value
	runValueCases(e, rep, c13RelocationExprs(), "c10v")
	// ... and the same expression text written in sets of two packages that give the names
	// different meanings: which package declares the set decides what is wired
	tp, tkeys, tpairs := c13TwinProgram("gtwin")
	tres := RunPool(e, []*Program{tp}, PoolOpts{Execute: true, Name: "c10tw", BatchSize: 1})
	judgeTwin(rep, tres[0], tkeys, tpairs)
	if rep.Counters["variant_wiring_compared"] == 0 {
		rep.Incon = append(rep.Incon, "no variant pair was compared")
	}
	return rep.Finish(t0)
}

func c10Probes() []*RejectCase {
	var out []*RejectCase
	{ // both forms of one struct provider consumed
		b := NewPB("pr1", "app")
		x := b.Carrier(0, "X")
		fx := b.Func(0, "NewX", x, false, false)
		fx.Stub = true
		s := b.NamedOf(0, "S", StructOf(FieldT{Name: "F", Ty: x}), "none")
		st := b.Struct(s, true)
		u1, u2 := b.Carrier(0, "U1"), b.Carrier(0, "U2")
		f1 := b.Func(0, "NewU1", u1, false, false, s)
		f2 := b.Func(0, "NewU2", u2, false, false, PtrTo(s), u1)
		f1.Stub, f2.Stub = true, true
		b.Inj("Init", u2, false, false, nil, refs(fx, st, f1, f2)...)
		b.P.Note = "probe:both-struct-forms"
		out = append(out, &RejectCase{P: b.P, Control: true, Cell: "probe:both-struct-forms"})
	}
	{ // both F and *F of a field provider consumed
		b := NewPB("pr2", "app")
		ft := b.Carrier(0, "FT")
		par := b.NamedOf(0, "Par", StructOf(idField, FieldT{Name: "Fld", Ty: ft}), "parent")
		fp := b.Func(0, "NewPar", PtrTo(par), false, false)
		fp.Stub = true
		fl := b.Fields(PtrTo(par), "Fld")
		u := b.Carrier(0, "U")
		fu := b.Func(0, "NewU", u, false, false, ft, PtrTo(ft))
		fu.Stub = true
		b.Inj("Init", u, false, false, nil, refs(fp, fl, fu)...)
		b.P.Note = "probe:both-field-forms"
		out = append(out, &RejectCase{P: b.P, Control: true, Cell: "probe:both-field-forms"})
	}
	{ // two interfaces bound to one concrete type, set declared in another package
		b := NewPB("pr3", "app", "libp")
		c := b.Carrier(1, "Conc")
		i1 := b.Iface(1, "I1", c, false)
		i2 := b.Iface(0, "I2", c, false)
		fc := b.Func(1, "NewConc", c, false, false)
		fc.Stub = true
		s := b.Set(1, "Set", ItemRef(fc.ID), ItemRef(b.Bind(i1, c).ID))
		u := b.Carrier(0, "U")
		fu := b.Func(0, "NewU", u, false, false, i1, i2)
		fu.Stub = true
		b.Inj("Init", u, false, false, nil, SetRef(s.ID), ItemRef(b.Bind(i2, c).ID), ItemRef(fu.ID))
		b.P.Note = "probe:two-bindings-one-concrete"
		out = append(out, &RejectCase{P: b.P, Control: true, Cell: "probe:two-bindings-one-concrete"})
	}
	return out
}

// ---------------------------------------------------------------------------
// C14: adversarial naming

var advTypeNames = []string{"Err", "Err2", "Err3", "Cleanup", "Cleanup2", "Cleanup3", "Cleanup4", "Cleanup5", "Select", "Type", "Func", "Go", "Var", "Range", "Chan", "Map",
	"Nil", "True", "False", "String", "Error", "Len", "New", "Make", "Int", "Bool", "Any", "Iota", "Append",
	"Foo", "Foo1", "Foo2", "Foo1_2", "Wire", "Fmt", "Context", "Arg", "V", "Tr", "Ωmega", "Ñu", "Ärger", "App", "Liba", "Libb", "Libc",
	"WireFooValue", "Foo2_2", "Err_", "X", "T", "Bar", "Bar2", "Baz"}

var advParamNames = []string{"err", "err2", "err3", "cleanup", "cleanup2", "cleanup3", "cleanup4", "_", "", "wire", "tr", "fmt", "context", "liba", "libb", "libc", "app",
	"foo", "foo2", "foo1", "arg", "v", "select2", "string2", "nil", "true", "len", "error2", "ωmega", "x"}

var advPkgNames = []string{"err", "cleanup", "lib", "lib", "wire", "fmt", "context", "foo", "select2", "t", "v", "x", "arg", "err2", "tr"}

func lowerFirst(s string) string {
	r := []rune(s)
	r[0] = unicode.ToLower(r[0])
	return string(r)
}

var goKeywords = map[string]bool{"break": true, "default": true, "func": true, "interface": true, "select": true, "case": true, "defer": true, "go": true, "map": true, "struct": true, "chan": true, "else": true, "goto": true, "package": true, "switch": true, "const": true, "fallthrough": true, "if": true, "range": true, "type": true, "continue": true, "for": true, "import": true, "return": true, "var": true}

var universe = map[string]bool{"nil": true, "true": true, "false": true, "iota": true, "string": true, "error": true, "len": true, "new": true, "make": true, "int": true, "bool": true, "any": true, "append": true, "cap": true, "panic": true, "print": true, "complex": true, "real": true, "imag": true, "copy": true, "delete": true, "close": true, "byte": true, "rune": true, "float64": true, "int64": true, "uint32": true, "uint64": true, "uintptr": true, "complex128": true}

var universeTypeNames = map[string]bool{"string": true, "error": true, "int": true, "bool": true, "any": true, "byte": true, "rune": true, "float64": true, "int64": true, "uint32": true, "uint64": true, "uintptr": true, "complex128": true}

// Rename applies an adversarial, consistent renaming to a clone of p.
func Rename(p *Program, r *rand.Rand) *Program {
	q := p.Clone()
	// package clause names (directories stay)
	for i := 1; i < len(q.Pkgs); i++ {
		if r.Intn(2) == 0 {
			q.Pkgs[i].Name = advPkgNames[r.Intn(len(advPkgNames))]
		}
	}
	for pkg := range q.Pkgs {
		used := map[string]bool{"Scenarios": true, "main": true, "init": true, "_": true}
		for _, n := range q.PkgIdents {
			if pkg == 0 {
				used[n] = true
			}
		}
		pick := func(mustExport bool, isType bool) string {
			for tries := 0; tries < 200; tries++ {
				n := advTypeNames[r.Intn(len(advTypeNames))]
				if !mustExport && r.Intn(2) == 0 {
					n = lowerFirst(n)
				}
				if goKeywords[n] || universe[n] || used[n] {
					continue
				}
				used[n] = true
				return n
			}
			for k := 0; ; k++ {
				n := fmt.Sprintf("Zz%d", k)
				if !used[n] {
					used[n] = true
					return n
				}
			}
		}
		exp := pkg != 0
		for _, d := range q.Decls {
			if d.Pkg == pkg && d.Name != "Box" {
				if d.TParams > 0 {
					used[d.Name] = true
					continue
				}
				d.Name = pick(exp, true)
			}
		}
		for _, it := range q.Items {
			if it.Kind == KFunc && it.Pkg == pkg {
				it.Name = pick(exp, false)
			}
		}
		for _, s := range q.Sets {
			if s.Pkg == pkg {
				s.Name = pick(exp, false)
			}
		}
		if pkg == 0 {
			for _, in := range q.Injs {
				in.Name = pick(false, false)
			}
		}
	}
	// injector parameter names
	for _, in := range q.Injs {
		// a parameter must not shadow anything the template body mentions
		seen := map[string]bool{}
		for _, n := range q.PkgScopeNames(0) {
			seen[n] = true
		}
		hasValueExprs := false
		for _, it := range q.Items {
			if it.Kind == KValue || it.Kind == KIfaceValue {
				hasValueExprs = true
			}
		}
		style := r.Intn(4) // 0: all missing, else named
		for i := range in.Params {
			if style == 0 {
				in.Params[i].Name = ""
				continue
			}
			var n string
			for tries := 0; tries < 50; tries++ {
				n = advParamNames[r.Intn(len(advParamNames))]
				if r.Intn(3) == 0 {
					// the name wire would derive for a local from some type of the program
					d := q.Decls[r.Intn(len(q.Decls))]
					n = lowerFirst(d.Name)
				}
				if n == "" {
					n = "_"
				}
				if goKeywords[n] || n == "new" || n == "panic" {
					// the template body itself calls new(...) / panic(...)
					continue
				}
				if hasValueExprs && universeTypeNames[n] {
					// value expressions written inside the template body spell basic types
					// (map[int]T{...}): a parameter of that name would make the TEMPLATE ill-typed
					continue
				}
				if n != "_" && seen[n] {
					continue
				}
				break
			}
			if n != "_" && seen[n] {
				n = fmt.Sprintf("p%d", i)
			}
			seen[n] = true
			in.Params[i].Name = n
			if universe[n] {
				in.Panic = true // the template's own `return *new(T), nil` must not be captured
			}
		}
	}
	return q
}

// CheckC14 — generated identifiers never capture or collide.
func CheckC14(e *Env) int {
	t0 := time.Now()
	rep := NewReport(e, "C14", "exploration", "generated programs (biased to error+cleanup providers, values, several packages) are rendered under a neutral naming and under k adversarial consistent renamings drawn from a pool of err/cleanup/keyword-after-unexport/universe-after-unexport/numeric-suffix/unicode/package-name-like identifiers for types, functions, sets, injectors, packages and injector parameters (blank and missing included), plus packages that declare err/cleanup/err2 themselves; every renaming must compile, pass the wiring and fault oracles, and have the same producer-labelled wiring as the neutral naming; distinct = (program shape, renaming index) and the collision classes seen")
	nbase := e.tierN(50, 500)
	k := e.tierN(4, 6)
	var progs []*Program
	type key struct{ base, v int }
	idOf := map[string]key{}
	for i := 0; i < nbase; i++ {
		r := Rng(e.Seed, "c14", i)
		o := DefaultGenOpts()
		o.MinNodes, o.MaxNodes = 4+i%6, 8+i%14
		o.NPkgs = 1 + i%4
		o.NInj = 1 + i%3
		o.PCleanup, o.PErr = 0.5, 0.5
		if i%3 == 0 {
			// four and more cleanup variables per injector
			o.PCleanup = 0.9
			o.Kinds = []string{"func", "func", "func", "func", "value", "struct", "bind", "arg", "parent"}
		}
		o.PArg = 0.5
		g := GenProgram(fmt.Sprintf("nm%04d_0", i), r, o)
		// some bases declare package-level err / cleanup identifiers
		switch i % 5 {
		case 1:
			g.P.PkgVars = []string{`var err error = &%TR%Err{Key: "package-level err", N: -7}`}
			g.P.PkgIdents = []string{"err"}
		case 2:
			g.P.PkgVars = []string{`var err, err2, cleanup, cleanup2 = 1, 2, 3, 4`}
			g.P.PkgIdents = []string{"err", "err2", "cleanup", "cleanup2"}
		case 3:
			g.P.PkgVars = []string{`func err() {}`, `type cleanup struct{}`}
			g.P.PkgIdents = []string{"err", "cleanup"}
		}
		if i%4 == 2 {
			// the user already owns the name wire would give a value variable
			for _, it := range g.P.Items {
				if it.Kind == KValue && it.Out.K == "named" && !it.Out.Decl.Alias && it.Out.Decl.TParams == 0 {
					n := it.Out.Decl.Name
					vn := "_wire" + strings.ToUpper(n[:1]) + n[1:] + "Value"
					g.P.PkgVars = append(g.P.PkgVars, "var "+vn+" = \"user-owned\"")
					g.P.PkgIdents = append(g.P.PkgIdents, vn)
					break
				}
			}
		}
		g.P.Feat["naming"] = "neutral"
		progs = append(progs, g.P)
		idOf[g.P.ID] = key{i, 0}
		for v := 1; v <= k; v++ {
			q := Rename(g.P, Rng(e.Seed, "c14ren", i*16+v))
			q.ID = fmt.Sprintf("nm%04d_%d", i, v)
			q.Feat["naming"] = fmt.Sprintf("adversarial%d", v)
			q.Note = "renamed"
			progs = append(progs, q)
			idOf[q.ID] = key{i, v}
		}
	}
	progs = append(progs, errNameProgs(e)...)
	progs = append(progs, lateImportProgs()...)
	progs = append(progs, inventedParamNameFamily()...)
	progs = append(progs, paramLocalCollisionFamily()...)
	progs = append(progs, dirVsPackageNameFamily()...)
	progs = append(progs, sameNamedValuesFamily()...)
	progs = append(progs, namedResultsFamily()...)
	progs = append(progs, copiedHelperFirstImportFamily()...)
	progs = append(progs, variadicBlankParamFamily()...)
	results := RunPool(e, progs, PoolOpts{Execute: true, Name: "c14"})
	byKey := map[key]*ProgResult{}
	for _, pr := range results {
		EvalAccepted(pr)
		if kk, ok := idOf[pr.P.ID]; ok {
			byKey[kk] = pr
		}
	}
	for i := 0; i < nbase; i++ {
		base := byKey[key{i, 0}]
		if base == nil || len(base.Issues) > 0 || base.Calls == nil {
			continue
		}
		bs := map[string]string{}
		for inj, s := range firstSuccessSigs(base) {
			bs[inj] = s
		}
		// injectors are renamed: compare by position
		for v := 1; v <= k; v++ {
			pr := byKey[key{i, v}]
			if pr == nil || pr.Calls == nil || len(pr.Issues) > 0 {
				continue
			}
			vs := firstSuccessSigs(pr)
			for j, in := range base.P.Injs {
				if j >= len(pr.P.Injs) {
					continue
				}
				pr.Stats["renaming_wiring_compared"]++
				if vs[pr.P.Injs[j].Name] != bs[in.Name] {
					pr.add("C14", fmt.Sprintf("behaviour of injector %d changes under renaming", j), "neutral:\n"+bs[in.Name]+"\n\nrenamed:\n"+vs[pr.P.Injs[j].Name])
				}
			}
		}
	}
	reportPool(rep, results, "C01", "C02", "C03", "C04", "C10")
	addSamples(rep, results, 2)
	if rep.Counters["renaming_wiring_compared"] == 0 {
		rep.Incon = append(rep.Incon, "no renaming pair was compared")
	}
	// the package-level variables wire invents for value expressions: one per expression as
	// written where it was written - the same text in two packages names two things
	tp, tkeys, tpairs := c13TwinProgram("ntwin")
	tres := RunPool(e, []*Program{tp}, PoolOpts{Execute: true, Name: "c14tw", BatchSize: 1})
	judgeTwin(rep, tres[0], tkeys, tpairs)
	return rep.Finish(t0)
}
