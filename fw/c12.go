package fw

import (
	"fmt"
	"time"
	"unicode"
)

func upperFirst(s string) string {
	r := []rune(s)
	r[0] = unicode.ToUpper(r[0])
	return string(r)
}

type c12Field struct {
	name     string
	embedded bool
	tag      string
	ptr      bool // field type is a pointer to the carrier
}

var c12Palettes = [][]c12Field{
	{{name: "A"}, {name: "b"}, {name: "Emb", embedded: true}, {name: "T", tag: `json:"t"`}},
	{{name: "Foo"}, {name: "foo"}, {name: "Bar", ptr: true}, {name: "baz", tag: `json:"baz" yaml:"z"`}},
	{{name: "A"}, {name: "B", ptr: true}, {name: "Ωmega"}, {name: "X1"}, {name: "x1"}},
	// tags that merely look like the one wire honours
	// names made of underscores only are ordinary fields unless the name is exactly "_"
	{{name: "__"}, {name: "___", ptr: true}, {name: "_x"}, {name: "X_"}},
	{{name: "A", tag: `protowire:"-"`}, {name: "B", tag: `json:"-"`}, {name: "C", tag: `nowire:"-" json:"c"`}, {name: "D", tag: `wire2:"-" x:"wire:\"-\""`, ptr: true}},
}

// c12StructProgram: one struct type; for every subset of its non-prevented fields an
// injector for S and one for *S, plus the "*" injectors.
func c12StructProgram(id string, pal []c12Field, prevented uint, pkg int) *Program {
	pkgs := []string{"app"}
	if pkg == 1 {
		pkgs = append(pkgs, "libs")
	}
	b := NewPB(id, pkgs...)
	var fs []FieldT
	ftys := make([]*Ty, len(pal))
	provs := make([]*Item, len(pal))
	for i, f := range pal {
		name := f.name
		if pkg == 1 {
			name = upperFirst(name)
			if f.name == "foo" || f.name == "x1" {
				name = "Lower" + name
			}
			if name[0] == '_' {
				name = "U" + name
			}
		}
		var t *Ty
		if f.embedded {
			t = b.Carrier(pkg, name)
		} else {
			t = b.Carrier(pkg, fmt.Sprintf("FT%d", i))
		}
		if f.ptr {
			t = PtrTo(t)
		}
		ftys[i] = t
		tag := f.tag
		if prevented&(1<<uint(i)) != 0 {
			if tag != "" {
				tag += " "
			}
			tag += `wire:"-"`
		}
		fs = append(fs, FieldT{Name: name, Ty: t, Tag: tag, Embedded: f.embedded})
		provs[i] = b.Func(pkg, fmt.Sprintf("NewF%d", i), t, false, false)
	}
	s := b.NamedOf(pkg, "S", StructOf(fs...), "none")
	n := len(pal)
	inj := 0
	for sub := uint(0); sub < 1<<uint(n); sub++ {
		if sub&prevented != 0 {
			continue
		}
		var names []string
		var items []*Item
		for i := 0; i < n; i++ {
			if sub&(1<<uint(i)) != 0 {
				names = append(names, fieldName(fs[i]))
				items = append(items, provs[i])
			}
		}
		// vary the order in which names are written
		if sub%3 == 1 {
			for l, r := 0, len(names)-1; l < r; l, r = l+1, r-1 {
				names[l], names[r] = names[r], names[l]
			}
		}
		for _, form := range []*Ty{s, PtrTo(s)} {
			st := b.Struct(s, false, names...)
			inj++
			b.Inj(fmt.Sprintf("Init%d", inj), form, false, false, nil, append(refs(items...), ItemRef(st.ID))...)
		}
	}
	// "*"
	var starItems []*Item
	for i := 0; i < n; i++ {
		if prevented&(1<<uint(i)) == 0 {
			starItems = append(starItems, provs[i])
		}
	}
	for _, form := range []*Ty{s, PtrTo(s)} {
		st := b.Struct(s, true)
		inj++
		b.Inj(fmt.Sprintf("InitStar%d", inj), form, false, false, nil, append(refs(starItems...), ItemRef(st.ID))...)
	}
	b.P.Note = "struct-subsets"
	b.P.Feat = map[string]string{"shape": "struct-subsets", "fields": fmt.Sprint(pal), "prevented": fmt.Sprintf("%b", prevented), "pkg": fmt.Sprint(pkg)}
	return b.P
}

// c12FieldsProgram: FieldsOf every non-empty subset x parent form x consumer form.
func c12FieldsProgram(id string, pal []c12Field, parentPtr bool, parentSrc string, pkg int) *Program {
	pkgs := []string{"app"}
	if pkg == 1 {
		pkgs = append(pkgs, "libs")
	}
	b := NewPB(id, pkgs...)
	fs := []FieldT{idField}
	ftys := make([]*Ty, len(pal))
	for i, f := range pal {
		name := f.name
		if pkg == 1 {
			name = upperFirst(name)
			if f.name == "foo" || f.name == "x1" {
				name = "Lower" + name
			}
			if name[0] == '_' {
				name = "U" + name
			}
		}
		var t *Ty
		if f.embedded {
			t = b.Carrier(pkg, name)
		} else {
			t = b.Carrier(pkg, fmt.Sprintf("FT%d", i))
		}
		if f.ptr {
			t = PtrTo(t)
		}
		ftys[i] = t
		fs = append(fs, FieldT{Name: name, Ty: t, Tag: f.tag, Embedded: f.embedded})
	}
	par := b.NamedOf(pkg, "Parent", StructOf(fs...), "parent")
	pt := par
	if parentPtr {
		pt = PtrTo(par)
	}
	var parentItem *Item
	var params []Param
	switch parentSrc {
	case "func":
		parentItem = b.Func(pkg, "NewParent", pt, false, false)
	case "value":
		parentItem = b.Value(pt)
	case "arg":
		params = []Param{{Name: "p", Ty: pt}}
	}
	n := len(pal)
	inj := 0
	for sub := uint(1); sub < 1<<uint(n); sub++ {
		forms := []bool{false}
		if parentPtr {
			forms = []bool{false, true}
		}
		for _, ptrForm := range forms {
			var names []string
			var need []*Ty
			for i := 0; i < n; i++ {
				if sub&(1<<uint(i)) != 0 {
					names = append(names, fieldName(fs[i+1]))
					t := ftys[i]
					if ptrForm && (i%2 == 0 || sub == 1<<uint(i)) {
						t = PtrTo(t)
					}
					need = append(need, t)
				}
			}
			inj++
			u := b.Carrier(0, fmt.Sprintf("User%d", inj))
			user := b.Func(0, fmt.Sprintf("NewUser%d", inj), u, false, false, need...)
			fl := b.Fields(pt, names...)
			build := []Ref{ItemRef(user.ID), ItemRef(fl.ID)}
			if parentItem != nil {
				build = append(build, ItemRef(parentItem.ID))
			}
			b.Inj(fmt.Sprintf("Init%d", inj), u, false, false, params, build...)
		}
	}
	// both the value and the pointer form of one field consumed in one injector, in both orders
	if parentPtr {
		for i := 0; i < n; i++ {
			for _, valueFirst := range []bool{true, false} {
				need := []*Ty{ftys[i], PtrTo(ftys[i])}
				if !valueFirst {
					need[0], need[1] = need[1], need[0]
				}
				inj++
				u := b.Carrier(0, fmt.Sprintf("User%d", inj))
				user := b.Func(0, fmt.Sprintf("NewUser%d", inj), u, false, false, need...)
				fl := b.Fields(pt, fieldName(fs[i+1]))
				build := []Ref{ItemRef(user.ID), ItemRef(fl.ID)}
				if parentItem != nil {
					build = append(build, ItemRef(parentItem.ID))
				}
				b.Inj(fmt.Sprintf("InitBoth%d", inj), u, false, false, params, build...)
				// and through two separate consumers
				inj++
				u1, u2 := b.Carrier(0, fmt.Sprintf("UserA%d", inj)), b.Carrier(0, fmt.Sprintf("UserB%d", inj))
				c1 := b.Func(0, fmt.Sprintf("NewUserA%d", inj), u1, false, false, need[0])
				c2 := b.Func(0, fmt.Sprintf("NewUserB%d", inj), u2, false, false, need[1], u1)
				fl2 := b.Fields(pt, fieldName(fs[i+1]))
				build2 := []Ref{ItemRef(c1.ID), ItemRef(c2.ID), ItemRef(fl2.ID)}
				if parentItem != nil {
					build2 = append(build2, ItemRef(parentItem.ID))
				}
				b.Inj(fmt.Sprintf("InitSplit%d", inj), u2, false, false, params, build2...)
			}
		}
	}
	b.P.Note = "fields-subsets"
	b.P.Feat = map[string]string{"shape": "fields-subsets", "fields": fmt.Sprint(pal), "parentPtr": fmt.Sprint(parentPtr), "parentSrc": parentSrc, "pkg": fmt.Sprint(pkg)}
	return b.P
}

// c12Negatives: names that must be rejected.
func c12Negatives() []*RejectCase {
	var out []*RejectCase
	type neg struct {
		name        string
		fields      []FieldT
		sel         []string
		class       string
		viaFieldsOf bool
	}
	mkFields := func(b *PB, names []string, tags map[string]string) ([]FieldT, []*Item) {
		var fs []FieldT
		var provs []*Item
		for i, n := range names {
			t := b.Carrier(0, fmt.Sprintf("FT%d", i))
			fs = append(fs, FieldT{Name: n, Ty: t, Tag: tags[n]})
			f := b.Func(0, fmt.Sprintf("NewF%d", i), t, false, false)
			f.Stub = true
			provs = append(provs, f)
		}
		return fs, provs
	}
	cases := []struct {
		name   string
		fields []string
		tags   map[string]string
		sel    []string
		class  string
	}{
		{"unknown-name", []string{"A", "B"}, nil, []string{"C"}, "bad-field"},
		{"case-only-mismatch-lower", []string{"Foo", "Bar"}, nil, []string{"foo"}, "bad-field"},
		{"case-only-mismatch-upper", []string{"foo", "Bar"}, nil, []string{"Foo"}, "bad-field"},
		{"case-only-mismatch-mixed", []string{"FooBar"}, nil, []string{"Foobar"}, "bad-field"},
		{"prevented-listed", []string{"A", "B"}, map[string]string{"B": `wire:"-"`}, []string{"A", "B"}, "prevented"},
		{"prevented-listed-with-other-tags", []string{"A", "B"}, map[string]string{"B": `json:"b" wire:"-"`}, []string{"B"}, "prevented"},
		{"empty-name", []string{"A"}, nil, []string{""}, "bad-field"},
		{"name-with-space", []string{"A"}, nil, []string{"A "}, "bad-field"},
		{"dotted-name-type-prefix", []string{"A", "B"}, nil, []string{"S.A"}, "bad-field"},
		{"dotted-name-field-path", []string{"A", "B"}, nil, []string{"B.A"}, "bad-field"},
		{"dotted-name-package-prefix", []string{"A"}, nil, []string{"app.A"}, "bad-field"},
		{"dotted-name-leading-dot", []string{"A"}, nil, []string{".A"}, "bad-field"},
		{"dotted-name-parent-prefix", []string{"A", "B"}, nil, []string{"Parent.A"}, "bad-field"},
	}
	for _, c := range cases {
		for _, viaFields := range []bool{false, true} {
			id := "fn_" + c.name
			if viaFields {
				id += "_fo"
			}
			b := NewPB(id, "app")
			fs, provs := mkFields(b, c.fields, c.tags)
			var build []Ref
			var res *Ty
			if viaFields {
				par := b.NamedOf(0, "Parent", StructOf(fs...), "none")
				pf := b.Func(0, "NewParent", par, false, false)
				pf.Stub = true
				fl := b.Fields(par, c.sel...)
				build = []Ref{ItemRef(pf.ID), ItemRef(fl.ID)}
				res = fs[0].Ty
			} else {
				s := b.NamedOf(0, "S", StructOf(fs...), "none")
				st := b.Struct(s, false, c.sel...)
				build = append(refs(provs...), ItemRef(st.ID))
				res = s
			}
			b.Inj("Init", res, false, false, nil, build...)
			cell := fmt.Sprintf("negative:%s/fieldsof=%v", c.name, viaFields)
			b.P.Note = cell
			out = append(out, &RejectCase{P: b.P, Class: c.class, Cell: cell})
		}
	}
	// blank fields can be neither set nor read: "*" leaves them alone, naming them is an error
	for _, v := range []string{"star", "star-two-blanks", "named-blank", "fieldsof-blank"} {
		b := NewPB("fb_"+v, "app")
		at, dt, ut := b.Carrier(0, "AT"), b.Carrier(0, "DT"), b.Carrier(0, "UT")
		fa, fd, fu := b.Func(0, "NewAT", at, false, false), b.Func(0, "NewDT", dt, false, false), b.Func(0, "NewUT", ut, false, false)
		fa.Stub, fd.Stub, fu.Stub = true, true, true
		fields := []FieldT{{Name: "A", Ty: at}, {Name: "_", Ty: ut}, {Name: "D", Ty: dt}}
		if v == "star-two-blanks" {
			fields = append(fields, FieldT{Name: "_", Ty: ut})
		}
		sd := b.NamedOf(0, "WithBlank", StructOf(fields...), "none")
		cell := "blank-field/" + v
		b.P.Note = cell
		switch v {
		case "star", "star-two-blanks":
			b.Inj("Init", sd, false, false, nil, refs(fa, fd, b.Struct(sd, true))...)
			out = append(out, &RejectCase{P: b.P, Control: true, Cell: "control:" + cell})
		case "named-blank":
			b.Inj("Init", sd, false, false, nil, refs(fa, fu, b.Struct(sd, false, "A", "_"))...)
			out = append(out, &RejectCase{P: b.P, Class: "bad-field", Cell: "negative:" + cell})
		case "fieldsof-blank":
			ps := b.Func(0, "NewWithBlank", sd, false, false)
			ps.Stub = true
			b.Inj("Init", ut, false, false, nil, refs(ps, b.Fields(sd, "_"))...)
			out = append(out, &RejectCase{P: b.P, Class: "bad-field", Cell: "negative:" + cell})
		}
	}
	// control: a field of a struct that lives in an internal package, reached through an exported
	// alias of the neighbouring package — selecting a field needs no import of that package
	for _, ptr := range []bool{false, true} {
		b := NewPB(fmt.Sprintf("fc_internal_alias_%v", ptr), "app", "pa", "x")
		b.P.Pkgs[2].Dir = "pa/internal/x"
		xs := b.NamedOf(2, "S", StructOf(FieldT{Name: "F", Ty: Basic("int")}, FieldT{Name: "G", Ty: Basic("string")}), "none")
		al := b.P.NewDecl(1, "S", xs, "")
		al.Alias = true
		as := Named(al)
		var parent *Ty = as
		if ptr {
			parent = PtrTo(as)
		}
		nf := b.Func(1, "NewS", parent, false, false)
		nf.Stub = true
		res := Basic("int")
		b.Inj("Init", res, false, false, nil, ItemRef(nf.ID), ItemRef(b.Fields(parent, "F").ID))
		cell := fmt.Sprintf("control:field-of-internal-struct-through-alias/pointer=%v", ptr)
		b.P.Note = cell
		out = append(out, &RejectCase{P: b.P, Control: true, Cell: cell})
	}
	// a field promoted from an embedded struct is not a field of the outer struct
	for _, viaFields := range []bool{false, true} {
		for _, embPtr := range []bool{false, true} {
			id := fmt.Sprintf("fn_promoted_%v_%v", viaFields, embPtr)
			b := NewPB(id, "app")
			x := b.Carrier(0, "XT")
			fx := b.Func(0, "NewXT", x, false, false)
			fx.Stub = true
			emb := b.NamedOf(0, "Emb", StructOf(FieldT{Name: "X", Ty: x}), "none")
			var et *Ty = emb
			if embPtr {
				et = PtrTo(emb)
			}
			own := b.Carrier(0, "OwnT")
			fo := b.Func(0, "NewOwnT", own, false, false)
			fo.Stub = true
			outer := b.NamedOf(0, "Outer", StructOf(FieldT{Name: "Own", Ty: own}, FieldT{Embedded: true, Ty: et}), "none")
			var build []Ref
			var res *Ty
			if viaFields {
				pf := b.Func(0, "NewOuter", outer, false, false)
				pf.Stub = true
				build = []Ref{ItemRef(pf.ID), ItemRef(b.Fields(outer, "X").ID)}
				res = x
			} else {
				build = []Ref{ItemRef(fx.ID), ItemRef(fo.ID), ItemRef(b.Struct(outer, false, "Own", "X").ID)}
				res = outer
			}
			b.Inj("Init", res, false, false, nil, build...)
			cell := fmt.Sprintf("negative:promoted-field/fieldsof=%v/embedded-pointer=%v", viaFields, embPtr)
			b.P.Note = cell
			out = append(out, &RejectCase{P: b.P, Class: "bad-field", Cell: cell})
		}
	}
	return out
}

// caseTwinProgram: struct{Foo A; foo B}; selecting "foo" must fill foo (and only foo).
func c12CaseTwins() []*Program {
	var out []*Program
	for v := 0; v < 4; v++ {
		b := NewPB(fmt.Sprintf("tw%d", v), "app")
		a, c := b.Carrier(0, "TA"), b.Carrier(0, "TB")
		first, second := "Foo", "foo"
		if v%2 == 1 {
			first, second = "foo", "Foo"
		}
		s := b.NamedOf(0, "S", StructOf(FieldT{Name: first, Ty: a}, FieldT{Name: second, Ty: c}), "none")
		fa := b.Func(0, "NewA", a, false, false)
		fc := b.Func(0, "NewB", c, false, false)
		if v < 2 {
			// select only the second field
			st := b.Struct(s, false, second)
			b.Inj("Init", s, false, false, nil, refs(fc, st)...)
		} else {
			// FieldsOf the second field
			par := b.NamedOf(0, "Parent", StructOf(idField, FieldT{Name: first, Ty: a}, FieldT{Name: second, Ty: c}), "parent")
			pf := b.Func(0, "NewParent", PtrTo(par), false, false)
			fl := b.Fields(PtrTo(par), second)
			u := b.Carrier(0, "User")
			uf := b.Func(0, "NewUser", u, false, false, PtrTo(c))
			b.Inj("Init", u, false, false, nil, refs(pf, fl, uf)...)
			_ = fa
		}
		b.P.Note = "case-twins"
		b.P.Feat = map[string]string{"shape": "case-twins", "variant": fmt.Sprint(v)}
		out = append(out, b.P)
	}
	return out
}

// freshness: *S results of different calls must not share an address.
func c12Freshness(pr *ProgResult) {
	seen := map[string]map[uint64]int64{}
	for _, ct := range pr.Calls {
		for _, e := range ct.Events {
			if e.Ev != "inj_ret" || e.Res == nil || e.Res.K != "ptr" || e.Err != 0 {
				continue
			}
			pl := (*InjPlan)(nil)
			for _, x := range pr.An.Injs {
				if x.Inj.Name == ct.Inj {
					pl = x
				}
			}
			if pl == nil || pl.Info == nil {
				continue
			}
			pv := pl.Info.prov[pl.Inj.Result.Key(pr.P)]
			if pv == nil || pv.Item == nil || pv.Item.Kind != KStruct {
				continue
			}
			if seen[ct.Inj] == nil {
				seen[ct.Inj] = map[uint64]int64{}
			}
			pr.Stats["struct_ptr_results"]++
			if prev, dup := seen[ct.Inj][e.Res.Addr]; dup {
				pr.add("C12", fmt.Sprintf("struct provider returned the same *S address in calls %d and %d (not a fresh struct)", prev, ct.Call), ct.Dump())
			}
			seen[ct.Inj][e.Res.Addr] = ct.Call
		}
	}
}

// CheckC12 — struct and field providers touch exactly the named fields.
func CheckC12(e *Env) int {
	t0 := time.Now()
	rep := NewReport(e, "C12", "exploration", "enumerated: struct types from palettes of 4-5 fields (exported, unexported, embedded, tagged, names differing only in case, pointer-typed): every subset of names x consumer form {S,*S}, \"*\" x subsets of prevented fields; FieldsOf: every non-empty subset x parent {S,*S} x parent source {func,value,arg} x consumer {F,*F}; same-package and cross-package; executed: dumps of the built struct (named fields carry their source's identity, all others zero, fresh address per call), delivered field values and pointer aliasing; negatives: unknown, case-only-different and prevented names must be rejected; distinct = program shape cell / negative cell")
	var progs []*Program
	n := 0
	pals := c12Palettes
	for pi, pal := range pals {
		np := len(pal)
		if e.Tier != "thorough" && np > 4 {
			continue
		}
		maxPrev := uint(1) << uint(np)
		for prev := uint(0); prev < maxPrev; prev++ {
			if e.Tier != "thorough" {
				// quick: none, each single, and two seeded multi-field subsets
				r := Rng(e.Seed, "c12prev", pi)
				ones := 0
				for x := prev; x > 0; x >>= 1 {
					ones += int(x & 1)
				}
				if ones > 1 && prev != uint(r.Intn(int(maxPrev))) && prev != maxPrev-1 {
					continue
				}
			}
			n++
			progs = append(progs, c12StructProgram(fmt.Sprintf("st%03d", n), pal, prev, 0))
		}
		n++
		progs = append(progs, c12StructProgram(fmt.Sprintf("st%03d", n), pal, 0, 1))
		for _, pp := range []bool{false, true} {
			for _, src := range []string{"func", "value", "arg"} {
				n++
				progs = append(progs, c12FieldsProgram(fmt.Sprintf("fo%03d", n), pal, pp, src, 0))
			}
			n++
			progs = append(progs, c12FieldsProgram(fmt.Sprintf("fo%03d", n), pal, pp, "func", 1))
		}
	}
	progs = append(progs, c12CaseTwins()...)
	// both forms of one struct provider in one injector, one holder writing through the pointer
	progs = append(progs, bothFormsFamily()...)
	progs = append(progs, caseTwinFieldsFamily()...)
	results := RunPool(e, progs, PoolOpts{Execute: true, Name: "c12", BatchSize: 4})
	for _, pr := range results {
		EvalAccepted(pr)
		c12Freshness(pr)
	}
	reportPool(rep, results, "C02", "C10", "C01")
	addSamples(rep, results, 2)
	runRejectCases(e, rep, c12Negatives(), "c12n")
	if rep.Counters["results_checked"] == 0 {
		rep.Incon = append(rep.Incon, "no struct dump was observed")
	}
	return rep.Finish(t0)
}
