package fw

import (
	"fmt"
	"os"
	"path/filepath"
	"regexp"
	"sort"
	"strings"
	"sync"
	"time"
)

// c16Program: a program whose internal tables are large: several packages sharing one
// package name, many values, several injectors over two files, blank imports, copied decls.
func c16Program(e *Env, i int) *Program { return c16ProgramID(e, i, fmt.Sprintf("dt%03d", i)) }

func c16ProgramID(e *Env, i int, id string) *Program {
	r := Rng(e.Seed, "c16", i)
	o := DefaultGenOpts()
	o.NPkgs = 3 + i%2
	o.MinNodes, o.MaxNodes = 12, 22
	o.NInj = 4
	o.PCleanup, o.PErr = 0.3, 0.3
	o.Kinds = []string{"func", "func", "value", "value", "value", "ifacevalue", "struct", "bind", "parent", "arg"}
	g := GenProgram(id, r, o)
	p := g.P
	// identical package names at different paths
	for k := 1; k < len(p.Pkgs); k++ {
		if k%2 == 1 || i%3 == 0 {
			p.Pkgs[k].Name = "lib"
		}
	}
	// value types that share a type name across packages (=> colliding _wireXValue names)
	seen := map[int]bool{}
	for _, it := range p.Items {
		if it.Kind != KValue || it.Out.K != "named" || it.Out.Decl.Alias || it.Out.Decl.TParams > 0 {
			continue
		}
		d := it.Out.Decl
		if !seen[d.Pkg] {
			clash := false
			for _, x := range p.Decls {
				if x.Pkg == d.Pkg && x.Name == "Cfg" {
					clash = true
				}
			}
			if !clash {
				d.Name = "Cfg"
				seen[d.Pkg] = true
			}
		}
	}
	// every program of this family has an injector with value variables of the same type name in
	// two packages (=> _wireSettingsValue, _wire<Pkg>SettingsValue): name tables that leak between
	// packages of one invocation, or between injectors, show as different names
	{
		b := &PB{P: p, n: 9000}
		s0 := b.Carrier(0, "Settings")
		last := len(p.Pkgs) - 1
		s1 := b.Carrier(last, "Settings")
		if last == 0 {
			s1 = b.Carrier(0, "Settings2")
		}
		v0, v1 := b.Value(s0), b.Value(s1)
		u := b.Carrier(0, "SettingsUser")
		f := b.Func(0, "NewSettingsUser", u, false, false, s0, s1)
		in := b.Inj("InitSettings", u, false, false, nil, refs(v0, v1, f)...)
		in.File = 1
	}
	p.InjBlankImports = []string{"embed", "net/http/pprof", "image/png"}
	// ... and blank imports of the program's own library packages, which the GOPATH+vendor
	// layouts resolve from a vendor directory: their paths must be written as the source has them
	p.BlankLibs = "injector"
	p.InjRaw = "// copied declarations\nvar copiedVar = map[string]int{\"a\": 1, \"b\": 2}\n\ntype copiedType struct{ A, B int }\n\nfunc copiedFunc(x int) int {\n\ty := x * 2\n\treturn y + len(copiedVar)\n}\n"
	p.InjRawB = "// copied declarations of the second injector file\nvar copiedVarB = []string{\"x\", \"y\"}\n\nfunc copiedFuncB(s string) int { return len(s) + len(copiedVarB) }\n"
	p.PkgIdents = append(p.PkgIdents, "copiedVar", "copiedType", "copiedFunc", "copiedVarB", "copiedFuncB")
	p.Note = "determinism"
	return p
}

// c16SharingNeighbour builds a package of the same invocation that DEPENDS ON the library
// packages of p (as real neighbours in one module do) and mentions them in the given order, so
// that it numbers their import names differently than p itself would. Whatever wire remembers
// about an import path from an earlier package must not show in p's output.
func c16SharingNeighbour(p *Program, id string, reverse bool) *Program {
	type use struct{ path, typ string }
	var uses []use
	for k := 1; k < len(p.Pkgs); k++ {
		for _, d := range p.Decls {
			if d.Pkg == k && d.Carrier == "struct" && !d.Alias && d.TParams == 0 && d.Name != "" && d.Name[0] >= 'A' && d.Name[0] <= 'Z' {
				uses = append(uses, use{p.ImportPath(k), d.Name})
				break
			}
		}
	}
	if len(uses) < 2 {
		return nil
	}
	if reverse {
		for i, j := 0, len(uses)-1; i < j; i, j = i+1, j-1 {
			uses[i], uses[j] = uses[j], uses[i]
		}
	}
	var imp, fields, vals strings.Builder
	for i, u := range uses {
		fmt.Fprintf(&imp, "\tn%d %q\n", i, u.path)
		fmt.Fprintf(&fields, "\tF%d n%d.%s\n", i, i, u.typ)
		fmt.Fprintf(&vals, "wire.Value(n%d.%s{}), ", i, u.typ)
	}
	q := &Program{ID: id, Module: ModulePath, Extra: map[string]string{}, Feat: map[string]string{"shape": "sharing-neighbour"}, RawDriver: true}
	q.Pkgs = []*Pkg{{Name: "app", Dir: "app"}}
	q.Extra["0/decl.go"] = "package app\n\nimport (\n" + imp.String() + ")\n\n// Bundle holds one value of every shared library package.\ntype Bundle struct {\n" + fields.String() + "}\n"
	q.Extra["0/wire.go"] = "//go:build wireinject\n// +build wireinject\n\npackage app\n\nimport (\n" + imp.String() + "\t\"github.com/google/wire\"\n)\n\nfunc InitBundle() Bundle {\n\twire.Build(" + vals.String() + "wire.Struct(new(Bundle), \"*\"))\n\treturn Bundle{}\n}\n"
	q.Note = "sharing-neighbour"
	return q
}

type layoutRun struct {
	Name string
	Out  []byte
	Err  string
}

var dateRe = regexp.MustCompile(`20[2-3][0-9]-[01][0-9]-[0-3][0-9]|[0-2][0-9]:[0-5][0-9]:[0-5][0-9]`)

// writeGopath lays the programs out under a GOPATH (vendor: dependencies under vendor/).
// vendorAtPkg: the vendor directory sits in the injector package's own directory (the package
// is the root of the tree the vendor directory serves) instead of the project root.
func writeGopath(e *Env, gp string, progs []*Program, vendor bool, vendorAtPkg ...bool) error {
	base := filepath.Join(gp, "src", filepath.FromSlash(ModulePath))
	wireDir := filepath.Join(gp, "src", "github.com", "google", "wire")
	trDir := filepath.Join(base, "tr")
	vbase := filepath.Join(base, "vendor")
	if vendor && len(vendorAtPkg) > 0 && vendorAtPkg[0] {
		vbase = filepath.Join(base, progs[0].ID, progs[0].Pkgs[0].Dir, "vendor")
	}
	if vendor {
		wireDir = filepath.Join(vbase, "github.com", "google", "wire")
		trDir = filepath.Join(vbase, filepath.FromSlash(ModulePath), "tr")
	}
	os.MkdirAll(wireDir, 0o755)
	os.MkdirAll(trDir, 0o755)
	w, err := os.ReadFile(filepath.Join(e.Repo, "wire.go"))
	if err != nil {
		return err
	}
	os.WriteFile(filepath.Join(wireDir, "wire.go"), w, 0o644)
	os.WriteFile(filepath.Join(trDir, "tr.go"), e.TrSrc, 0o644)
	for _, p := range progs {
		for rel, content := range p.Files(false) {
			dst := filepath.Join(base, rel)
			if vendor {
				// library packages of the program live under vendor/<their import path>
				parts := strings.Split(filepath.ToSlash(rel), "/")
				if len(parts) >= 2 && parts[1] != p.Pkgs[0].Dir {
					dst = filepath.Join(vbase, filepath.FromSlash(ModulePath), rel)
				}
			}
			os.MkdirAll(filepath.Dir(dst), 0o755)
			if err := os.WriteFile(dst, []byte(content), 0o644); err != nil {
				return err
			}
		}
	}
	return nil
}

// CheckC16 — deterministic, location- and layout-independent output.
func CheckC16(e *Env) int {
	t0 := time.Now()
	rep := NewReport(e, "C16", "exploration", "accepted programs with large internal tables (3-4 packages sharing a package name, many values incl. same type name in different packages, 4 injectors over 2 files, blank imports, copied declarations); each generated repeatedly in fresh processes (Go randomises map iteration per process), from two checkout roots of different depth, invoked as '.', './<dir>', the import path and './...' together with other packages, and in module, GOPATH and GOPATH+vendor layouts; oracle: byte-identical wire_gen.go everywhere, no scratch path / host name / date in it; distinct = (program shape, run kind)")
	n := e.tierN(16, 160)
	repeats := e.tierN(4, 12)
	host, _ := os.Hostname()
	var mu sync.Mutex
	if e.Tier == "thorough" {
		if err := e.BuildRace(); err != nil {
			rep.Incon = append(rep.Incon, "race build unavailable: "+err.Error())
		}
	}
	e.ParallelDo(n, func(i int) {
		p := c16Program(e, i)
		if !Analyze(p).Accepted() {
			return
		}
		// other packages of the shared invocation: small ones, plus two programs of the same shape
		// (same-named packages and value types) that sort before and after this one
		others := []*Program{cliS(i % 6), cliS((i + 1) % 6), cliN(i % 2), c16ProgramID(e, i+5000, fmt.Sprintf("aa%03d", i)), c16ProgramID(e, i+7000, fmt.Sprintf("zz%03d", i))}
		// neighbours that import p's own library packages, sorting before p
		for k, rev := range []bool{false, true} {
			if nb := c16SharingNeighbour(p, fmt.Sprintf("aab%03d_%d", i, k), rev); nb != nil {
				others = append(others, nb)
			}
		}
		pkgRel := filepath.Join(p.ID, p.Pkgs[0].Dir)
		var runs []layoutRun
		read := func(root string) ([]byte, string) {
			b, err := os.ReadFile(filepath.Join(root, pkgRel, "wire_gen.go"))
			if err != nil {
				return nil, err.Error()
			}
			return b, ""
		}
		record := func(name string, res *CmdResult, root string) {
			if res.TimedOut {
				runs = append(runs, layoutRun{Name: name, Err: "watchdog"})
				return
			}
			if res.Exit != 0 {
				runs = append(runs, layoutRun{Name: name, Err: fmt.Sprintf("exit %d: %s", res.Exit, tail(res.Stderr, 600))})
				return
			}
			b, er := read(root)
			runs = append(runs, layoutRun{Name: name, Out: b, Err: er})
		}
		// module layout, root A
		rootA := filepath.Join(e.Scratch, "c16", fmt.Sprintf("a%03d", i))
		os.MkdirAll(rootA, 0o755)
		defer os.RemoveAll(rootA)
		prepareModule(e, rootA, []*Program{p})
		for k := 0; k < repeats; k++ {
			os.Remove(filepath.Join(rootA, pkgRel, "wire_gen.go"))
			record(fmt.Sprintf("module/repeat%d", k), e.Wire(rootA, nil, "gen", "./"+filepath.ToSlash(pkgRel)), rootA)
		}
		if e.RaceBin != "" {
			os.Remove(filepath.Join(rootA, pkgRel, "wire_gen.go"))
			res := e.Run(rootA, e.GoEnv("GORACE=halt_on_error=0"), 300*time.Second, e.RaceBin, "gen", "./"+filepath.ToSlash(pkgRel))
			if strings.Contains(res.Stderr, "WARNING: DATA RACE") && strings.Contains(res.Stderr, "github.com/google/wire/") {
				mu.Lock()
				rep.Violate(p.ID+"-race", Issue{Prop: "C16", Clause: "data race in wire's own code (output may be schedule-dependent)", Witness: tail(res.Stderr, 3000), Sig: "C16:race"}, nil, nil)
				mu.Unlock()
			}
			record("module/race-build", res, rootA)
		}
		// invocation forms
		os.Remove(filepath.Join(rootA, pkgRel, "wire_gen.go"))
		record("module/dot-in-package-dir", e.Wire(filepath.Join(rootA, pkgRel), nil, "gen", "."), rootA)
		os.Remove(filepath.Join(rootA, pkgRel, "wire_gen.go"))
		record("module/import-path", e.Wire(rootA, nil, "gen", p.ImportPath(0)), rootA)
		os.Remove(filepath.Join(rootA, pkgRel, "wire_gen.go"))
		record("module/default-command-in-dir", e.Wire(filepath.Join(rootA, pkgRel), nil), rootA)
		// the package named by the list of its files, in sorted, reversed and rotated order
		if ents, err := os.ReadDir(filepath.Join(rootA, pkgRel)); err == nil {
			var files []string
			for _, en := range ents {
				n := en.Name()
				if !en.IsDir() && strings.HasSuffix(n, ".go") && !strings.HasSuffix(n, "_test.go") && n != "wire_gen.go" {
					files = append(files, n)
				}
			}
			sort.Strings(files)
			orders := map[string][]string{"sorted": files}
			rev := append([]string(nil), files...)
			for a, b := 0, len(rev)-1; a < b; a, b = a+1, b-1 {
				rev[a], rev[b] = rev[b], rev[a]
			}
			orders["reversed"] = rev
			if len(files) > 2 {
				k := 1 + i%(len(files)-1)
				orders["rotated"] = append(append([]string(nil), files[k:]...), files[:k]...)
			}
			for _, on := range []string{"sorted", "reversed", "rotated"} {
				fl, ok := orders[on]
				if !ok {
					continue
				}
				os.Remove(filepath.Join(rootA, pkgRel, "wire_gen.go"))
				record("module/file-list-"+on, e.Wire(filepath.Join(rootA, pkgRel), nil, append([]string{"gen"}, fl...)...), rootA)
			}
			// ... and named from the module root (relative paths) and by absolute paths
			var relFiles, absFiles []string
			for _, f := range files {
				relFiles = append(relFiles, "./"+filepath.Join(pkgRel, f))
				absFiles = append(absFiles, filepath.Join(rootA, pkgRel, f))
			}
			os.Remove(filepath.Join(rootA, pkgRel, "wire_gen.go"))
			record("module/file-list-from-module-root", e.Wire(rootA, nil, append([]string{"gen"}, relFiles...)...), rootA)
			os.Remove(filepath.Join(rootA, pkgRel, "wire_gen.go"))
			record("module/file-list-absolute-paths", e.Wire(rootA, nil, append([]string{"gen"}, absFiles...)...), rootA)
		}
		// root B: deeper, different names, together with other packages
		rootB := filepath.Join(e.Scratch, "c16", fmt.Sprintf("b%03d", i), "some where", "else-"+fmt.Sprint(i), "checkout.d")
		os.MkdirAll(rootB, 0o755)
		defer os.RemoveAll(filepath.Join(e.Scratch, "c16", fmt.Sprintf("b%03d", i)))
		prepareModule(e, rootB, append([]*Program{p}, others...))
		record("module/other-root/with-other-packages", e.Wire(rootB, nil, "gen", "./..."), rootB)
		// GOPATH layouts
		for vi, vendor := range []bool{false, true, true} {
			name := "gopath"
			if vendor {
				name = "gopath+vendor"
			}
			atPkg := vi == 2
			if atPkg {
				name = "gopath+vendor-in-package-dir"
			}
			gp := filepath.Join(e.Scratch, "c16", fmt.Sprintf("g%03d-%d", i, vi))
			if err := writeGopath(e, gp, []*Program{p}, vendor, atPkg); err != nil {
				runs = append(runs, layoutRun{Name: name, Err: err.Error()})
				continue
			}
			base := filepath.Join(gp, "src", filepath.FromSlash(ModulePath))
			env := e.GoEnv("GO111MODULE=off", "GOFLAGS=", "GOPATH="+gp)
			res := e.Run(filepath.Join(base, pkgRel), env, 180*time.Second, e.WireBin, "gen", ".")
			mu.Lock()
			e.WireRuns++
			mu.Unlock()
			record(name, res, base)
			os.RemoveAll(gp)
		}
		// judge
		mu.Lock()
		defer mu.Unlock()
		var ref *layoutRun
		for k := range runs {
			if runs[k].Err == "" && runs[k].Out != nil {
				ref = &runs[k]
				break
			}
		}
		if ref == nil {
			rep.Incon = append(rep.Incon, p.ID+": no run produced output: "+runs[0].Err)
			return
		}
		files := p.Files(false)
		for k := range runs {
			ru := &runs[k]
			sig := ProgSig(p) + ";run=" + strings.Split(ru.Name, "/repeat")[0]
			if ru.Err != "" {
				if ru.Err == "watchdog" {
					rep.Incon = append(rep.Incon, p.ID+" "+ru.Name+": watchdog")
					continue
				}
				rep.Violate(p.ID+"-"+strings.ReplaceAll(ru.Name, "/", "_"), Issue{Prop: "C16", Clause: "generation fails in run " + ru.Name + " although it succeeds in " + ref.Name, Witness: ru.Err, Sig: "C16:fails:" + strings.Split(ru.Name, "/repeat")[0]}, files, nil)
				continue
			}
			if string(ru.Out) != string(ref.Out) {
				rep.Violate(p.ID+"-"+strings.ReplaceAll(ru.Name, "/", "_"), Issue{Prop: "C16", Clause: "wire_gen.go differs between runs " + ref.Name + " and " + ru.Name, Witness: firstDiff(string(ref.Out), string(ru.Out)), Sig: "C16:differs:" + strings.Split(ru.Name, "/repeat")[0]}, files,
					map[string]string{"a.wire_gen.go": string(ref.Out), "b.wire_gen.go": string(ru.Out)})
				continue
			}
			rep.Held(sig)
			rep.Count("runs_compared", 1)
		}
		out := string(ref.Out)
		for _, bad := range []string{e.Scratch, host, os.Getenv("HOME") + "/"} {
			if bad != "" && len(bad) > 3 && strings.Contains(out, bad) {
				rep.Violate(p.ID+"-runspecific", Issue{Prop: "C16", Clause: "output contains run-specific data: " + bad, Witness: out, Sig: "C16:runspecific"}, files, nil)
			}
		}
		if m := dateRe.FindString(out); m != "" {
			rep.Violate(p.ID+"-date", Issue{Prop: "C16", Clause: "output contains a date or time: " + m, Witness: out, Sig: "C16:date"}, files, nil)
		}
		if len(rep.Samples) < 2 {
			var names []string
			for _, ru := range runs {
				names = append(names, ru.Name)
			}
			rep.Sample(map[string]interface{}{"program": p.ID, "features": p.Feat, "runs_byte_identical": names, "bytes": len(ref.Out)})
		}
	})
	runFirstMention(e, rep, &mu)
	runFileListInternal(e, rep, &mu)
	return rep.Finish(t0)
}

func firstDiff(a, b string) string {
	la, lb := strings.Split(a, "\n"), strings.Split(b, "\n")
	for i := 0; i < len(la) && i < len(lb); i++ {
		if la[i] != lb[i] {
			return fmt.Sprintf("first difference at line %d:\n- %s\n+ %s", i+1, la[i], lb[i])
		}
	}
	return fmt.Sprintf("length differs: %d vs %d lines", len(la), len(lb))
}

// firstMentionPrograms: small programs in which several packages of ONE name are first met
// inside a single expression or declaration (a wire.Value mentioning two of them, a struct
// provider with fields from three): whatever decides which of them gets the plain import name
// has nothing but wire's own data structures to go by.
func firstMentionPrograms() []*Program {
	var out []*Program
	mk := func(id string, npk int, decl, build, result string) {
		p := &Program{ID: id, Module: ModulePath, Extra: map[string]string{}, Feat: map[string]string{"shape": "first-mention"}, RawDriver: true, Note: "determinism-first-mention"}
		p.Pkgs = []*Pkg{{Name: "app", Dir: "app"}}
		imports := ""
		for k := 1; k <= npk; k++ {
			dir := fmt.Sprintf("p%c/cfg", 'a'+k-1)
			p.Pkgs = append(p.Pkgs, &Pkg{Name: "cfg", Dir: dir})
			p.Extra[fmt.Sprintf("%d/cfg.go", k)] = fmt.Sprintf("package cfg\n\ntype Key string\n\ntype Conf struct{ N int }\n\nvar Default = Key(\"k%d\")\n\nfunc New() Conf { return Conf{N: %d} }\n", k, k)
			imports += fmt.Sprintf("\tc%d \"%s\"\n", k, p.ImportPath(k))
		}
		p.Extra["0/decl.go"] = "package app\n\nimport (\n" + imports + ")\n\n" + decl
		p.Extra["0/wire.go"] = "//go:build wireinject\n// +build wireinject\n\npackage app\n\nimport (\n\t\"github.com/google/wire\"\n" + imports + ")\n\nfunc Init() " + result + " {\n\tpanic(wire.Build(" + build + "))\n}\n"
		p.Extra["0/zz_driver.go"] = "//go:build !wireinject\n// +build !wireinject\n\npackage app\n\nfunc Scenarios() {}\n"
		out = append(out, p)
	}
	mk("fm_value2", 2, "type Table map[c1.Key]c2.Key\n\ntype App struct{ T Table }\n\nfunc NewApp(t Table) App { return App{T: t} }\n",
		"NewApp, wire.Value(Table{c1.Default: c2.Default})", "App")
	mk("fm_value3", 3, "type Row struct {\n\tA c1.Key\n\tB c2.Key\n\tC c3.Key\n}\n\ntype App struct{ R Row }\n\nfunc NewApp(r Row) App { return App{R: r} }\n",
		"NewApp, wire.Value(Row{A: c1.Default, B: c2.Default, C: c3.Default})", "App")
	mk("fm_struct3", 3, "type App struct {\n\tA c1.Conf\n\tB c2.Conf\n\tC c3.Conf\n}\n",
		"c3.New, c1.New, c2.New, wire.Struct(new(App), \"*\")", "App")
	mk("fm_ifacevalue2", 2, "type Pair struct {\n\tA c1.Key\n\tB c2.Key\n}\n\ntype Any interface{}\n\ntype App struct{ V Any }\n\nfunc NewApp(v Any) App { return App{V: v} }\n",
		"NewApp, wire.InterfaceValue(new(Any), Pair{B: c2.Default, A: c1.Default})", "App")
	return out
}

// runFirstMention generates each program many times in fresh processes.
func runFirstMention(e *Env, rep *Report, mu *sync.Mutex) {
	progs := firstMentionPrograms()
	repeats := e.tierN(16, 40)
	e.ParallelDo(len(progs), func(i int) {
		p := progs[i]
		root := filepath.Join(e.Scratch, "c16fm", p.ID)
		os.MkdirAll(root, 0o755)
		defer os.RemoveAll(root)
		prepareModule(e, root, []*Program{p})
		out := filepath.Join(root, p.ID, "app", "wire_gen.go")
		var ref []byte
		for k := 0; k < repeats; k++ {
			os.Remove(out)
			res := e.Wire(root, nil, "gen", "./"+p.ID+"/app")
			b, err := os.ReadFile(out)
			mu.Lock()
			switch {
			case res.TimedOut:
				rep.Incon = append(rep.Incon, p.ID+": watchdog")
			case res.Exit != 0 || err != nil:
				rep.Incon = append(rep.Incon, fmt.Sprintf("harness: %s not generated: exit %d %s", p.ID, res.Exit, tail(res.Stderr, 300)))
			case ref == nil:
				ref = b
			case string(b) != string(ref):
				files := p.Files(false)
				files[p.ID+"/app/wire_gen.go.run0"] = string(ref)
				files[p.ID+"/app/wire_gen.go.run"+fmt.Sprint(k)] = string(b)
				rep.Violate(p.ID, Issue{Prop: "C16", Clause: fmt.Sprintf("wire_gen.go differs between runs module/repeat0 and module/repeat%d", k), Witness: firstDiff(string(ref), string(b)), Sig: "C16:differs:first-mention"}, files, nil)
				mu.Unlock()
				return
			default:
				rep.Count("runs_compared", 1)
			}
			mu.Unlock()
			if res.Exit != 0 || err != nil || res.TimedOut {
				return
			}
		}
		mu.Lock()
		rep.Held("first-mention/" + p.ID)
		mu.Unlock()
	})
}

// runFileListInternal: a package that uses an internal package it may import, named once by
// its directory and once by the list of its files (the go tool then calls the package
// "command-line-arguments"): same verdict, same bytes.
func runFileListInternal(e *Env, rep *Report, mu *sync.Mutex) {
	id := "fli_internal"
	p := &Program{ID: id, Module: ModulePath, Extra: map[string]string{}, Feat: map[string]string{"shape": "file-list-internal"}, RawDriver: true, Note: "determinism-file-list-internal"}
	p.Pkgs = []*Pkg{{Name: "app", Dir: "app"}, {Name: "dep", Dir: "app/internal/dep"}}
	p.Extra["1/dep.go"] = "package dep\n\ntype Opt int\n\ntype D struct{ N Opt }\n\nfunc New(o Opt) *D { return &D{N: o} }\n"
	p.Extra["0/decl.go"] = "package app\n\nimport \"" + p.ImportPath(1) + "\"\n\nvar _ dep.Opt\n"
	p.Extra["0/wire.go"] = "//go:build wireinject\n// +build wireinject\n\npackage app\n\nimport (\n\t\"github.com/google/wire\"\n\t\"" + p.ImportPath(1) + "\"\n)\n\nfunc Init() *dep.D {\n\tpanic(wire.Build(dep.New, wire.Value(dep.Opt(4))))\n}\n\nfunc InitWith(o dep.Opt) (*dep.D, error) {\n\tpanic(wire.Build(dep.New))\n}\n"
	p.Extra["0/zz_driver.go"] = "//go:build !wireinject\n// +build !wireinject\n\npackage app\n\nfunc Scenarios() {}\n"
	root := filepath.Join(e.Scratch, "c16fl", id)
	os.MkdirAll(root, 0o755)
	defer os.RemoveAll(root)
	prepareModule(e, root, []*Program{p})
	pkgDir := filepath.Join(root, id, "app")
	out := filepath.Join(pkgDir, "wire_gen.go")
	type run struct {
		name string
		res  *CmdResult
		out  []byte
	}
	var runs []run
	do := func(name, dir string, args ...string) {
		os.Remove(out)
		res := e.Wire(dir, nil, args...)
		b, _ := os.ReadFile(out)
		runs = append(runs, run{name, res, b})
	}
	do("directory", root, "gen", "./"+id+"/app")
	do("file-list", pkgDir, "gen", "decl.go", "wire.go", "zz_driver.go")
	do("file-list-reversed", pkgDir, "gen", "zz_driver.go", "wire.go", "decl.go")
	do("dot", pkgDir, "gen", ".")
	mu.Lock()
	defer mu.Unlock()
	ref := runs[0]
	if ref.res.Exit != 0 || ref.out == nil {
		rep.Incon = append(rep.Incon, "harness: "+id+" not generated by directory: "+tail(ref.res.Stderr, 300))
		return
	}
	for _, r := range runs[1:] {
		switch {
		case r.res.TimedOut:
			rep.Incon = append(rep.Incon, id+": watchdog")
		case r.res.Exit != 0 || r.out == nil:
			rep.Violate(id+"-"+r.name, Issue{Prop: "C16", Clause: "the package is generated when named by its directory but refused when named as " + r.name, Witness: tail(r.res.Stderr, 800), Sig: "C16:verdict-differs:" + r.name}, p.Files(false), nil)
		case string(r.out) != string(ref.out):
			rep.Violate(id+"-"+r.name, Issue{Prop: "C16", Clause: "wire_gen.go differs between runs directory and " + r.name, Witness: firstDiff(string(ref.out), string(r.out)), Sig: "C16:differs:" + r.name}, p.Files(false), nil)
		default:
			rep.Count("runs_compared", 1)
			rep.Held("file-list-internal/" + r.name)
		}
	}
}
