package fw

import (
	"fmt"
	"os"
	"sort"
	"strings"
	"time"
)

// tierN picks a count by tier.
func (e *Env) tierN(quick, thorough int) int {
	if e.Tier == "thorough" {
		return thorough
	}
	return quick
}

// genPool generates n well-formed programs with stratified options.
func genPool(e *Env, stream string, n int, tweak func(i int, o *GenOpts)) []*Program {
	var progs []*Program
	for i := 0; i < n; i++ {
		r := Rng(e.Seed, stream, i)
		o := DefaultGenOpts()
		// stratify: size, packages, injectors
		switch i % 5 {
		case 0:
			o.MinNodes, o.MaxNodes = 2, 5
		case 1:
			o.MinNodes, o.MaxNodes = 5, 10
		case 2:
			o.MinNodes, o.MaxNodes = 10, 18
		case 3:
			o.MinNodes, o.MaxNodes = 18, 28
		case 4:
			o.MinNodes, o.MaxNodes = 8, 40
		}
		o.NPkgs = 1 + (i/5)%4
		o.NInj = 1 + (i/20)%5
		o.PCleanup = []float64{0.1, 0.4, 0.8}[(i/3)%3]
		o.PErr = []float64{0.1, 0.4, 0.8}[(i/7)%3]
		o.ForceSets = i%2 == 0
		if tweak != nil {
			tweak(i, &o)
		}
		g := GenProgram(fmt.Sprintf("%s%04d", stream, i), r, o)
		g.P.AliasImports = i%3 == 1
		g.P.GeneratedHeader = i%7 == 3
		if len(g.P.Pkgs) > 1 {
			// blank imports of packages the generated code also has to name: in an ordinary file
			// of the injector's package, or in the injector file itself
			switch i % 5 {
			case 2:
				g.P.BlankLibs = "file"
			case 4:
				g.P.BlankLibs = "injector"
			}
		}
		if i%4 == 3 {
			// a quarter of every pool under an adversarial consistent renaming (same type and
			// function names in different packages, packages sharing one name, err/cleanup/keyword-like
			// names, blank and missing parameter names)
			q := Rename(g.P, Rng(e.Seed, stream+"-rename", i))
			q.Feat["naming"] = "adversarial"
			progs = append(progs, q)
			continue
		}
		progs = append(progs, g.P)
	}
	return progs
}

// reportPool turns pool results into the report of property prop.
// Issues of other properties found on the way are printed as notes only.
func reportPool(rep *Report, results []*ProgResult, also ...string) {
	if os.Getenv("VERIF_DEBUG") != "" {
		DebugPrecheck(results)
		DebugIssues(results)
	}
	prop := rep.Prop
	mine := map[string]bool{prop: true}
	for _, a := range also {
		mine[a] = true
	}
	for _, pr := range results {
		if pr.PreBad != "" {
			rep.Incon = append(rep.Incon, "harness: program "+pr.P.ID+" does not type-check: "+firstLine(pr.PreBad))
			continue
		}
		if pr.Incon != "" {
			rep.Incon = append(rep.Incon, pr.P.ID+": "+pr.Incon)
			continue
		}
		var mineIssues, other []Issue
		for _, is := range pr.Issues {
			if mine[is.Prop] || is.Prop == "C20" {
				mineIssues = append(mineIssues, is)
			} else {
				other = append(other, is)
			}
		}
		for k, v := range pr.Stats {
			rep.Count(k, v)
		}
		if len(other) > 0 {
			rep.Count("issues_of_other_properties", len(other))
			fmt.Printf("NOTE while checking %s: program %s also refutes %s: %s\n", prop, pr.P.ID, other[0].Prop, other[0].Clause)
		}
		if len(mineIssues) == 0 {
			if len(other) == 0 || relevantDespite(prop, other) {
				rep.Held(ProgSig(pr.P))
			} else {
				rep.NoClaim++
			}
			continue
		}
		is := mineIssues[0]
		is.Prop = prop
		if is.Sig == "" {
			is.Sig = IssueSig(pr, is)
		}
		files := pr.Files
		if files == nil {
			files = pr.P.Files(pr.An.Accepted())
		}
		if pr.GenFile != "" {
			files[pr.P.ID+"/"+pr.P.Pkgs[0].Dir+"/wire_gen.go"] = pr.GenFile
		}
		notes := map[string]string{"wire_stderr.txt": pr.GenStderr, "spec.json": specJSON(pr.P)}
		var all []string
		for _, x := range pr.Issues {
			all = append(all, x.Prop+": "+x.Clause)
		}
		notes["all_issues.txt"] = strings.Join(all, "\n")
		rep.Violate(pr.P.ID, is, files, notes)
	}
}

// relevantDespite: a program that refutes another property can still count as
// held for prop when that other issue happens later in the pipeline.
func relevantDespite(prop string, other []Issue) bool {
	order := map[string]int{"C10": 0, "C01": 1, "C02": 2, "C12": 2, "C03": 3, "C04": 3}
	for _, o := range other {
		if order[o.Prop] <= order[prop] {
			return false
		}
	}
	return true
}

// IssueSig derives a stable signature for known-finding matching.
func IssueSig(pr *ProgResult, is Issue) string {
	c := is.Clause
	if i := strings.IndexByte(c, ':'); i > 0 && i < 60 {
		c = c[:i]
	}
	return is.Prop + ":" + c + ":" + pr.P.Note
}

func specJSON(p *Program) string {
	return marshalIndent(p)
}

func addSamples(rep *Report, results []*ProgResult, n int) {
	for _, pr := range results {
		if n == 0 {
			break
		}
		if len(pr.Calls) == 0 {
			continue
		}
		var lines []string
		for _, ct := range pr.Calls {
			if len(ct.Events) > 3 {
				lines = strings.Split(strings.TrimSpace(ct.Dump()), "\n")
				if ct.Plan != "" {
					break
				}
			}
		}
		if len(lines) > 14 {
			lines = lines[:14]
		}
		rep.Sample(map[string]interface{}{"program": pr.P.ID, "features": pr.P.Feat, "trace_excerpt": lines})
		n--
	}
}

// CheckC01 — success => compilable package implementing every injector.
func CheckC01(e *Env) int {
	t0 := time.Now()
	rep := NewReport(e, "C01", "exploration", "well-formed programs from the stratified random generator plus the result-kind x result-shape matrix; each is generated by wire, compiled under default tags with a typed function-variable assignment per injector, and parsed back; distinct = distinct feature signature (source-kind multiset, packages, sets, injectors)")
	progs := genPool(e, "a", e.tierN(160, 1600), nil)
	progs = append(progs, resultKindMatrix(e)...)
	progs = append(progs, crossPkgAccessProgs(e)...)
	progs = append(progs, injectorTemplateForms()...)
	// several value variables in one injector whose types suggest one and the same name
	progs = append(progs, sameNamedValuesFamily()...)
	progs = append(progs, variadicBlankParamFamily()...)
	// value expressions of two same-named libraries and of libraries importing different packages
	// under one name: here only "gen succeeded, so the package compiles" is judged
	atw, _, _ := c13TwinProgram("atwin")
	progs = append(progs, atw)
	results := RunPool(e, progs, PoolOpts{Execute: true, Name: "c01"})
	for _, pr := range results {
		EvalAccepted(pr)
		if pr.P.RawDriver && len(pr.Issues) == 0 {
			// hand-written drivers: an injector that panics has not been implemented (the
			// template itself panics when it is taken for an ordinary function and copied)
			for _, ct := range pr.Calls {
				for _, ev := range ct.Events {
					if ev.Ev == "panic" {
						pr.add("C01", "gen reported success but calling injector "+ct.Inj+" panics: "+ev.Msg, pr.GenFile)
					}
					if ev.Ev == "note" && ev.Kind == "template_form" && len(ev.Vals) > 0 && ev.Vals[0] == "false" {
						pr.add("C01", "gen reported success but injector "+ct.Inj+" returns the template's placeholder result, not the provided value", pr.GenFile)
					}
				}
			}
		}
	}
	reportPool(rep, results)
	addSamples(rep, results, 3)
	// unusual-but-legal spellings (the C20 form space): whatever gen accepts must compile
	var fprogs []*Program
	fnames := map[string]string{}
	for i, fc := range c20Forms() {
		if strings.HasSuffix(fc.Name, "/nested-inline") || strings.HasSuffix(fc.Name, "/in-set-var") {
			continue
		}
		id := fmt.Sprintf("cf%04d", i)
		fprogs = append(fprogs, formProgram(id, fc))
		fnames[id] = fc.Name
	}
	fres := RunPool(e, fprogs, PoolOpts{Execute: true, Name: "c01f", BatchSize: 24})
	for _, pr := range fres {
		if pr.PreBad != "" || pr.Incon != "" || pr.Crash != "" || pr.Outcome == nil || !pr.Outcome.Wrote {
			continue
		}
		rep.Count("accepted_unusual_forms_compiled", 1)
		if pr.BuildErr != "" {
			files := pr.P.Files(false)
			files[pr.P.ID+"/app/wire_gen.go"] = pr.GenFile
			rep.Violate(pr.P.ID, Issue{Prop: "C01", Clause: "gen reported success for an unusual spelling but the package does not compile", Witness: pr.BuildErr, Sig: "C01:form-nocompile:" + fnames[pr.P.ID]}, files, map[string]string{"form.txt": fnames[pr.P.ID]})
			continue
		}
		rep.Held("form:" + fnames[pr.P.ID])
	}
	rep.Assumptions = []string{"go build of the rendered module is the compile oracle", "generator emits only documented wire forms"}
	return rep.Finish(t0)
}

// CheckC02 — type-directed wiring.
func CheckC02(e *Env) int {
	t0 := time.Now()
	rep := NewReport(e, "C02", "exploration", "every injector of every generated well-formed program is executed with fresh argument identities; each provider's logged input identities, the result identity, call counts and the needed-set are compared with the reference model; distinct = distinct feature signature")
	progs := genPool(e, "w", e.tierN(200, 2000), func(i int, o *GenOpts) {
		o.MaxFanIn = 2 + i%4
		o.PArg = 0.4
	})
	// dense graphs: high fan-in over few nodes makes earlier parameters depend on later ones
	// (stale planner frames), shared pointer-typed dependencies, several injector parameters
	progs = append(progs, genPool(e, "wd", e.tierN(120, 1200), func(i int, o *GenOpts) {
		o.MaxFanIn = 4
		o.MinNodes, o.MaxNodes = 6+i%10, 10+i%24
		o.Kinds = []string{"func", "func", "func", "func", "func", "bind", "arg", "arg", "struct"}
		o.Shapes = []string{"pstruct", "pstruct", "pstruct", "nstruct", "pnint", "pslice", "aliasptr", "nint", "slice"}
		o.NPkgs = 1 + i%2
		o.NInj = 1 + i%3
		o.PCleanup, o.PErr = 0.2, 0.2
	})...)
	// a struct and its pointer type from two different sources, fields selected from one of them
	progs = append(progs, counterpartFamily("cp", e.Seed, e.tierN(2, 1))...)
	// one type under two spellings (rune/int32, byte/uint8, any/interface{}) consumed three times
	progs = append(progs, spellingTwinsFamily()...)
	// a parameter named like a later local of an assignable type
	progs = append(progs, paramLocalCollisionFamily()...)
	// nothing to construct: the designated argument comes back, not another assignable one
	progs = append(progs, diamondCompositeFamily()...)
	progs = append(progs, caseTwinFieldsFamily()...)
	progs = append(progs, bindSpellingCounterpartsFamily()...)
	progs = append(progs, multiNameSetSpecFamily()...)
	progs = append(progs, localShadowsSetVarFamily()...)
	progs = append(progs, passThroughArgsFamily()...)
	// same-named packages with same-named members
	progs = append(progs, twinPackagesFamily()...)
	// interface, concrete type and the concrete type's input requested in every order
	progs = append(progs, bindOrderFamily("bw", e.Seed, e.tierN(6, 1))...)
	results := RunPool(e, progs, PoolOpts{Execute: true, Name: "c02"})
	for _, pr := range results {
		EvalAccepted(pr)
	}
	reportPool(rep, results, "C12")
	addSamples(rep, results, 3)
	// value sources: the same expression text written in two packages that declare the same
	// names with different values — each consumer must receive its own package's value
	// ... and literals in every spelling: the consumer receives exactly the written number
	runValueCases(e, rep, c13LiteralExprs(), "c02v")
	tp, tkeys, tpairs := c13TwinProgram("wtwin")
	tres := RunPool(e, []*Program{tp}, PoolOpts{Execute: true, Name: "c02tw", BatchSize: 1})
	judgeTwin(rep, tres[0], tkeys, tpairs)
	if rep.Counters["inputs_checked"] == 0 {
		rep.Incon = append(rep.Incon, "no provider input was observed")
		rep.Evaluations = 0
	}
	return rep.Finish(t0)
}

// stressOpts biases towards many cleanup+error function providers.
func stressTweak(i int, o *GenOpts) {
	o.PCleanup = []float64{0.5, 0.8, 1.0}[i%3]
	o.PErr = []float64{0.5, 0.8, 1.0}[(i/3)%3]
	o.Kinds = []string{"func", "func", "func", "struct", "value", "parent", "bind", "arg"}
	if i%4 == 0 {
		o.Kinds = []string{"func"}
	}
	o.MinNodes, o.MaxNodes = 3+i%8, 6+i%14
	o.NInj = 1 + i%3
	o.PArg = 0.15
}

// CheckC03 — failing provider aborts, returns its error, unwinds.
func CheckC03(e *Env) int {
	t0 := time.Now()
	rep := NewReport(e, "C03", "fault_enumeration", "every error-capable provider of every explored injector is failed in turn (single faults, enumerated) plus alternating ok/fail sequences; per call the returned error identity, zero result, nil cleanup, absence of later provider calls, and exact reverse unwinding of acquired cleanups are checked against the log's own acquisition order; distinct = distinct feature signature")
	progs := genPool(e, "f", e.tierN(120, 1500), stressTweak)
	progs = append(progs, cleanupChains(e)...)
	progs = append(progs, sameNameCleanupFamily()...)
	progs = append(progs, namedResultsFamily()...)
	progs = append(progs, diamondCompositeFamily()...)
	progs = append(progs, errNameProgs(e)...)
	progs = append(progs, cleanupSignatureProduct(e)...)
	// the zero value returned on failure, for every kind of result type, declared in the
	// injector's package and in another one
	progs = append(progs, resultKindMatrix(e)...)
	results := RunPool(e, progs, PoolOpts{Execute: true, Name: "c03"})
	for _, pr := range results {
		EvalAccepted(pr)
	}
	reportPool(rep, results)
	addSamples(rep, results, 3)
	if rep.Counters["fail_points"] == 0 {
		rep.Incon = append(rep.Incon, "no failure point fired")
		rep.Evaluations = 0
	}
	return rep.Finish(t0)
}

// CheckC04 — aggregated cleanup.
func CheckC04(e *Env) int {
	t0 := time.Now()
	rep := NewReport(e, "C04", "exploration", "success-path calls of injectors with 0..10 cleanup providers (chains, diamonds, siblings, mixed with struct/field/value steps): returned cleanup non-nil, nothing released before the caller invokes it, then every acquired cleanup exactly once in reverse acquisition order and before anything it was built from; distinct = distinct feature signature")
	progs := genPool(e, "u", e.tierN(120, 1500), stressTweak)
	progs = append(progs, cleanupChains(e)...)
	progs = append(progs, sameNameCleanupFamily()...)
	progs = append(progs, namedResultsFamily()...)
	progs = append(progs, diamondCompositeFamily()...)
	progs = append(progs, cleanupSignatureProduct(e)...)
	results := RunPool(e, progs, PoolOpts{Execute: true, Name: "c04"})
	for _, pr := range results {
		EvalAccepted(pr)
	}
	reportPool(rep, results)
	addSamples(rep, results, 3)
	var ks []string
	for k := range rep.Counters {
		if strings.HasPrefix(k, "cleanups_") {
			ks = append(ks, k)
		}
	}
	sort.Strings(ks)
	if rep.Counters["cleanup_calls"] == 0 {
		rep.Incon = append(rep.Incon, "no cleanup-returning injector ran")
		rep.Evaluations = 0
	}
	return rep.Finish(t0)
}
