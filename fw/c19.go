package fw

import (
	"fmt"
	"os"
	"path/filepath"
	"sort"
	"strings"
	"time"
	"unicode"
)

// diagClasses maps diagnostics to the set of error classes they mention.
func diagClasses(ds []Diag) map[string]bool {
	m := map[string]bool{}
	kw := map[string][]string{
		"conflict":     {"multiple bindings"},
		"missing":      {"no provider found"},
		"bind-missing": {"does not include a provider"},
		"cycle":        {"cycle for"},
		"unused":       {"unused provider", "unused value", "unused interface binding", "unused field"},
		"signature":    {"return values", "return type", "wrong signature"},
		"dup":          {"multiple parameters of type", "multiple fields of type"},
		"need-err":     {"not allowed to fail"},
		"need-cleanup": {"does not return cleanup"},
		"bad-bind":     {"does not implement", "cannot bind interface to itself"},
		"bad-field":    {"is not a field of", "prevented from injecting"},
		"bad-value":    {"too complex", "may not be an interface value", "can't be used"},
	}
	for _, d := range ds {
		for c, ks := range kw {
			for _, k := range ks {
				if strings.Contains(d.Text, k) {
					m[c] = true
				}
			}
		}
	}
	return m
}

func classList(m map[string]bool) string {
	var r []string
	for k := range m {
		r = append(r, k)
	}
	sort.Strings(r)
	return strings.Join(r, ",")
}

// ---------------------------------------------------------------------------
// show parsing and model

type showSet struct {
	Imports []string
	Groups  map[string][]string // header ("no inputs" or "T1, T2") -> provided types
}

type showOut struct {
	Sets      map[string]*showSet // "path".Var -> ...
	Injectors []string
}

// canonSpelling rewrites the predeclared alternative spellings of a type (rune, byte, any)
// to the spelling the model's type keys use; wire may print either. Qualified names
// (pkg.any) are left alone.
func canonSpelling(s string) string {
	var b strings.Builder
	rs := []rune(s)
	isWord := func(r rune) bool { return r == '_' || unicode.IsLetter(r) || unicode.IsDigit(r) }
	for i := 0; i < len(rs); {
		if !isWord(rs[i]) {
			b.WriteRune(rs[i])
			i++
			continue
		}
		j := i
		for j < len(rs) && isWord(rs[j]) {
			j++
		}
		w := string(rs[i:j])
		if i == 0 || rs[i-1] != '.' {
			switch w {
			case "rune":
				w = "int32"
			case "byte":
				w = "uint8"
			case "any":
				w = "interface{}"
			}
		}
		b.WriteString(w)
		i = j
	}
	return b.String()
}

// normGroupKey canonicalises the spellings in a ", "-separated list of types and sorts it
// again (commas nested in brackets do not separate).
func normGroupKey(s string) string {
	if s == "no inputs" {
		return s
	}
	var parts []string
	depth, start := 0, 0
	for i := 0; i < len(s); i++ {
		switch s[i] {
		case '(', '[', '{':
			depth++
		case ')', ']', '}':
			depth--
		case ',':
			if depth == 0 && i+1 < len(s) && s[i+1] == ' ' {
				parts = append(parts, s[start:i])
				start = i + 2
			}
		}
	}
	parts = append(parts, s[start:])
	for i := range parts {
		parts[i] = canonSpelling(parts[i])
	}
	sort.Strings(parts)
	return strings.Join(parts, ", ")
}

func parseShow(stdout string) *showOut {
	so := &showOut{Sets: map[string]*showSet{}}
	var cur *showSet
	var group string
	inInj := false
	for _, line := range strings.Split(stdout, "\n") {
		switch {
		case line == "":
			continue
		case line == "Injectors:":
			inInj = true
			cur = nil
		case inInj && strings.HasPrefix(line, "\t"):
			so.Injectors = append(so.Injectors, strings.TrimSpace(line))
		case !strings.HasPrefix(line, "\t"):
			cur = &showSet{Groups: map[string][]string{}}
			so.Sets[line] = cur
			group = ""
			inInj = false
		case cur == nil:
			continue
		case strings.HasPrefix(line, "\t\t\t"):
			// position line
		case strings.HasPrefix(line, "\t\t"):
			cur.Groups[group] = append(cur.Groups[group], canonSpelling(strings.TrimPrefix(line, "\t\t")))
		case strings.HasPrefix(line, "\tOutputs given "):
			group = normGroupKey(strings.TrimSuffix(strings.TrimPrefix(line, "\tOutputs given "), ":"))
			if _, ok := cur.Groups[group]; !ok {
				cur.Groups[group] = nil
			}
		default:
			cur.Imports = append(cur.Imports, strings.TrimSpace(line))
		}
	}
	return so
}

// showModel computes what show must print for set s of program p.
func showModel(p *Program, an *Analysis, s *Set) (imports []string, groups map[string][]string) {
	// imports: named sets transitively included
	seen := map[int]bool{}
	var walk func(id int)
	walk = func(id int) {
		if t := p.Sets[id]; t.AliasOf > 0 {
			// an alias is the very same set as its target: show lists the target by name
			if !seen[t.AliasOf-1] {
				seen[t.AliasOf-1] = true
				walk(t.AliasOf - 1)
			}
			return
		}
		for _, m := range p.Sets[id].Members {
			if m.Set >= 0 && !seen[m.Set] {
				seen[m.Set] = true
				walk(m.Set)
			}
		}
	}
	walk(s.ID)
	for id := range seen {
		if id != s.ID && !p.Sets[id].Inline && p.Sets[id].AliasOf == 0 {
			imports = append(imports, fmt.Sprintf("%q.%s", p.ImportPath(p.Sets[id].Pkg), p.Sets[id].Name))
		}
	}
	sort.Strings(imports)
	si := an.a.set(s.ID)
	groups = map[string][]string{}
	memo := map[string]map[string]bool{}
	var inputs func(k string, t *Ty) map[string]bool
	inputs = func(k string, t *Ty) map[string]bool {
		if m, ok := memo[k]; ok {
			return m
		}
		memo[k] = map[string]bool{}
		pv := si.prov[k]
		if pv == nil {
			memo[k] = map[string]bool{canonSpelling(t.Str(p)): true}
			return memo[k]
		}
		m := map[string]bool{}
		for _, d := range an.a.deps(pv) {
			for x := range inputs(d.Key(p), d) {
				m[x] = true
			}
		}
		memo[k] = m
		return m
	}
	for _, k := range si.order {
		pv := si.prov[k]
		in := inputs(k, pv.Ty)
		var names []string
		for x := range in {
			names = append(names, x)
		}
		sort.Strings(names)
		h := "no inputs"
		if len(names) > 0 {
			h = strings.Join(names, ", ")
		}
		groups[h] = append(groups[h], canonSpelling(pv.Ty.Str(p)))
	}
	for h := range groups {
		sort.Strings(groups[h])
	}
	return imports, groups
}

// CheckC19 — check and show agree with gen.
func CheckC19(e *Env) int {
	t0 := time.Now()
	rep := NewReport(e, "C19", "exploration", "agreement: accepted generated programs and rejected programs of each class (conflict, missing, cycle, unused, bad signature, duplicate parameter, bad binding, injector lacking error / cleanup, inaccessible value, malformed set variable no injector uses) are run through gen and check on the same tree; check must report an error for a package exactly when gen does or a top-level set variable is malformed, with the same error classes. show: for generated programs with named sets the parsed stdout must equal the model - transitively included named sets, every provided type (bindings and both forms of struct/field providers included) in exactly one group whose header is exactly the set of types needed from outside, and the list of injectors; distinct = (class / program shape)")
	// ---- agreement
	type agr struct {
		p       *Program
		wantGen string // "accept" | "reject"
		wantChk string
		class   string
	}
	var cases []agr
	add := func(p *Program, gen, chk, class string) { cases = append(cases, agr{p, gen, chk, class}) }
	for _, p := range genPool(e, "q", e.tierN(60, 600), func(i int, o *GenOpts) { o.NInj = 1 + i%3 }) {
		add(p, "accept", "accept", "accepted;"+ProgSig(p))
	}
	// rejected, one class each
	n := 0
	nid := func() string { n++; return fmt.Sprintf("ag%04d", n) }
	for _, class := range []string{"S", "PS", "I", "COMP"} {
		kinds := c05Classes[class]
		for i := 0; i < len(kinds); i++ {
			for _, pl := range []string{"direct", "nested+direct", "unused-var(check)"} {
				mut, ctl, _, ok := c05Case(nid(), kinds[i], kinds[(i+1)%len(kinds)], class, pl, false)
				if !ok {
					continue
				}
				if pl == "unused-var(check)" {
					add(mut, "accept", "reject", "conflict-in-unreferenced-set")
					add(ctl, "accept", "accept", "control-unreferenced-set")
				} else {
					add(mut, "reject", "reject", "conflict")
				}
			}
		}
	}
	for i, p := range genPool(e, "qm", e.tierN(15, 150), func(i int, o *GenOpts) { o.NInj = 1; o.MinNodes, o.MaxNodes = 3, 9 }) {
		for _, rc := range removalMutants(p, p.ID, 2, Rng(e.Seed, "c19rm", i)) {
			if rc.NoClaim == "" {
				add(rc.P, "reject", "reject", "missing")
			}
		}
		for _, rc := range superfluousMutants(p, p.ID, []string{"func", "value", "bind", "set"}) {
			add(rc.P, "reject", "reject", "unused")
		}
	}
	for i := 0; i < 12; i++ {
		r := Rng(e.Seed, "c19cyc", i)
		nn := 3 + r.Intn(3)
		g := make([]GNode, nn)
		for u := 0; u < nn; u++ {
			g[u] = GNode{Kind: []string{"func", "struct", "field", "bind"}[r.Intn(4)], Deps: []int{(u + 1) % nn}}
		}
		add(graphProgram(nid(), g, 0, false), "reject", "reject", "cycle")
		add(graphProgram(nid(), g, 0, true), "accept", "reject", "cycle-in-unreferenced-set")
	}
	// a set variable made ONLY of other sets (and a binding): each part is acyclic, the union
	// is not; no injector uses it, so only check's look at set variables can notice
	for v := 0; v < 4; v++ {
		b := NewPB(nid(), "app")
		store, cache, other := b.Carrier(0, "Store"), b.Carrier(0, "Cache"), b.Carrier(0, "Other")
		var members []Ref
		if v%2 == 0 {
			backing := b.Iface(0, "Backing", PtrTo(store), true)
			ns := b.Func(0, "NewStore", PtrTo(store), false, false, PtrTo(cache))
			nc := b.Func(0, "NewCache", PtrTo(cache), false, false, backing)
			ns.Stub, nc.Stub = true, true
			s1, s2 := b.Set(0, "StoreSet", ItemRef(ns.ID)), b.Set(0, "CacheSet", ItemRef(nc.ID))
			members = []Ref{SetRef(s1.ID), SetRef(s2.ID), ItemRef(b.Bind(backing, PtrTo(store)).ID)}
		} else {
			ns := b.Func(0, "NewStore", PtrTo(store), false, false, PtrTo(cache))
			nc := b.Func(0, "NewCache", PtrTo(cache), false, false, PtrTo(store))
			ns.Stub, nc.Stub = true, true
			s1, s2 := b.Set(0, "StoreSet", ItemRef(ns.ID)), b.Set(0, "CacheSet", ItemRef(nc.ID))
			members = []Ref{SetRef(s1.ID), SetRef(s2.ID)}
		}
		if v >= 2 {
			// one more level of inclusion
			mid := b.Set(0, "Mid", members...)
			members = []Ref{SetRef(mid.ID)}
		}
		b.Set(0, "All", members...)
		no := b.Func(0, "NewOther", other, false, false)
		no.Stub = true
		b.Inj("Init", other, false, false, nil, ItemRef(no.ID))
		add(b.P, "accept", "reject", fmt.Sprintf("cycle-in-unreferenced-include-only-set/variant=%d", v))
	}
	for _, sh := range [][]string{{}, {"V", "V"}, {"V", "CF"}, {"V", "error", "func()"}, {"V", "func()", "error", "V"}} {
		add(c09ShapeProgram(nid(), sh, false, false), "reject", "reject", "signature")
		add(c09ShapeProgram(nid(), sh, true, false), "reject", "reject", "injector-signature")
	}
	// injector lacking error / cleanup, at depth 1..3
	for need := 1; need < 4; need++ {
		for depth := 1; depth <= 3; depth++ {
			b := NewPB(nid(), "app")
			var items []*Item
			var prev *Ty
			for d := depth; d >= 1; d-- {
				t := b.Carrier(0, "")
				var ps []*Ty
				if prev != nil {
					ps = []*Ty{prev}
				}
				f := b.Func(0, "", t, d == depth && need&1 != 0, d == depth && need&2 != 0, ps...)
				f.Stub = true
				items = append(items, f)
				prev = t
			}
			b.Inj("Init", prev, false, false, nil, refs(items...)...)
			add(b.P, "reject", "reject", fmt.Sprintf("injector-lacks(cleanup=%v,err=%v)/depth=%d", need&1 != 0, need&2 != 0, depth))
		}
	}
	// the failing injector is not the first one: second in the file / in a second file, return or panic form,
	// with and without parameters; plus malformed unreferenced sets declared in the injector file / in a var group
	for pos := 0; pos < 2; pos++ {
		for _, panicForm := range []bool{false, true} {
			for _, withParam := range []bool{false, true} {
				for _, class := range []string{"missing", "need-err", "need-cleanup", "unused", "conflict"} {
					b := NewPB(nid(), "app")
					a, c, d := b.Carrier(0, "A"), b.Carrier(0, "C"), b.Carrier(0, "D")
					fa := b.Func(0, "NewA", a, false, false)
					fa.Stub = true
					good := b.Inj("InitGood", a, false, false, nil, ItemRef(fa.ID))
					var params []Param
					var fc *Item
					if withParam {
						params = []Param{{Name: "d", Ty: d}}
						fc = b.Func(0, "NewC", c, class == "need-cleanup", class == "need-err", d)
					} else {
						fc = b.Func(0, "NewC", c, class == "need-cleanup", class == "need-err")
					}
					fc.Stub = true
					build := []Ref{ItemRef(fc.ID)}
					switch class {
					case "unused":
						extra := b.Func(0, "NewUnusedThing", b.Carrier(0, "UnusedThing"), false, false)
						extra.Stub = true
						build = append(build, ItemRef(extra.ID))
					case "conflict":
						extra := b.Func(0, "NewCAgain", c, false, false)
						extra.Stub = true
						build = append(build, ItemRef(extra.ID))
					}
					if class == "missing" {
						fc.Params = append(fc.Params, b.Carrier(0, "Absent"))
					}
					bad := b.Inj("InitBad", c, false, false, params, build...)
					bad.Panic = panicForm
					bad.File = pos
					_ = good
					add(b.P, "reject", "reject", fmt.Sprintf("second-injector/%s/file=%d/panic=%v/param=%v", class, pos, panicForm, withParam))
				}
			}
		}
	}
	for v := 0; v < 4; v++ {
		mut, ctl, _, ok := c05Case(nid(), "func", "value", "S", "unused-var(check)", false)
		if !ok {
			continue
		}
		for _, p := range []*Program{mut, ctl} {
			for _, s := range p.Sets {
				s.InInjectFile = v&1 != 0
				s.Grouped = v&2 != 0
				if v >= 2 && v&1 == 0 {
					s.Name = "lowerCaseSet"
				}
			}
		}
		add(mut, "accept", "reject", fmt.Sprintf("conflict-in-unreferenced-set/injectfile=%v/grouped=%v", v&1 != 0, v&2 != 0))
		add(ctl, "accept", "accept", "control-unreferenced-set-variants")
	}
	// declarations that merely MENTION wire.ProviderSet are not provider-set variables
	for k, raw := range []string{
		"type PS = wire.ProviderSet\n\nvar GoodSet PS = wire.NewSet(NewA)\n",
		"type PSDefined wire.ProviderSet\n",
		"func MakeSet() wire.ProviderSet { return wire.NewSet(NewA) }\n",
		"const NotASet = 3\n\ntype Holder struct{ S wire.ProviderSet }\n",
	} {
		b := NewPB(nid(), "app")
		a := b.Carrier(0, "A")
		fa := b.Func(0, "NewA", a, false, false)
		fa.Stub = true
		b.Inj("Init", a, false, false, nil, ItemRef(fa.ID))
		b.P.InjRaw = raw
		add(b.P, "accept", "accept", fmt.Sprintf("providerset-type-mentioned-not-a-set-variable/%d", k))
	}
	// an injector parameter spelled like a top-level set / provider (gen refuses the argument)
	for _, rc := range crossInjectorCases() {
		if rc.Class == "not-provider" {
			rc.P.ID = nid()
			add(rc.P, "reject", "reject", "parameter-named-like-a-package-level-object")
		}
	}
	for _, rc := range c11Negatives() {
		rc.P.ID = nid()
		add(rc.P, "reject", "reject", "bad-binding")
	}
	for _, v := range []vexpr{
		{Expr: "@hidden", Type: "int"}, {Expr: "@S{hid: 1}", Type: "@S"}, {Expr: "@VS.hid", Type: "int"},
	} {
		for shape := 0; shape < 4; shape++ {
			add(c13Program(nid(), []c13Case{{ID: 1, V: v, Cross: true, Class: "reject", ResShape: shape}}), "reject", "reject", fmt.Sprintf("inaccessible-value/result-shape=%d", shape))
		}
		// the declaring package uses the set itself (legally) and is analysed first
		add(c13Program(nid(), []c13Case{{ID: 1, V: v, Cross: true, Class: "reject", HomeInjector: true}}), "reject", "reject", "inaccessible-value/home-package-uses-it-too")
	}
	for shape := 0; shape < 4; shape++ {
		v := vexpr{Expr: "float64(x) + 0.5", Type: "float64", Param: "x int", Local: true}
		add(c13Program(nid(), []c13Case{{ID: 1, V: v, Class: "reject", ResShape: shape}}), "reject", "reject", fmt.Sprintf("value-mentions-parameter/result-shape=%d", shape))
	}
	// injector templates in unusual forms (methods, type parameters, alias-typed signatures):
	// whichever way gen decides, check has to decide the same way
	for _, p := range injectorTemplateForms() {
		add(p, "either", "accept", "template-form/"+strings.TrimPrefix(p.Note, "template-form-"))
	}
	var progs []*Program
	for _, c := range cases {
		progs = append(progs, c.p)
	}
	results := RunPool(e, progs, PoolOpts{Name: "c19", BatchSize: 40, AlsoCheck: true, AlsoShow: true})
	for i, pr := range results {
		c := cases[i]
		if pr.PreBad != "" {
			rep.Incon = append(rep.Incon, "harness: "+pr.P.ID+" ("+c.class+"): "+firstLine(pr.PreBad)+" / "+secondLine(pr.PreBad))
			continue
		}
		if pr.Incon != "" {
			rep.Incon = append(rep.Incon, pr.P.ID+": "+pr.Incon)
			continue
		}
		if pr.Outcome == nil {
			pr.Outcome = &PkgOutcome{}
		}
		violate := func(clause, witness string) {
			rep.Violate(pr.P.ID, Issue{Prop: "C19", Clause: clause, Witness: witness, Sig: "C19:" + clause + ":" + strings.Split(c.class, ";")[0]}, pr.P.Files(false),
				map[string]string{"class.txt": c.class, "gen_stderr.txt": pr.GenStderr})
		}
		if pr.Crash != "" {
			violate("crash", pr.Crash)
			continue
		}
		genDiags := append(append([]Diag(nil), pr.Outcome.Diags...), pr.LibDiags...)
		genRejects := pr.Outcome.Failed || len(genDiags) > 0
		chkRejects := len(pr.CheckDiags) > 0
		var gt, ctx []string
		for _, d := range genDiags {
			gt = append(gt, d.Text)
		}
		for _, d := range pr.CheckDiags {
			ctx = append(ctx, d.Text)
		}
		w := "gen:\n" + strings.Join(gt, "\n") + "\n\ncheck:\n" + strings.Join(ctx, "\n")
		if c.wantGen != "either" && genRejects != (c.wantGen == "reject") {
			// gen itself disagrees with the expectation: another property's business; no verdict here
			rep.NoClaim++
			continue
		}
		if genRejects && !chkRejects {
			violate("gen fails for this package but check reports nothing ("+c.class+")", w)
			continue
		}
		if genRejects && chkRejects && pr.ShowRan && len(pr.ShowDiags) == 0 && c.wantGen == "reject" {
			// show is built on the same analysis as check: an error of these classes (all found
			// while the sets and injectors are analysed) that check reports and show does not
			// means show lists as usable what gen refuses
			violate("gen and check refuse this package but show reports no error for it ("+c.class+")", w)
			continue
		}
		if !genRejects && c.wantChk == "accept" && chkRejects {
			violate("gen succeeds and every set variable is well-formed, but check reports an error", w)
			continue
		}
		if !genRejects && c.wantChk == "reject" && !chkRejects {
			violate("malformed top-level set variable not reported by check ("+c.class+")", w)
			continue
		}
		if genRejects {
			gc, cc := diagClasses(genDiags), diagClasses(pr.CheckDiags)
			// check additionally analyses every top-level set variable: classes beyond gen's are
			// legitimate exactly when the model finds a malformed set variable
			setsBroken := len(Analyze(pr.P).Sets) > 0
			differ := false
			for k := range gc {
				if !cc[k] {
					differ = true
				}
			}
			for k := range cc {
				if !gc[k] && !setsBroken {
					differ = true
				}
			}
			if differ {
				violate(fmt.Sprintf("error classes differ: gen {%s} vs check {%s}", classList(gc), classList(cc)), w)
				continue
			}
			rep.Count("rejected_by_both_same_classes", 1)
		} else if chkRejects {
			rep.Count("unreferenced_malformed_set_reported", 1)
		} else {
			rep.Count("accepted_by_both", 1)
		}
		rep.Held("agree:" + c.class)
	}
	// ---- show
	showProgs := genPool(e, "sh", e.tierN(60, 500), func(i int, o *GenOpts) {
		o.ForceSets = true
		o.NInj = 1 + i%2
		o.Shapes = []string{"nstruct", "nstruct", "pstruct", "nint", "nstring", "slice", "array", "map", "chan", "rchan", "func", "wrapslice", "wrapmap", "basic", "generic", "alias", "pnint", "nfloat", "pslice"}
		o.Kinds = []string{"func", "func", "func", "struct", "value", "bind", "parent", "arg", "ifunc"}
	})
	// provider set variables that are aliases of other set variables
	for i, p := range showProgs {
		if i%3 != 0 {
			continue
		}
		for _, t := range append([]*Set(nil), p.Sets...) {
			if !t.Inline && t.AliasOf == 0 {
				p.AddSet(&Set{Pkg: t.Pkg, Name: "Alias" + t.Name, AliasOf: t.ID + 1})
				p.AddSet(&Set{Pkg: t.Pkg, Name: "AliasOfAlias" + t.Name, AliasOf: len(p.Sets)})
				break
			}
		}
	}
	// ... and aliases declared in ANOTHER package than the set they name
	for i, p := range showProgs {
		if i%3 != 1 {
			continue
		}
		for _, t := range append([]*Set(nil), p.Sets...) {
			if !t.Inline && t.AliasOf == 0 && t.Pkg != 0 {
				p.AddSet(&Set{Pkg: 0, Name: "LocalAliasOf" + t.Name, AliasOf: t.ID + 1})
				break
			}
		}
	}
	// sets whose outputs need inputs nothing in the set provides through unusual edges: the
	// slice of a variadic provider, the parent of a field selection, the concrete side of a
	// binding, a struct provider's fields
	for v := 0; v < 4; v++ {
		b := NewPB(fmt.Sprintf("shv%d", v), "app")
		opt := b.Carrier(0, "Opt")
		name := b.NamedOf(0, "Name", Basic("string"), "string")
		srv := b.Carrier(0, "Server")
		f := b.Func(0, "NewServer", PtrTo(srv), false, false, name, SliceOf(opt))
		f.Variadic = true
		members := []Ref{ItemRef(f.ID)}
		var params []Param
		switch v {
		case 0: // nothing else: both inputs come from outside
			params = []Param{{Name: "n", Ty: name}, {Name: "opts", Ty: SliceOf(opt)}}
		case 1: // the slice is provided inside the set
			members = append(members, ItemRef(b.Func(0, "NewOpts", SliceOf(opt), false, false).ID))
			params = []Param{{Name: "n", Ty: name}}
		case 2: // a consumer of the server as well
			u := b.Carrier(0, "User")
			members = append(members, ItemRef(b.Func(0, "NewUser", u, false, false, PtrTo(srv)).ID))
			params = []Param{{Name: "n", Ty: name}, {Name: "opts", Ty: SliceOf(opt)}}
		case 3: // the name comes from a value
			members = append(members, ItemRef(b.Value(name).ID))
			params = []Param{{Name: "opts", Ty: SliceOf(opt)}}
		}
		set := b.Set(0, "VSet", members...)
		b.Inj("Init", PtrTo(srv), false, false, params, SetRef(set.ID))
		b.P.Feat = map[string]string{"show": "variadic-input", "variant": fmt.Sprint(v)}
		showProgs = append(showProgs, b.P)
	}
	// every layer calls its set ProviderSet: an included set of the same variable name in
	// another package (directly and through a further set) is an included set like any other
	for v := 0; v < 3; v++ {
		b := NewPB(fmt.Sprintf("shsn%d", v), "app", "data", "biz")
		store, extra, uc, svc := b.Carrier(1, "Store"), b.Carrier(1, "Extra"), b.Carrier(2, "Usecase"), b.Carrier(0, "Service")
		ns := b.Func(1, "NewStore", PtrTo(store), false, false)
		ne := b.Func(1, "NewExtra", extra, false, false)
		dataSet := b.Set(1, "ProviderSet", ItemRef(ns.ID))
		extraSet := b.Set(1, "ExtraSet", ItemRef(ne.ID))
		nu := b.Func(2, "NewUsecase", PtrTo(uc), false, false, PtrTo(store))
		bizMembers := []Ref{ItemRef(nu.ID)}
		if v >= 1 {
			bizMembers = append(bizMembers, SetRef(dataSet.ID))
		}
		bizSet := b.Set(2, "ProviderSet", bizMembers...)
		nsvc := b.Func(0, "NewService", svc, false, false, PtrTo(uc), extra)
		members := []Ref{ItemRef(nsvc.ID), SetRef(bizSet.ID), SetRef(extraSet.ID)}
		if v != 1 {
			members = append(members, SetRef(dataSet.ID))
		}
		outer := b.Set(0, "ProviderSet", members...)
		b.Inj("Init", svc, false, false, nil, SetRef(outer.ID))
		b.P.Feat = map[string]string{"show": "same-named-sets-in-every-layer", "variant": fmt.Sprint(v)}
		showProgs = append(showProgs, b.P)
	}
	var batches [][]*Program
	for i := 0; i < len(showProgs); i += 24 {
		j := i + 24
		if j > len(showProgs) {
			j = len(showProgs)
		}
		batches = append(batches, showProgs[i:j])
	}
	type showRes struct {
		out *showOut
		res *CmdResult
		pre map[string]string
	}
	sres := make([]showRes, len(batches))
	e.ParallelDo(len(batches), func(bi int) {
		b, err := e.NewBatch(fmt.Sprintf("c19show-%d", bi), batches[bi], nil)
		if err != nil {
			return
		}
		defer b.Remove()
		b.Precheck()
		res := e.Wire(b.Root, nil, "show", "./...")
		sres[bi] = showRes{out: parseShow(res.Stdout), res: res, pre: b.PreBad}
	})
	for bi, batch := range batches {
		sr := sres[bi]
		if sr.res == nil {
			rep.Incon = append(rep.Incon, "show batch could not be rendered")
			continue
		}
		if sr.res.Crashed() {
			rep.Violate(fmt.Sprintf("showbatch%d", bi), Issue{Prop: "C19", Clause: "wire show crashed", Witness: tail(sr.res.Stderr, 3000), Sig: "C19:show-crash"}, nil, nil)
			continue
		}
		for _, p := range batch {
			if msg, bad := sr.pre[p.ID]; bad {
				rep.Incon = append(rep.Incon, "harness: "+p.ID+": "+secondLine(msg))
				continue
			}
			an := Analyze(p)
			if !an.Accepted() {
				continue
			}
			bad := ""
			for _, s := range p.Sets {
				if s.Inline {
					continue
				}
				key := fmt.Sprintf("%q.%s", p.ImportPath(s.Pkg), s.Name)
				got := sr.out.Sets[key]
				if got == nil {
					bad = "top-level set " + key + " is not listed by show"
					break
				}
				wantImp, wantGroups := showModel(p, an, s)
				gi := append([]string(nil), got.Imports...)
				sort.Strings(gi)
				if strings.Join(gi, "\n") != strings.Join(wantImp, "\n") {
					bad = fmt.Sprintf("set %s: included named sets differ\n got: %v\nwant: %v", key, gi, wantImp)
					break
				}
				for h := range got.Groups {
					sort.Strings(got.Groups[h])
				}
				if fmt.Sprint(got.Groups) != fmt.Sprint(wantGroups) {
					bad = fmt.Sprintf("set %s: output groups differ\n got: %v\nwant: %v", key, got.Groups, wantGroups)
					break
				}
				rep.Count("show_sets_compared", 1)
				rep.Count("show_groups_compared", len(wantGroups))
			}
			if bad == "" {
				var wantInj []string
				for _, in := range p.Injs {
					wantInj = append(wantInj, fmt.Sprintf("%q.%s", p.ImportPath(0), in.Name))
				}
				sort.Strings(wantInj)
				var gotInj []string
				for _, x := range sr.out.Injectors {
					if strings.HasPrefix(x, fmt.Sprintf("%q.", p.ImportPath(0))) {
						gotInj = append(gotInj, x)
					}
				}
				sort.Strings(gotInj)
				if strings.Join(gotInj, "\n") != strings.Join(wantInj, "\n") {
					bad = fmt.Sprintf("injector list differs\n got: %v\nwant: %v", gotInj, wantInj)
				}
			}
			if bad != "" {
				rep.Violate(p.ID, Issue{Prop: "C19", Clause: "show: " + firstLine(bad), Witness: bad, Sig: "C19:show:" + firstLine(bad)[:min(len(firstLine(bad)), 40)]}, p.Files(false), map[string]string{"show_stdout.txt": sr.res.Stdout})
				continue
			}
			if len(p.Sets) > 0 {
				rep.Held("show:" + ProgSig(p))
				if len(rep.Samples) < 2 {
					rep.Sample(map[string]interface{}{"program": p.ID, "show_sets": len(p.Sets), "example_groups": func() interface{} {
						_, g := showModel(p, an, p.Sets[0])
						return g
					}()})
				}
			}
		}
	}
	showSameSpelling(e, rep)
	tagsAgreement(e, rep)
	return rep.Finish(t0)
}

func min(a, b int) int {
	if a < b {
		return a
	}
	return b
}

// showSameSpelling: two different types that are spelled alike (unnamed structs whose
// unexported field belongs to different packages). show has to list every type a set can
// provide, and print the same text on every run.
func showSameSpelling(e *Env, rep *Report) {
	id := "shsame"
	p := &Program{ID: id, Module: ModulePath, Extra: map[string]string{}, Feat: map[string]string{"shape": "show-same-spelling"}, RawDriver: true}
	p.Pkgs = []*Pkg{{Name: "app", Dir: "app"}, {Name: "dep", Dir: "dep"}}
	p.Extra["1/dep.go"] = "package dep\n\nfunc NewDep() struct{ a int } { return struct{ a int }{1} }\n\ntype FromDepT struct{ N int }\n\nfunc FromDep(v struct{ a int }) FromDepT { return FromDepT{v.a} }\n"
	p.Extra["0/decl.go"] = "package app\n\nimport (\n\t\"github.com/google/wire\"\n\t\"" + p.ImportPath(1) + "\"\n)\n\nfunc NewLocal() struct{ a int } { return struct{ a int }{2} }\n\ntype FromLocalT struct{ N int }\n\nfunc FromLocal(v struct{ a int }) FromLocalT { return FromLocalT{v.a} }\n\nvar Both = wire.NewSet(dep.NewDep, NewLocal)\n\nvar Users = wire.NewSet(dep.FromDep, FromLocal)\n"
	p.Extra["0/wire.go"] = "//go:build wireinject\n// +build wireinject\n\npackage app\n\nimport \"github.com/google/wire\"\n\nfunc Init() FromLocalT {\n\tpanic(wire.Build(Both, Users))\n}\n"
	p.Extra["0/zz_driver.go"] = "//go:build !wireinject\n// +build !wireinject\n\npackage app\n\nfunc Scenarios() {}\n"
	b, err := e.NewBatch("c19same", []*Program{p}, nil)
	if err != nil {
		rep.Incon = append(rep.Incon, "harness: "+err.Error())
		return
	}
	defer b.Remove()
	var first string
	for k := 0; k < 8; k++ {
		res := e.Wire(b.Root, nil, "show", "./"+id+"/app")
		if res.TimedOut {
			rep.Incon = append(rep.Incon, id+": watchdog")
			return
		}
		if res.Exit != 0 {
			rep.Incon = append(rep.Incon, "harness: "+id+": show failed: "+tail(res.Stderr, 300))
			return
		}
		out := strings.ReplaceAll(res.Stdout, b.Root, "<root>")
		if k == 0 {
			first = out
			so := parseShow(out)
			key := fmt.Sprintf("%q.Both", p.ImportPath(0))
			n := 0
			if s := so.Sets[key]; s != nil {
				for _, outs := range s.Groups {
					for _, o := range outs {
						if o == "struct{a int}" {
							n++
						}
					}
				}
			}
			if n != 2 {
				rep.Violate(id, Issue{Prop: "C19", Clause: fmt.Sprintf("show lists %d of the 2 different types spelled struct{a int} that set Both provides", n), Witness: out, Sig: "C19:show-same-spelling:missing"}, p.Files(false), nil)
				return
			}
			continue
		}
		if out != first {
			rep.Violate(id, Issue{Prop: "C19", Clause: "show prints different text on different runs for one tree", Witness: firstDiff(first, out), Sig: "C19:show-same-spelling:unstable"}, p.Files(false), nil)
			return
		}
	}
	rep.Count("show_same_spelling_runs", 8)
	rep.Held("show:same-spelling")
}

// tagsAgreement: the -tags option selects which injector files belong to the package; gen and
// check given the same tags must decide alike (one file set generates, the other lacks a provider).
func tagsAgreement(e *Env, rep *Report) {
	var progs []*Program
	for v := 0; v < 2; v++ {
		id := fmt.Sprintf("tagagr%d", v)
		p := &Program{ID: id, Module: ModulePath, Extra: map[string]string{}, Feat: map[string]string{"shape": "tags-select-injector-files"}, RawDriver: true}
		p.Pkgs = []*Pkg{{Name: "app", Dir: "app"}}
		p.Extra["0/decl.go"] = "package app\n\ntype Config struct{ N int }\n\ntype Server struct{ C Config }\n\nfunc NewConfig() Config { return Config{1} }\n\nfunc NewServer(c Config) *Server { return &Server{c} }\n"
		good := "func Init() *Server {\n\tpanic(wire.Build(NewConfig, NewServer))\n}\n"
		bad := "func Init() *Server {\n\tpanic(wire.Build(NewServer))\n}\n"
		prod, dev := good, bad
		if v == 1 {
			prod, dev = bad, good
		}
		p.Extra["0/inject_prod.go"] = "//go:build wireinject && prod\n// +build wireinject,prod\n\npackage app\n\nimport \"github.com/google/wire\"\n\n" + prod
		p.Extra["0/inject_dev.go"] = "//go:build wireinject && !prod\n// +build wireinject,!prod\n\npackage app\n\nimport \"github.com/google/wire\"\n\n" + dev
		p.Extra["0/zz_driver.go"] = "//go:build !wireinject\n// +build !wireinject\n\npackage app\n\nfunc Scenarios() {}\n"
		progs = append(progs, p)
	}
	b, err := e.NewBatch("c19tags", progs, nil)
	if err != nil {
		rep.Incon = append(rep.Incon, "harness: "+err.Error())
		return
	}
	defer b.Remove()
	for v, p := range progs {
		for _, tags := range []string{"", "prod", "other"} {
			args := func(cmd string) []string {
				a := []string{cmd}
				if tags != "" {
					a = append(a, "-tags", tags)
				}
				return append(a, "./"+p.ID+"/app")
			}
			os.Remove(filepath.Join(b.Root, p.ID, "app", "wire_gen.go"))
			g := e.Wire(b.Root, nil, args("gen")...)
			c := e.Wire(b.Root, nil, args("check")...)
			if g.TimedOut || c.TimedOut {
				rep.Incon = append(rep.Incon, p.ID+": watchdog")
				continue
			}
			wantFail := (tags == "prod") == (v == 1)
			w := fmt.Sprintf("tags=%q\ngen exit=%d\n%s\ncheck exit=%d\n%s", tags, g.Exit, tail(g.Stderr, 600), c.Exit, tail(c.Stderr, 600))
			if (g.Exit != 0) != wantFail {
				// gen itself ignores or misapplies the tags: not this property's verdict
				rep.NoClaim++
				continue
			}
			if (g.Exit != 0) != (c.Exit != 0) {
				rep.Violate(p.ID, Issue{Prop: "C19", Clause: fmt.Sprintf("gen and check given the same -tags decide differently (gen exit %d, check exit %d)", g.Exit, c.Exit), Witness: w, Sig: "C19:tags-agreement"}, p.Files(false), map[string]string{"tags.txt": tags})
				continue
			}
			rep.Count("tags_agreement_runs", 1)
			rep.Held(fmt.Sprintf("agree:tags-select-injector-files/variant=%d/tags=%s", v, tags))
		}
	}
}
