package fw

import (
	"fmt"
	"time"
)

// removeItemEverywhere deletes every reference to item id from builds and sets.
func removeItemEverywhere(p *Program, id int) {
	strip := func(rs []Ref) []Ref {
		var out []Ref
		for _, r := range rs {
			if r.Item == id {
				continue
			}
			out = append(out, r)
		}
		return out
	}
	for _, s := range p.Sets {
		s.Members = strip(s.Members)
	}
	for _, in := range p.Injs {
		in.Build = strip(in.Build)
	}
}

// removalMutants: for each needed provision of each injector, the program without that source.
func removalMutants(base *Program, idPrefix string, max int, r interface{ Intn(int) int }) []*RejectCase {
	an := Analyze(base)
	if !an.Accepted() {
		return nil
	}
	type cand struct {
		item int // item id or -1
		inj  int
		arg  int
		desc string
	}
	var cands []cand
	seen := map[string]bool{}
	for ii, pl := range an.Injs {
		for _, k := range pl.Needed {
			pv := pl.NeedProv[k]
			if pv.Item == nil {
				key := fmt.Sprintf("arg:%d:%d", ii, pv.Arg)
				if !seen[key] {
					seen[key] = true
					cands = append(cands, cand{item: -1, inj: ii, arg: pv.Arg, desc: "arg"})
				}
				continue
			}
			key := fmt.Sprintf("item:%d", pv.Item.ID)
			if seen[key] {
				continue
			}
			seen[key] = true
			where := "leaf"
			if len((&analysis{p: base}).deps(pv)) > 0 {
				where = "interior"
			}
			cands = append(cands, cand{item: pv.Item.ID, inj: ii, desc: string(pv.Item.Kind) + "/" + where})
		}
	}
	// choose up to max candidates
	for len(cands) > max {
		i := r.Intn(len(cands))
		cands = append(cands[:i], cands[i+1:]...)
	}
	var out []*RejectCase
	// single removals, then pairs of item removals (several types missing at once)
	type job struct{ cs []cand }
	var jobs []job
	for _, c := range cands {
		jobs = append(jobs, job{[]cand{c}})
	}
	for i := 0; i+1 < len(cands) && len(jobs) < 2*max; i++ {
		j := (i + 1 + r.Intn(len(cands)-1)) % len(cands)
		if j != i && cands[i].item >= 0 && cands[j].item >= 0 {
			jobs = append(jobs, job{[]cand{cands[i], cands[j]}})
		}
	}
	for ci, jb := range jobs {
		c := jb.cs[0]
		m := base.Clone()
		m.ID = fmt.Sprintf("%sm%d", idPrefix, ci)
		for _, c := range jb.cs {
			if c.item >= 0 {
				removeItemEverywhere(m, c.item)
			} else {
				in := m.Injs[c.inj]
				if in.Variadic && c.arg == len(in.Params)-1 {
					in.Variadic = false
				}
				in.Params = append(in.Params[:c.arg:c.arg], in.Params[c.arg+1:]...)
			}
		}
		if len(jb.cs) > 1 {
			c.desc = "pair:" + jb.cs[0].desc + "+" + jb.cs[1].desc
		}
		man := Analyze(m)
		var names []string
		okClass := false
		other := false
		for _, pl := range man.Injs {
			for _, pr := range pl.Problems {
				switch pr.Class {
				case "missing", "bind-missing":
					okClass = true
					if pr.Ty != nil {
						names = append(names, DiagName(m, pr.Ty))
					}
				default:
					other = true
				}
			}
		}
		if !okClass {
			continue
		}
		rc := &RejectCase{P: m, Class: "missing", MustNameAll: names, Cell: "remove:" + c.desc + ";" + ProgSig(base), Twin: base.ID}
		if other {
			rc.NoClaim = "model reports several problem classes"
		}
		m.Note = "remove:" + c.desc
		out = append(out, rc)
	}
	return out
}

// nearMissCases builds the near-miss matrix for C06.
func nearMissCases() []*RejectCase {
	var out []*RejectCase
	forms := []string{"ptr-for-value", "value-for-ptr", "impl-for-iface", "underlying-for-named", "named-for-underlying", "alias-for-original", "other-instantiation", "other-instantiation-nested", "other-spelling"}
	positions := []string{"result", "func-param", "func-param-after-have", "struct-field", "struct-field-after-have", "struct-star-embedded", "bind-concrete", "fields-parent", "fields-parent-ptr-to-field", "dep-of-fields-parent"}
	n := 0
	for _, form := range forms {
		for _, pos := range positions {
			n++
			b := NewPB(fmt.Sprintf("nm%02d", n), "app")
			var need, have *Ty
			accept := false
			switch form {
			case "ptr-for-value":
				s := b.NamedOf(0, "T", StructOf(FieldT{Name: "X", Ty: Basic("int")}), "none")
				need, have = s, PtrTo(s)
			case "value-for-ptr":
				s := b.NamedOf(0, "T", StructOf(FieldT{Name: "X", Ty: Basic("int")}), "none")
				need, have = PtrTo(s), s
			case "impl-for-iface":
				impl := b.NamedOf(0, "Impl", StructOf(FieldT{Name: "X", Ty: Basic("int")}), "none")
				need = b.Iface(0, "Iface", impl, false)
				have = impl
			case "underlying-for-named":
				need = b.NamedOf(0, "N", Basic("int"), "int")
				have = Basic("int")
			case "named-for-underlying":
				need = Basic("string")
				have = b.NamedOf(0, "N", Basic("string"), "string")
			case "alias-for-original":
				s := b.NamedOf(0, "T", StructOf(FieldT{Name: "X", Ty: Basic("int")}), "none")
				a := b.P.NewDecl(0, "A", s, "")
				a.Alias = true
				need, have = s, Named(a)
				accept = true
			case "other-instantiation", "other-instantiation-nested":
				// Box[A] is provided, Box[B] is needed: instantiations of one generic type are
				// different types
				box := b.P.NewDecl(0, "Box", StructOf(FieldT{Name: "ID_", Ty: Basic("tr.ID")}, FieldT{Name: "V", Ty: Basic("T0")}), "struct")
				box.TParams = 1
				ta := b.NamedOf(0, "ArgA", StructOf(FieldT{Name: "X", Ty: Basic("int")}), "none")
				tb := b.NamedOf(0, "ArgB", StructOf(FieldT{Name: "X", Ty: Basic("int")}), "none")
				inst := func(a *Ty) *Ty { return &Ty{K: "named", Decl: box, DeclID: box.ID, TArgs: []*Ty{a}} }
				need, have = inst(tb), inst(ta)
				if form == "other-instantiation-nested" {
					need, have = inst(inst(ta)), inst(ta)
				}
			case "other-spelling":
				// rune and int32 are one type: accepted
				need, have = SliceOf(Basic("rune")), SliceOf(Basic("int32"))
				accept = true
			}
			hv := b.Func(0, "NewHave", have, false, false)
			hv.Stub = true
			items := []*Item{hv}
			var result *Ty
			switch pos {
			case "result":
				result = need
			case "func-param":
				u := b.Carrier(0, "User")
				f := b.Func(0, "NewUser", u, false, false, need)
				f.Stub = true
				items = append(items, f)
				result = u
			case "func-param-after-have":
				// the provided near miss is an earlier parameter of the same provider
				u := b.Carrier(0, "User")
				f := b.Func(0, "NewUser", u, false, false, have, need)
				f.Stub = true
				items = append(items, f)
				result = u
				if accept {
					continue // one provider cannot take the same type twice
				}
			case "struct-field":
				s := b.NamedOf(0, "Holder", StructOf(FieldT{Name: "F", Ty: need}), "none")
				items = append(items, b.Struct(s, false, "F"))
				result = s
			case "struct-field-after-have":
				if accept {
					continue
				}
				s := b.NamedOf(0, "Holder", StructOf(FieldT{Name: "H", Ty: have}, FieldT{Name: "F", Ty: need}), "none")
				items = append(items, b.Struct(s, false, "H", "F"))
				result = s
			case "struct-star-embedded":
				// "*" over a struct that embeds the needed type
				if accept {
					continue
				}
				base := need
				if base.K == "ptr" {
					base = base.Elem
				}
				if base.K != "named" || base.Decl.Alias {
					continue
				}
				s := b.NamedOf(0, "Holder", StructOf(FieldT{Name: base.Decl.Name, Ty: need, Embedded: true}, FieldT{Name: "Other", Ty: Basic("bool")}), "none")
				ob := b.Func(0, "NewOther", Basic("bool"), false, false)
				ob.Stub = true
				items = append(items, ob, b.Struct(s, true))
				result = s
			case "dep-of-fields-parent":
				// the needed type is an input of the provider of a struct a field is selected from
				if accept {
					continue
				}
				ft := b.NamedOf(0, "FldT", StructOf(FieldT{Name: "Y", Ty: Basic("bool")}), "none")
				par := b.NamedOf(0, "Par", StructOf(FieldT{Name: "X", Ty: Basic("bool")}, FieldT{Name: "Fld", Ty: ft}), "none")
				pf := b.Func(0, "NewPar", PtrTo(par), false, false, need)
				pf.Stub = true
				items = append(items, pf, b.Fields(PtrTo(par), "Fld"))
				result = ft
			case "fields-parent", "fields-parent-ptr-to-field":
				// a field selection whose parent is `need`; only `have` is provided
				if form != "ptr-for-value" && form != "value-for-ptr" && form != "alias-for-original" {
					continue
				}
				if pos == "fields-parent-ptr-to-field" && need.K != "ptr" {
					continue
				}
				sd := need
				if sd.K == "ptr" {
					sd = sd.Elem
				}
				sd.Decl.Under = StructOf(FieldT{Name: "X", Ty: Basic("int")}, FieldT{Name: "Fld", Ty: Basic("string")})
				items = append(items, b.Fields(need, "Fld"))
				result = Basic("string")
				if pos == "fields-parent-ptr-to-field" {
					result = PtrTo(Basic("string"))
				}
			case "bind-concrete":
				// an interface bound to `need`; only `have` is provided
				base := methodBase(need)
				if base == nil || need.IsInterface() {
					continue
				}
				ifc := b.Iface(0, "Bound", need, false)
				items = append(items, b.Bind(ifc, need))
				result = ifc
			}
			b.Inj("Init", result, false, false, nil, refs(items...)...)
			cell := "nearmiss:" + form + "/" + pos
			b.P.Note = cell
			b.P.Feat = map[string]string{"nearmiss": form, "pos": pos}
			rc := &RejectCase{P: b.P, Class: "missing", MustName: []string{DiagName(b.P, need)}, Cell: cell}
			if accept {
				rc.Control = true
				rc.Class = ""
				rc.MustName = nil
			}
			out = append(out, rc)
		}
	}
	// variadic providers: the slice type of the variadic parameter is a dependency like any
	// other — nothing, the element type, an array, or a pointer to the slice do not satisfy it
	for vi, have := range []string{"nothing", "element", "array", "ptr-to-slice", "slice-of-ptr", "slice"} {
		for _, fixed := range []int{0, 1, 2} {
			n++
			b := NewPB(fmt.Sprintf("nv%02d", n), "app")
			opt := b.Carrier(0, "Option")
			need := SliceOf(opt)
			var items []*Item
			var ps []*Ty
			for k := 0; k < fixed; k++ {
				ft := b.Carrier(0, fmt.Sprintf("Fixed%d", k))
				fp := b.Func(0, fmt.Sprintf("NewFixed%d", k), ft, false, false)
				fp.Stub = true
				items = append(items, fp)
				ps = append(ps, ft)
			}
			ps = append(ps, need)
			srv := b.Carrier(0, "Server")
			f := b.Func(0, "NewServer", srv, false, false, ps...)
			f.Variadic = true
			f.Stub = true
			items = append(items, f)
			var hv *Ty
			switch have {
			case "element":
				hv = opt
			case "array":
				hv = ArrayOf(1, opt)
			case "ptr-to-slice":
				hv = PtrTo(SliceOf(opt))
			case "slice-of-ptr":
				hv = SliceOf(PtrTo(opt))
			case "slice":
				hv = need
			}
			if hv != nil {
				h := b.Func(0, "NewHave", hv, false, false)
				h.Stub = true
				items = append(items, h)
			}
			b.Inj("Init", srv, false, false, nil, refs(items...)...)
			cell := fmt.Sprintf("nearmiss:variadic/have=%s/fixed=%d", have, fixed)
			b.P.Note = cell
			b.P.Feat = map[string]string{"nearmiss": "variadic-" + have, "pos": fmt.Sprint(fixed)}
			rc := &RejectCase{P: b.P, Class: "missing", MustName: []string{DiagName(b.P, need)}, Cell: cell}
			if have == "slice" {
				rc = &RejectCase{P: b.P, Control: true, Cell: cell}
			} else if hv != nil {
				// the unrelated provider is also unused; wire reports the missing type first
				rc.Class = "missing"
			}
			_ = vi
			out = append(out, rc)
		}
	}
	// the needed type is provided only by ANOTHER initialiser of the var spec that declares the
	// listed set (var _, SetY = wire.NewSet(NewX), wire.NewSet(NewY)): a set variable means its
	// own initialiser, whatever names stand before or after it
	for _, after := range []bool{false, true} {
		for _, ctl := range []bool{false, true} {
			n++
			b := NewPB(fmt.Sprintf("nb%02d", n), "app")
			x, y, app := b.Carrier(0, "X"), b.Carrier(0, "Y"), b.Carrier(0, "App")
			nx := b.Func(0, "NewX", x, false, false)
			ny := b.Func(0, "NewY", y, false, false)
			na := b.Func(0, "NewApp", app, false, false, x, y)
			nx.Stub, ny.Stub, na.Stub = true, true, true
			set := b.Set(0, "SetY", ItemRef(ny.ID))
			set.BlankSibling = []Ref{ItemRef(nx.ID)}
			set.SiblingAfter = after
			build := []Ref{ItemRef(na.ID), SetRef(set.ID)}
			if ctl {
				build = append(build, ItemRef(nx.ID))
			}
			b.Inj("Init", app, false, false, nil, build...)
			cell := fmt.Sprintf("nearmiss:provided-only-by-the-blank-sibling-of-the-set-variable/blank-after=%v", after)
			b.P.Note = cell
			b.P.Feat = map[string]string{"nearmiss": "blank-sibling-initialiser", "pos": fmt.Sprint(after)}
			if ctl {
				out = append(out, &RejectCase{P: b.P, Control: true, Cell: "control:" + cell})
			} else {
				out = append(out, &RejectCase{P: b.P, Class: "missing", MustName: []string{DiagName(b.P, x)}, Cell: cell})
			}
		}
	}
	return out
}

// orderedSubsets lists every ordered selection (without repetition) of elems.
func orderedSubsets(elems []int) [][]int {
	var out [][]int
	var rec func(cur []int, used map[int]bool)
	rec = func(cur []int, used map[int]bool) {
		out = append(out, append([]int(nil), cur...))
		for _, x := range elems {
			if !used[x] {
				used[x] = true
				rec(append(cur, x), used)
				used[x] = false
			}
		}
	}
	rec(nil, map[int]bool{})
	return out
}

// multiMissingCases: every small graph over root R and providers A, B whose parameters are
// ordered selections of {A, B, L1, L2}, with L1 and L2 both unprovided and both reachable:
// wire must name both missing types whatever the parameter order.
func multiMissingCases(e *Env) []*RejectCase {
	var out []*RejectCase
	// node ids: 0 R, 1 A, 2 B, 3 L1, 4 L2
	n := 0
	for _, rp := range orderedSubsets([]int{1, 2, 3, 4}) {
		for _, ap := range orderedSubsets([]int{2, 3, 4}) {
			for _, bp := range orderedSubsets([]int{3, 4}) {
				params := map[int][]int{0: rp, 1: ap, 2: bp}
				reach := map[int]bool{}
				var visit func(u int)
				visit = func(u int) {
					if reach[u] {
						return
					}
					reach[u] = true
					for _, v := range params[u] {
						visit(v)
					}
				}
				visit(0)
				if !reach[3] || !reach[4] || !reach[1] || !reach[2] {
					continue
				}
				n++
				if e.Tier != "thorough" && n%9 != int(e.Seed%9) {
					continue
				}
				b := NewPB(fmt.Sprintf("mm%04d", n), "app")
				names := []string{"R", "A", "B", "L1", "L2"}
				tys := make([]*Ty, 5)
				for i, nm := range names {
					tys[i] = b.Carrier(0, nm)
				}
				var items []*Item
				for u := 0; u < 3; u++ {
					var ps []*Ty
					for _, v := range params[u] {
						ps = append(ps, tys[v])
					}
					f := b.Func(0, "New"+names[u], tys[u], false, false, ps...)
					f.Stub = true
					items = append(items, f)
				}
				b.Inj("Init", tys[0], false, false, nil, refs(items...)...)
				cell := fmt.Sprintf("multi-missing/R%v/A%v/B%v", rp, ap, bp)
				b.P.Note = cell
				out = append(out, &RejectCase{P: b.P, Class: "missing", MustNameAll: []string{DiagName(b.P, tys[3]), DiagName(b.P, tys[4])}, Cell: cell})
			}
		}
	}
	return out
}

// CheckC06 — unsatisfied dependencies are rejected and named.
func CheckC06(e *Env) int {
	t0 := time.Now()
	rep := NewReport(e, "C06", "exploration", "from generated accepted programs each needed source (leaf, interior, behind a binding, parent of a field selection, argument, in another package) is removed in turn; plus a near-miss matrix (T vs *T, implementation vs interface, named vs underlying, alias) x position; oracle: no output, package failed, a 'no provider found' (or binding-without-provider) diagnostic naming a missing type; the unmutated program is the accepted control; distinct = (removed source kind/position, program shape) or matrix cell")
	var cases []*RejectCase
	nprog := e.tierN(60, 600)
	per := e.tierN(4, 1000)
	progs := genPool(e, "m", nprog, func(i int, o *GenOpts) {
		o.NInj = 1 + i%2
		o.MinNodes, o.MaxNodes = 3+i%6, 6+i%12
	})
	for i, p := range progs {
		r := Rng(e.Seed, "c06mut", i)
		ms := removalMutants(p, p.ID, per, r)
		if len(ms) == 0 {
			continue
		}
		cases = append(cases, &RejectCase{P: p, Control: true, Cell: "control:" + ProgSig(p)})
		cases = append(cases, ms...)
	}
	cases = append(cases, nearMissCases()...)
	cases = append(cases, multiMissingCases(e)...)
	// what another injector of the package (or an equally named set of another package)
	// provides is not a source for this one
	for _, rc := range crossInjectorCases() {
		if rc.Class == "missing" || rc.Class == "not-provider" {
			cases = append(cases, rc)
		}
	}
	runRejectCases(e, rep, cases, "c06")
	return rep.Finish(t0)
}

// superfluousMutants: base + one superfluous direct item of each kind.
func superfluousMutants(base *Program, idPrefix string, kinds []string) []*RejectCase {
	an := Analyze(base)
	if !an.Accepted() {
		return nil
	}
	var out []*RejectCase
	for ki, kind := range kinds {
		m := base.Clone()
		m.ID = fmt.Sprintf("%ss%d", idPrefix, ki)
		in := m.Injs[0]
		b := &PB{P: m, n: 900 + ki}
		var ref Ref
		ok := true
		switch kind {
		case "func":
			f := b.Func(0, "NewSuperfluous", b.Carrier(0, "Superfluous"), false, false)
			f.Stub = true
			ref = ItemRef(f.ID)
		case "struct":
			s := b.NamedOf(0, "SuperfluousS", StructOf(FieldT{Name: "X", Ty: Basic("int")}), "none")
			ref = ItemRef(b.Struct(s, false).ID)
		case "value":
			ref = ItemRef(b.Value(b.Carrier(0, "SuperfluousV")).ID)
		case "ifacevalue":
			impl := b.Carrier(0, "SuperfluousImpl")
			ifc := b.Iface(0, "SuperfluousI", impl, false)
			ref = ItemRef(b.IfaceValue(ifc, impl).ID)
		case "bind":
			// bind a fresh interface to a concrete type the injector's set already provides
			pl := an.Injs[0]
			var conc *Ty
			for _, k := range pl.Info.order {
				pv := pl.Info.prov[k]
				if pv.Item != nil && pv.Item.Kind == KBind {
					continue
				}
				if mb := methodBase(pv.Ty); mb != nil && !pv.Ty.IsInterface() && mb.Carrier != "iface" {
					// find the same type in the clone
					conc = cloneTyInto(m, pv.Ty)
					break
				}
			}
			if conc == nil {
				ok = false
				break
			}
			ifc := b.Iface(0, "SuperfluousB", conc, conc.K == "ptr")
			ref = ItemRef(b.Bind(ifc, conc).ID)
		case "fields":
			ft := b.Carrier(0, "SuperfluousFld")
			par := b.NamedOf(0, "SuperfluousParent", StructOf(idField, FieldT{Name: "Fld", Ty: ft}), "parent")
			ref = ItemRef(b.Fields(par, "Fld").ID)
		case "set", "inline-set":
			f := b.Func(0, "NewSuperfluous", b.Carrier(0, "Superfluous"), false, false)
			f.Stub = true
			s := b.Set(0, "SuperfluousSet", ItemRef(f.ID))
			s.Inline = kind == "inline-set"
			ref = SetRef(s.ID)
		}
		if !ok {
			continue
		}
		in.Build = append(in.Build, ref)
		man := Analyze(m)
		unused := false
		other := false
		for _, pr := range man.AllProblems() {
			if pr.Class == "unused" {
				unused = true
			} else {
				other = true
			}
		}
		if !unused || other {
			continue
		}
		m.Note = "superfluous:" + kind
		out = append(out, &RejectCase{P: m, Class: "unused", Cell: "superfluous:" + kind + ";" + ProgSig(base), Twin: base.ID})
	}
	return out
}

// cloneTyInto maps a type of the original program to the clone (decls are matched by ID).
func cloneTyInto(m *Program, t *Ty) *Ty {
	if t == nil {
		return nil
	}
	c := *t
	if t.Decl != nil {
		c.Decl = m.Decls[t.Decl.ID]
	}
	c.Elem = cloneTyInto(m, t.Elem)
	c.MapKey = cloneTyInto(m, t.MapKey)
	return &c
}

// indirectUseControls: items used only indirectly must not be reported unused.
func indirectUseControls() []*RejectCase {
	var out []*RejectCase
	add := func(b *PB, cell string) {
		b.P.Note = cell
		b.P.Feat = map[string]string{"indirect": cell}
		out = append(out, &RejectCase{P: b.P, Control: true, Cell: "indirect-use:" + cell})
	}
	{ // set used through only one member
		b := NewPB("iu1", "app", "libi")
		a, c := b.Carrier(1, "A"), b.Carrier(1, "C")
		fa := b.Func(1, "NewA", a, false, false)
		fc := b.Func(1, "NewC", c, false, false)
		fa.Stub, fc.Stub = true, true
		inner := b.Set(1, "Inner", refs(fa, fc)...)
		outer := b.Set(0, "Outer", SetRef(inner.ID))
		b.Inj("Init", a, false, false, nil, SetRef(outer.ID))
		add(b, "nested-set-one-member")
	}
	{ // struct provider used only through its pointer form
		b := NewPB("iu2", "app")
		x := b.Carrier(0, "X")
		fx := b.Func(0, "NewX", x, false, false)
		fx.Stub = true
		s := b.NamedOf(0, "S", StructOf(FieldT{Name: "F", Ty: x}), "none")
		st := b.Struct(s, true)
		b.Inj("Init", PtrTo(s), false, false, nil, refs(fx, st)...)
		add(b, "struct-pointer-form-only")
	}
	{ // provider used only through a binding
		b := NewPB("iu3", "app")
		c := b.Carrier(0, "Conc")
		fc := b.Func(0, "NewConc", c, false, false)
		fc.Stub = true
		i := b.Iface(0, "I", c, false)
		bd := b.Bind(i, c)
		b.Inj("Init", i, false, false, nil, refs(fc, bd)...)
		add(b, "via-binding-only")
	}
	{ // provider of a struct used only through a field selection
		b := NewPB("iu4", "app")
		ft := b.Carrier(0, "FT")
		par := b.NamedOf(0, "Par", StructOf(idField, FieldT{Name: "Fld", Ty: ft}), "parent")
		fp := b.Func(0, "NewPar", PtrTo(par), false, false)
		fp.Stub = true
		fl := b.Fields(PtrTo(par), "Fld")
		b.Inj("Init", PtrTo(ft), false, false, nil, refs(fp, fl)...)
		add(b, "struct-via-field-pointer-only")
	}
	{ // a set whose only used member is a binding
		b := NewPB("iu5", "app")
		c := b.Carrier(0, "Conc")
		fc := b.Func(0, "NewConc", c, false, false)
		fc.Stub = true
		i := b.Iface(0, "I", c, false)
		bd := b.Bind(i, c)
		s := b.Set(0, "Both", refs(fc, bd)...)
		b.Inj("Init", i, false, false, nil, SetRef(s.ID))
		add(b, "set-via-binding")
	}
	// a field provider listing several fields of which only one (two) is needed, listed directly
	// in wire.Build: the item contributes
	for k, v := range []struct {
		name    string
		ptrPar  bool
		listed  []string
		want    string
		wantPtr bool
	}{
		{"first-of-two", false, []string{"A", "B"}, "A", false},
		{"second-of-two", false, []string{"A", "B"}, "B", false},
		{"middle-of-three-pointer-parent", true, []string{"A", "B", "C"}, "B", false},
		{"pointer-to-last-of-three", true, []string{"A", "B", "C"}, "C", true},
	} {
		b := NewPB(fmt.Sprintf("iu_fields%d", k), "app")
		fts := map[string]*Ty{"A": b.Carrier(0, "FA"), "B": b.Carrier(0, "FB"), "C": b.Carrier(0, "FC")}
		par := b.NamedOf(0, "Par", StructOf(idField, FieldT{Name: "A", Ty: fts["A"]}, FieldT{Name: "B", Ty: fts["B"]}, FieldT{Name: "C", Ty: fts["C"]}), "parent")
		pt := par
		if v.ptrPar {
			pt = PtrTo(par)
		}
		fp := b.Func(0, "NewPar", pt, false, false)
		fp.Stub = true
		fl := b.Fields(pt, v.listed...)
		res := fts[v.want]
		if v.wantPtr {
			res = PtrTo(res)
		}
		b.Inj("Init", res, false, false, nil, refs(fp, fl)...)
		add(b, "one-of-several-listed-fields/"+v.name)
	}
	// chains of interface bindings inside ONE set (I2 -> I1 -> *C, in every listing order): every
	// link contributes
	for k, order := range [][]int{{0, 1}, {1, 0}, {0, 1, 2}, {2, 1, 0}, {1, 2, 0}} {
		b := NewPB(fmt.Sprintf("iu_chain%d", k), "app")
		c := b.Carrier(0, "Conc")
		i1 := b.Iface(0, "I1", PtrTo(c), true)
		m := i1.Decl.Under.Meths[0]
		i2 := Named(b.P.NewDecl(0, "I2", &Ty{K: "iface", Meths: []string{m}, Params: []*Ty{PtrTo(c)}}, "iface"))
		i3 := Named(b.P.NewDecl(0, "I3", &Ty{K: "iface", Meths: []string{m}, Params: []*Ty{PtrTo(c)}}, "iface"))
		links := []*Item{b.Bind(i1, PtrTo(c)), b.Bind(i2, i1), b.Bind(i3, i2)}
		top := i2
		if len(order) == 3 {
			top = i3
		}
		f := b.Func(0, "NewConc", PtrTo(c), false, false)
		f.Stub = true
		u := b.Carrier(0, "User")
		fu := b.Func(0, "NewUser", u, false, false, top)
		fu.Stub = true
		build := []Ref{ItemRef(f.ID)}
		for _, x := range order {
			build = append(build, ItemRef(links[x].ID))
		}
		build = append(build, ItemRef(fu.ID))
		b.Inj("Init", u, false, false, nil, build...)
		add(b, fmt.Sprintf("binding-chain/order=%v", order))
	}
	{ // injector argument used only through a binding, value used via struct field
		b := NewPB("iu6", "app")
		c := b.Carrier(0, "Conc")
		i := b.Iface(0, "I", c, true)
		bd := b.Bind(i, PtrTo(c))
		v := b.Carrier(0, "V")
		val := b.Value(v)
		s := b.NamedOf(0, "S", StructOf(FieldT{Name: "I", Ty: i}, FieldT{Name: "V", Ty: v}), "none")
		st := b.Struct(s, false, "I", "V")
		b.Inj("Init", s, false, false, []Param{{Name: "c", Ty: PtrTo(c)}}, refs(bd, val, st)...)
		add(b, "arg-via-binding")
	}
	return out
}

// CheckC08 — everything passed to Build must contribute.
func CheckC08(e *Env) int {
	t0 := time.Now()
	rep := NewReport(e, "C08", "exploration", "accepted generated programs extended by one superfluous direct item of each kind (function, struct provider, value, interface value, binding, single-field FieldsOf, provider set); oracle: no output, an 'unused' diagnostic; controls: the unextended program and programs whose items are used only indirectly (nested set, pointer form, binding, field selection) must be accepted; distinct = (kind, program shape)")
	kinds := []string{"func", "struct", "value", "ifacevalue", "bind", "fields", "set", "inline-set"}
	var cases []*RejectCase
	progs := genPool(e, "s", e.tierN(40, 400), func(i int, o *GenOpts) {
		o.NInj = 1
		o.MinNodes, o.MaxNodes = 2+i%6, 5+i%10
	})
	for _, p := range progs {
		ms := superfluousMutants(p, p.ID, kinds)
		if len(ms) == 0 {
			continue
		}
		cases = append(cases, &RejectCase{P: p, Control: true, Cell: "control:" + ProgSig(p)})
		cases = append(cases, ms...)
	}
	cases = append(cases, indirectUseControls()...)
	cases = append(cases, unusedBindAroundChains()...)
	// bindings and providers met in every visiting order: each contributes, so none may be
	// reported; with one more item added, exactly that item is
	for i, p := range bindOrderFamily("bu", e.Seed, e.tierN(3, 1)) {
		cases = append(cases, &RejectCase{P: p, Control: true, Cell: "control:" + p.Note})
		if i%4 == 0 {
			cases = append(cases, superfluousMutants(p, p.ID, []string{"func", "bind"})...)
		}
	}
	// injectors that construct nothing (the result is one of their own parameters, directly or
	// through a binding) or a single value: anything else listed is superfluous all the same
	for _, rc := range crossInjectorCases() {
		if rc.Class == "unused" {
			cases = append(cases, rc)
		}
	}
	for _, base := range passThroughBases() {
		cases = append(cases, &RejectCase{P: base, Control: true, Cell: "control:" + base.Note})
		cases = append(cases, superfluousMutants(base, base.ID, kinds)...)
	}
	cases = append(cases, sameNamedSuperfluousCases()...)
	runRejectCases(e, rep, cases, "c08")
	return rep.Finish(t0)
}

// sameNamedSuperfluousCases: the superfluous item is spelled exactly like a USED one - same
// function / type name in another package with the same package clause (primary/db.New next to
// replica/db.New), for function, struct and value items, listed before or after the used one.
func sameNamedSuperfluousCases() []*RejectCase {
	var out []*RejectCase
	n := 0
	for _, kind := range []string{"func", "struct", "value"} {
		for _, extraFirst := range []bool{false, true} {
			for _, ctl := range []bool{false, true} {
				n++
				b := NewPB(fmt.Sprintf("sns%02d", n), "app", "primary", "replica")
				b.P.Pkgs[1].Name, b.P.Pkgs[2].Name = "db", "db"
				used, extra := b.Carrier(1, "Conn"), b.Carrier(2, "Conn")
				var iu, ie *Item
				switch kind {
				case "func":
					iu, ie = b.Func(1, "New", PtrTo(used), false, false), b.Func(2, "New", PtrTo(extra), false, false)
					iu.Stub, ie.Stub = true, true
				case "struct":
					iu, ie = b.Struct(used, false), b.Struct(extra, false)
				case "value":
					iu, ie = b.Value(used), b.Value(extra)
				}
				res := PtrTo(used)
				if kind == "value" {
					res = used
				}
				build := []Ref{ItemRef(iu.ID), ItemRef(ie.ID)}
				if extraFirst {
					build[0], build[1] = build[1], build[0]
				}
				if ctl {
					build = []Ref{ItemRef(iu.ID)}
				}
				b.Inj("Init", res, false, false, nil, build...)
				cell := fmt.Sprintf("superfluous-spelled-like-a-used-item/kind=%s/extra-first=%v", kind, extraFirst)
				b.P.Note = cell
				if ctl {
					out = append(out, &RejectCase{P: b.P, Control: true, Cell: "control:" + cell})
				} else {
					out = append(out, &RejectCase{P: b.P, Class: "unused", Cell: cell})
				}
			}
		}
	}
	return out
}

// passThroughBases: accepted injectors whose plan has no provider call at all.
func passThroughBases() []*Program {
	var out []*Program
	mk := func(name string, f func(b *PB)) {
		b := NewPB("pt_"+name, "app")
		f(b)
		b.P.Note = "pass-through/" + name
		b.P.Feat = map[string]string{"shape": "pass-through/" + name}
		out = append(out, b.P)
	}
	mk("param-is-result", func(b *PB) {
		c := b.Carrier(0, "Config")
		b.Inj("Init", PtrTo(c), false, false, []Param{{Name: "c", Ty: PtrTo(c)}})
	})
	mk("param-behind-binding", func(b *PB) {
		c := b.Carrier(0, "Config")
		i := b.Iface(0, "Namer", PtrTo(c), true)
		b.Inj("Init", i, false, false, []Param{{Name: "c", Ty: PtrTo(c)}}, ItemRef(b.Bind(i, PtrTo(c)).ID))
	})
	mk("two-params-one-returned", func(b *PB) {
		c := b.Carrier(0, "Config")
		d := b.Carrier(0, "Other")
		b.Inj("Init", c, false, false, []Param{{Name: "c", Ty: c}, {Name: "d", Ty: d}})
	})
	mk("value-only", func(b *PB) {
		c := b.Carrier(0, "Config")
		b.Inj("Init", c, false, false, nil, ItemRef(b.Value(c).ID))
	})
	mk("field-of-param", func(b *PB) {
		f := b.Carrier(0, "Fld")
		par := b.P.NewDecl(0, "Parent", StructOf(idField, FieldT{Name: "Fld", Ty: f}), "parent")
		b.Inj("Init", f, false, false, []Param{{Name: "p", Ty: Named(par)}}, ItemRef(b.Fields(Named(par), "Fld").ID))
	})
	return out
}

// unusedBindAroundChains: a superfluous binding listed before, between or after the links of a
// binding chain that is written in an order in which some links have to wait for later ones.
// Whatever bookkeeping resolves the chain, the superfluous binding stays a direct item that
// contributes nothing.
func unusedBindAroundChains() []*RejectCase {
	var out []*RejectCase
	n := 0
	for _, order := range [][]int{{0, 1}, {1, 0}, {2, 1, 0}, {1, 2, 0}, {2, 0, 1}} {
		for pos := 0; pos <= len(order); pos++ {
			n++
			b := NewPB(fmt.Sprintf("ubc%02d", n), "app")
			c := b.Carrier(0, "Conc")
			i1 := b.Iface(0, "I1", PtrTo(c), true)
			m := i1.Decl.Under.Meths[0]
			mk := func(name string) *Ty {
				return Named(b.P.NewDecl(0, name, &Ty{K: "iface", Meths: []string{m}, Params: []*Ty{PtrTo(c)}}, "iface"))
			}
			i2, i3, extra := mk("I2"), mk("I3"), mk("Extra")
			links := []*Item{b.Bind(i1, PtrTo(c)), b.Bind(i2, i1), b.Bind(i3, i2)}
			top := i2
			if len(order) == 3 {
				top = i3
			}
			sup := b.Bind(extra, PtrTo(c))
			f := b.Func(0, "NewConc", PtrTo(c), false, false)
			f.Stub = true
			u := b.Carrier(0, "User")
			fu := b.Func(0, "NewUser", u, false, false, top)
			fu.Stub = true
			build := []Ref{ItemRef(f.ID)}
			for k, x := range order {
				if k == pos {
					build = append(build, ItemRef(sup.ID))
				}
				build = append(build, ItemRef(links[x].ID))
			}
			if pos == len(order) {
				build = append(build, ItemRef(sup.ID))
			}
			build = append(build, ItemRef(fu.ID))
			b.Inj("Init", u, false, false, nil, build...)
			cell := fmt.Sprintf("unused-binding-around-chain/order=%v/at=%d", order, pos)
			b.P.Note = cell
			b.P.Feat = map[string]string{"cell": cell}
			out = append(out, &RejectCase{P: b.P, Class: "unused", MustName: []string{DiagName(b.P, extra)}, Cell: cell})
		}
	}
	return out
}
