package fw

import "fmt"

// DebugPrecheck prints precheck failures in full (development aid).
func DebugPrecheck(results []*ProgResult) {
	seen := map[string]int{}
	for _, pr := range results {
		if pr.PreBad == "" {
			continue
		}
		lines := splitLines(pr.PreBad)
		key := ""
		if len(lines) > 1 {
			key = lines[1]
			// strip position
			for i := 0; i < 3; i++ {
				if j := indexByte(key, ':'); j >= 0 {
					key = key[j+1:]
				}
			}
		}
		seen[key]++
		if seen[key] <= 1 {
			fmt.Printf("PRECHECK %s:\n%s\n", pr.P.ID, pr.PreBad)
		}
	}
	for k, n := range seen {
		fmt.Printf("PRECHECK-CLASS %d x %s\n", n, k)
	}
}

func splitLines(s string) []string {
	var r []string
	cur := ""
	for _, c := range s {
		if c == '\n' {
			r = append(r, cur)
			cur = ""
		} else {
			cur += string(c)
		}
	}
	if cur != "" {
		r = append(r, cur)
	}
	return r
}

func indexByte(s string, b byte) int {
	for i := 0; i < len(s); i++ {
		if s[i] == b {
			return i
		}
	}
	return -1
}

// DebugIssues prints issues of all programs (development aid).
func DebugIssues(results []*ProgResult) {
	for _, pr := range results {
		for _, is := range pr.Issues {
			fmt.Printf("ISSUE %s %s: %s\n%s\n", pr.P.ID, is.Prop, is.Clause, is.Witness)
		}
	}
}
