package fw

import (
	"fmt"
	"strings"
	"time"
)

var c09Alphabet = []string{"V", "error", "func()", "CF", "func() int"}

// c09Legal is the reference rule table (position x kind).
func c09Legal(shape []string) bool {
	switch len(shape) {
	case 1:
		return true
	case 2:
		return shape[1] == "error" || shape[1] == "func()"
	case 3:
		return shape[1] == "func()" && shape[2] == "error"
	}
	return false
}

func c09Shapes(maxLen int) [][]string {
	var out [][]string
	var rec func(cur []string, l int)
	rec = func(cur []string, l int) {
		if len(cur) == l {
			out = append(out, append([]string(nil), cur...))
			return
		}
		for _, a := range c09Alphabet {
			rec(append(cur, a), l)
		}
	}
	for l := 0; l <= maxLen; l++ {
		rec(nil, l)
	}
	return out
}

// c09ShapeProgram builds a program whose provider (or injector) has the given result list.
func c09ShapeProgram(id string, shape []string, onInjector bool, otherPkg bool) *Program {
	b := NewPB(id, "app", "libs")
	pkg := 0
	if otherPkg {
		pkg = 1
	}
	v := b.NamedOf(pkg, "V", StructOf(FieldT{Name: "X", Ty: Basic("int")}), "none")
	cf := b.NamedOf(pkg, "CF", &Ty{K: "func"}, "wrap")
	spell := func(s string) (string, *Ty) {
		switch s {
		case "V":
			return fmt.Sprintf("%%D%d%%", v.Decl.ID), v
		case "CF":
			return fmt.Sprintf("%%D%d%%", cf.Decl.ID), cf
		case "error":
			return "error", ErrorTy
		case "func()":
			return "func()", &Ty{K: "func"}
		case "func() int":
			return "func() int", &Ty{K: "func", Elem: Basic("int")}
		}
		panic(s)
	}
	var raw []string
	var first *Ty
	for i, s := range shape {
		txt, t := spell(s)
		raw = append(raw, txt)
		if i == 0 {
			first = t
		}
	}
	if raw == nil {
		raw = []string{}
	}
	if onInjector {
		// injector with this result list; Build holds a plain provider of the first type
		var build []Ref
		if first != nil {
			f := b.Func(pkg, "NewFirst", first, false, false)
			f.Stub = true
			if otherPkg {
				s := b.Set(1, "Set", ItemRef(f.ID))
				build = []Ref{SetRef(s.ID)}
			} else {
				build = []Ref{ItemRef(f.ID)}
			}
		} else {
			f := b.Func(pkg, "NewV", v, false, false)
			f.Stub = true
			build = []Ref{ItemRef(f.ID)}
		}
		res := first
		if res == nil {
			res = v
		}
		in := b.Inj("Init", res, false, false, nil, build...)
		in.RawResults = raw
		return b.P
	}
	f := b.Func(pkg, "NewShaped", first, false, false)
	f.RawResults = raw
	f.Stub = true
	res := first
	if res == nil {
		res = v
		f.Out = v
	}
	var build []Ref
	if otherPkg {
		s := b.Set(1, "Set", ItemRef(f.ID))
		build = []Ref{SetRef(s.ID)}
	} else {
		build = []Ref{ItemRef(f.ID)}
	}
	b.Inj("Init", res, true, true, nil, build...)
	return b.P
}

// CheckC09 — signature rules.
func CheckC09(e *Env) int {
	t0 := time.Now()
	rep := NewReport(e, "C09", "exploration", "enumerated: provider and injector result lists of length 0..4 over {value type, error, func(), named func() type, other function type} (all of length<=3 plus seeded length-4 in quick; all 781 in thorough) x placement {direct, set of another package}; injector result shape x needs of the called providers x depth; parameter lists with a duplicate at every position pair incl. ...T next to []T; struct providers with duplicate field types by name, by \"*\", hidden behind wire:\"-\"; oracle: a 12-line rule table; illegal => no output + positioned diagnostic of the right class, legal => accepted; distinct = matrix cell")
	var cases []*RejectCase
	n := 0
	shapes := c09Shapes(4)
	r := Rng(e.Seed, "c09", 0)
	for si, sh := range shapes {
		if len(sh) == 4 && e.Tier != "thorough" && r.Intn(16) != 0 {
			continue
		}
		for _, onInj := range []bool{false, true} {
			for _, other := range []bool{false, true} {
				oi := 0
				if onInj {
					oi = 1
				}
				if e.Tier != "thorough" && other != ((si+oi)%2 == 0) && len(sh) >= 3 {
					continue
				}
				n++
				id := fmt.Sprintf("sg%04d", n)
				p := c09ShapeProgram(id, sh, onInj, other)
				who := "provider"
				if onInj {
					who = "injector"
				}
				cell := fmt.Sprintf("%s-results(%s)/otherpkg=%v", who, strings.Join(sh, ","), other)
				p.Note = cell
				if c09Legal(sh) {
					cases = append(cases, &RejectCase{P: p, Control: true, Cell: "legal:" + cell})
				} else {
					cases = append(cases, &RejectCase{P: p, Class: "signature", Cell: "illegal:" + cell})
				}
			}
		}
	}
	// injector result shape x provider needs x depth
	for injShape := 0; injShape < 4; injShape++ {
		for need := 0; need < 4; need++ {
			for depth := 1; depth <= 3; depth++ {
				n++
				b := NewPB(fmt.Sprintf("sg%04d", n), "app")
				injCu, injErr := injShape&1 != 0, injShape&2 != 0
				needCu, needErr := need&1 != 0, need&2 != 0
				var items []*Item
				var prev *Ty
				for d := depth; d >= 1; d-- {
					t := b.Carrier(0, "")
					var ps []*Ty
					if prev != nil {
						ps = []*Ty{prev}
					}
					// the deepest provider (created first) is the needing one
					cu, er := false, false
					if d == depth {
						cu, er = needCu, needErr
					}
					f := b.Func(0, "", t, cu, er, ps...)
					f.Stub = true
					items = append(items, f)
					prev = t
				}
				b.Inj("Init", prev, injCu, injErr, nil, refs(items...)...)
				cell := fmt.Sprintf("inj(cleanup=%v,err=%v)/need(cleanup=%v,err=%v)/depth=%d", injCu, injErr, needCu, needErr, depth)
				b.P.Note = cell
				ok := (!needCu || injCu) && (!needErr || injErr)
				if ok {
					cases = append(cases, &RejectCase{P: b.P, Control: true, Cell: "legal:" + cell})
				} else {
					class := "need-err"
					if needCu && !injCu {
						class = "need-cleanup"
					}
					cases = append(cases, &RejectCase{P: b.P, Class: class, Cell: "illegal:" + cell})
				}
			}
		}
	}
	// the same rule when the needing provider is reached through a binding, a struct-provider
	// field, a field provider's parent, a set nested two levels deep — and NOT applied to a
	// set member this injector does not need
	for injShape := 0; injShape < 4; injShape++ {
		for need := 1; need < 4; need++ {
			for _, link := range []string{"bind", "struct-field", "fields-parent", "nested-two-levels", "other-package-set", "unneeded-set-member", "same-name-provider-called-earlier", "twin-package-provider-called-earlier", "struct-provider-used-twice-then-needing"} {
				n++
				b := NewPB(fmt.Sprintf("sg%04d", n), "app", "libn")
				if link == "twin-package-provider-called-earlier" {
					// two packages of one name, each with a provider called New
					b = NewPB(fmt.Sprintf("sg%04d", n), "app", "store", "store")
					b.P.Pkgs[1].Dir = "usr/store"
					b.P.Pkgs[2].Dir = "ord/store"
				}
				injCu, injErr := injShape&1 != 0, injShape&2 != 0
				needCu, needErr := need&1 != 0, need&2 != 0
				top := b.Carrier(0, "Top")
				var build []Ref
				stub := func(it *Item) *Item { it.Stub = true; return it }
				switch link {
				case "bind":
					t0 := b.Carrier(0, "Conc")
					ifc := b.Iface(0, "Iface", PtrTo(t0), true)
					pf := stub(b.Func(0, "NewConc", PtrTo(t0), needCu, needErr))
					build = refs(pf, b.Bind(ifc, PtrTo(t0)), stub(b.Func(0, "NewTop", top, false, false, ifc)))
				case "struct-field":
					t0 := b.Carrier(0, "Dep")
					sd := b.NamedOf(0, "Holder", StructOf(FieldT{Name: "F", Ty: t0}), "none")
					pf := stub(b.Func(0, "NewDep", t0, needCu, needErr))
					build = refs(pf, b.Struct(sd, false, "F"), stub(b.Func(0, "NewTop", top, false, false, PtrTo(sd))))
				case "fields-parent":
					x := b.Carrier(0, "Fld")
					par := b.NamedOf(0, "Parent", StructOf(FieldT{Name: "Fld", Ty: x}), "none")
					pf := stub(b.Func(0, "NewParent", par, needCu, needErr))
					build = refs(pf, b.Fields(par, "Fld"), stub(b.Func(0, "NewTop", top, false, false, x)))
				case "nested-two-levels":
					t0 := b.Carrier(0, "Dep")
					pf := stub(b.Func(0, "NewDep", t0, needCu, needErr))
					inner := b.Set(0, "Inner", ItemRef(pf.ID))
					outer := b.Set(0, "Outer", SetRef(inner.ID))
					build = []Ref{SetRef(outer.ID), ItemRef(stub(b.Func(0, "NewTop", top, false, false, t0)).ID)}
				case "other-package-set":
					t0 := b.Carrier(1, "Dep")
					pf := stub(b.Func(1, "NewDep", t0, needCu, needErr))
					ls := b.Set(1, "LibSet", ItemRef(pf.ID))
					build = []Ref{SetRef(ls.ID), ItemRef(stub(b.Func(0, "NewTop", top, false, false, t0)).ID)}
				case "same-name-provider-called-earlier":
					// a harmless provider of the same name in another package runs first
					t0 := b.Carrier(1, "Base")
					t1 := b.Carrier(1, "Dep")
					pf := stub(b.Func(0, "NewDep", t0, false, false))
					qf := stub(b.Func(1, "NewDep", t1, needCu, needErr, t0))
					build = refs(pf, qf, stub(b.Func(0, "NewTop", top, false, false, t1)))
				case "twin-package-provider-called-earlier":
					t0 := b.Carrier(1, "Users")
					t1 := b.Carrier(2, "Orders")
					pf := stub(b.Func(1, "New", PtrTo(t0), false, false))
					qf := stub(b.Func(2, "New", PtrTo(t1), needCu, needErr, PtrTo(t0)))
					build = refs(pf, qf, stub(b.Func(0, "NewTop", top, false, false, PtrTo(t1))))
				case "struct-provider-used-twice-then-needing":
					// a struct provider asked for as S and *S (two calls of one provider), then the needing one
					sd := b.NamedOf(0, "Conf", StructOf(FieldT{Name: "N", Ty: Basic("int")}), "none")
					t1 := b.Carrier(0, "Dep")
					qf := stub(b.Func(0, "NewDep", t1, needCu, needErr, sd, PtrTo(sd)))
					build = refs(stub(b.Func(0, "NewN", Basic("int"), false, false)), b.Struct(sd, true), qf, stub(b.Func(0, "NewTop", top, false, false, t1)))
				case "unneeded-set-member":
					t0 := b.Carrier(0, "NotNeeded")
					t1 := b.Carrier(0, "Needed")
					pf := stub(b.Func(0, "NewNotNeeded", t0, needCu, needErr))
					qf := stub(b.Func(0, "NewNeeded", t1, false, false))
					st := b.Set(0, "Mixed", ItemRef(pf.ID), ItemRef(qf.ID))
					build = []Ref{SetRef(st.ID), ItemRef(stub(b.Func(0, "NewTop", top, false, false, t1)).ID)}
				}
				b.Inj("Init", top, injCu, injErr, nil, build...)
				cell := fmt.Sprintf("inj(cleanup=%v,err=%v)/need(cleanup=%v,err=%v)/via=%s", injCu, injErr, needCu, needErr, link)
				b.P.Note = cell
				ok := (!needCu || injCu) && (!needErr || injErr)
				if link == "unneeded-set-member" {
					ok = true
				}
				if ok {
					cases = append(cases, &RejectCase{P: b.P, Control: true, Cell: "legal:" + cell})
				} else {
					class := "need-err"
					if needCu && !injCu {
						class = "need-cleanup"
					}
					cases = append(cases, &RejectCase{P: b.P, Class: class, Cell: "illegal:" + cell})
				}
			}
		}
	}
	// duplicate parameter types
	for arity := 2; arity <= 4; arity++ {
		for i := 0; i < arity; i++ {
			for j := i + 1; j < arity; j++ {
				for _, dk := range dupKinds {
					viaAlias := dk == "alias"
					n++
					b := NewPB(fmt.Sprintf("sg%04d", n), "app")
					var ps []*Ty
					var items []*Item
					for k := 0; k < arity; k++ {
						if k == j {
							t := ps[i]
							if viaAlias {
								a := b.P.NewDecl(0, "AliasT", t, "")
								a.Alias = true
								t = Named(a)
							} else {
								// written out a second time: a structurally identical, separately built type
								t = dupKindOf(dk, ps[i].dupBase())
							}
							ps = append(ps, t)
							continue
						}
						t := b.Carrier(0, "")
						if k == i {
							t = dupKindOf(dk, t)
						}
						ps = append(ps, t)
						f := b.Func(0, "", t, false, false)
						f.Stub = true
						items = append(items, f)
					}
					u := b.Carrier(0, "User")
					f := b.Func(0, "NewUser", u, false, false, ps...)
					f.Stub = true
					items = append(items, f)
					b.Inj("Init", u, false, false, nil, refs(items...)...)
					cell := fmt.Sprintf("dup-param/arity=%d/pos=%d,%d/kind=%s", arity, i, j, dk)
					b.P.Note = cell
					cases = append(cases, &RejectCase{P: b.P, Class: "dup-param", MustName: []string{DiagName(b.P, ps[i])}, Cell: cell})
				}
			}
		}
		// control: all distinct
		n++
		b := NewPB(fmt.Sprintf("sg%04d", n), "app")
		var ps []*Ty
		var items []*Item
		for k := 0; k < arity; k++ {
			t := b.Carrier(0, "")
			ps = append(ps, t)
			f := b.Func(0, "", t, false, false)
			f.Stub = true
			items = append(items, f)
		}
		u := b.Carrier(0, "User")
		f := b.Func(0, "NewUser", u, false, false, ps...)
		f.Stub = true
		items = append(items, f)
		b.Inj("Init", u, false, false, nil, refs(items...)...)
		b.P.Note = "distinct-params"
		cases = append(cases, &RejectCase{P: b.P, Control: true, Cell: fmt.Sprintf("legal:distinct-params/arity=%d", arity)})
	}
	// the rules hold for providers ANYWHERE in the closure of the build's sets, also for one that
	// no injector needs and that sits in a nested set next to needed ones
	for _, what := range []string{"dup-param", "dup-param-3", "signature-two-values", "signature-no-results"} {
		for _, depth := range []int{1, 2} {
			n++
			b := NewPB(fmt.Sprintf("sg%04d", n), "app")
			cfg, pt, other := b.Carrier(0, "Config"), b.Carrier(0, "Point"), b.Carrier(0, "Other")
			nc := b.Func(0, "NewConfig", cfg, false, false)
			nc.Stub = true
			no := b.Func(0, "NewOther", other, false, false)
			no.Stub = true
			var bad *Item
			class := "dup-param"
			must := []string{DiagName(b.P, other)}
			switch what {
			case "dup-param":
				bad = b.Func(0, "NewPoint", pt, false, false, other, other)
			case "dup-param-3":
				bad = b.Func(0, "NewPoint", pt, false, false, other, cfg, other)
			case "signature-two-values":
				bad = b.Func(0, "NewPoint", pt, false, false, other)
				bad.RawResults = []string{"%D" + fmt.Sprint(pt.Decl.ID) + "%", "%D" + fmt.Sprint(cfg.Decl.ID) + "%"}
				class, must = "signature", nil
			case "signature-no-results":
				bad = b.Func(0, "NewPoint", pt, false, false, other)
				bad.RawResults = []string{}
				class, must = "signature", nil
			}
			bad.Stub = true
			inner := b.Set(0, "Geometry", ItemRef(bad.ID), ItemRef(no.ID))
			top := inner
			if depth == 2 {
				top = b.Set(0, "Shapes", SetRef(inner.ID))
			}
			all := b.Set(0, "All", ItemRef(nc.ID), SetRef(top.ID))
			b.Inj("Init", cfg, false, false, nil, SetRef(all.ID))
			cell := fmt.Sprintf("unneeded-provider-in-used-nested-set/%s/depth=%d", what, depth)
			b.P.Note = cell
			cases = append(cases, &RejectCase{P: b.P, Class: class, MustName: must, Cell: cell})
		}
	}
	// one type under two spellings is one type: parameters (and selected struct fields) written
	// rune / int32, byte / uint8, any / interface{} duplicate each other
	{
		fn := func(param, ret *Ty) *Ty { return &Ty{K: "func", Params: []*Ty{param}, Elem: ret} }
		for si, sp := range []struct {
			name string
			a, b func(c *Ty) *Ty
		}{
			{"rune-int32", func(*Ty) *Ty { return Basic("rune") }, func(*Ty) *Ty { return Basic("int32") }},
			{"slice-of-byte", func(*Ty) *Ty { return SliceOf(Basic("byte")) }, func(*Ty) *Ty { return SliceOf(Basic("uint8")) }},
			{"any-empty-interface", func(*Ty) *Ty { return Basic("any") }, func(*Ty) *Ty { return &Ty{K: "iface"} }},
			{"map-keyed-by-rune", func(c *Ty) *Ty { return MapOf(Basic("rune"), c) }, func(c *Ty) *Ty { return MapOf(Basic("int32"), c) }},
			{"func-of-any", func(c *Ty) *Ty { return fn(Basic("any"), c) }, func(c *Ty) *Ty { return fn(&Ty{K: "iface"}, c) }},
		} {
			for _, where := range []string{"params", "params-reversed", "struct-star", "struct-named", "injector-params"} {
				n++
				b := NewPB(fmt.Sprintf("sg%04d", n), "app")
				el := b.Carrier(0, "El")
				ta, tb := sp.a(el), sp.b(el)
				if where == "params-reversed" {
					ta, tb = tb, ta
				}
				src := b.Func(0, "NewShared", ta, false, false)
				src.Stub = true
				u := b.Carrier(0, "User")
				items := []*Item{src}
				var params []Param
				switch where {
				case "params", "params-reversed":
					f := b.Func(0, "NewUser", u, false, false, ta, tb)
					f.Stub = true
					items = append(items, f)
				case "struct-star", "struct-named":
					u = b.NamedOf(0, "Holder", StructOf(FieldT{Name: "A", Ty: ta}, FieldT{Name: "B", Ty: tb}), "none")
					if where == "struct-star" {
						items = append(items, b.Struct(u, true))
					} else {
						items = append(items, b.Struct(u, false, "A", "B"))
					}
				case "injector-params":
					items = nil
					params = []Param{{Name: "first", Ty: ta}, {Name: "second", Ty: tb}}
					f := b.Func(0, "NewUser", u, false, false, ta)
					f.Stub = true
					items = append(items, f)
				}
				b.Inj("Init", u, false, false, params, refs(items...)...)
				cell := fmt.Sprintf("dup-spelling/%s/%s", sp.name, where)
				b.P.Note = cell
				class := "dup-param"
				if strings.HasPrefix(where, "struct") {
					class = "dup-field"
				}
				if where == "injector-params" {
					class = "conflict"
				}
				cases = append(cases, &RejectCase{P: b.P, Class: class, Cell: cell})
				_ = si
			}
		}
	}
	{ // ...T next to []T
		n++
		b := NewPB(fmt.Sprintf("sg%04d", n), "app")
		el := b.Carrier(0, "El")
		sl := SliceOf(el)
		fs := b.Func(0, "NewSlice", sl, false, false)
		fs.Stub = true
		u := b.Carrier(0, "User")
		f := b.Func(0, "NewUser", u, false, false, sl, sl)
		f.Variadic = true
		f.Stub = true
		b.Inj("Init", u, false, false, nil, refs(fs, f)...)
		b.P.Note = "variadic-next-to-slice"
		cases = append(cases, &RejectCase{P: b.P, Class: "dup-param", Cell: "dup-param/variadic-next-to-slice"})
		// control: variadic alone
		n++
		b = NewPB(fmt.Sprintf("sg%04d", n), "app")
		el = b.Carrier(0, "El")
		sl = SliceOf(el)
		fs = b.Func(0, "NewSlice", sl, false, false)
		fs.Stub = true
		u = b.Carrier(0, "User")
		f = b.Func(0, "NewUser", u, false, false, sl)
		f.Variadic = true
		f.Stub = true
		b.Inj("Init", u, false, false, nil, refs(fs, f)...)
		cases = append(cases, &RejectCase{P: b.P, Control: true, Cell: "legal:variadic-alone"})
	}
	// struct providers with duplicate field types
	type sv struct {
		name   string
		sel    []string
		star   bool
		lit    bool
		dupTag string
		legal  bool
	}
	for _, v := range []sv{
		{"by-name-both", []string{"A", "B"}, false, false, "", false},
		{"by-name-one", []string{"A"}, false, false, "", true},
		{"star", nil, true, false, "", false},
		{"star-dup-prevented", nil, true, false, `wire:"-"`, true},
		{"by-name-other-prevented", []string{"A"}, false, false, `wire:"-"`, true},
		{"literal-form", nil, false, true, "", false},
		// ONE field named twice: a duplicate all the same (the literal would not compile)
		{"same-name-twice", []string{"A", "A"}, false, false, "", false},
		{"same-name-twice-apart", []string{"A", "C", "A"}, false, false, "", false},
		{"same-name-three-times", []string{"A", "A", "A"}, false, false, `wire:"-"`, false},
	} {
		for ci, dk := range dupKinds {
			otherPkg := ci%2 == 1
			if dk == "alias" {
				continue
			}
			n++
			b := NewPB(fmt.Sprintf("sg%04d", n), "app", "libs")
			pkg := 0
			if otherPkg {
				pkg = 1
			}
			base := b.Carrier(pkg, "Dup")
			t := dupKindOf(dk, base)
			t2 := dupKindOf(dk, base) // the second field's type is written out again
			c := b.Carrier(pkg, "Other")
			s := b.NamedOf(pkg, "S", StructOf(FieldT{Name: "C", Ty: c}, FieldT{Name: "A", Ty: t}, FieldT{Name: "B", Ty: t2, Tag: v.dupTag}), "none")
			ft := b.Func(pkg, "NewDup", t, false, false)
			fc := b.Func(pkg, "NewOther", c, false, false)
			ft.Stub, fc.Stub = true, true
			var st *Item
			if v.lit {
				st = b.P.AddItem(&Item{Kind: KStructLit, Struct: s})
			} else {
				st = b.Struct(s, v.star, v.sel...)
			}
			items := []*Item{ft, st}
			selC := false
			for _, x := range v.sel {
				selC = selC || x == "C"
			}
			if v.star || v.lit || selC {
				items = append(items, fc)
			}
			b.Inj("Init", s, false, false, nil, refs(items...)...)
			cell := fmt.Sprintf("dup-field/%s/kind=%s/otherpkg=%v", v.name, dk, otherPkg)
			b.P.Note = cell
			if v.legal {
				cases = append(cases, &RejectCase{P: b.P, Control: true, Cell: "legal:" + cell})
			} else {
				cases = append(cases, &RejectCase{P: b.P, Class: "dup-field", MustName: []string{DiagName(b.P, t)}, Cell: cell})
			}
		}
	}
	runRejectCases(e, rep, cases, "c09")
	return rep.Finish(t0)
}

// dupKinds: how a duplicated parameter / field type is built from a named base type.
var dupKinds = []string{"named", "alias", "ptr", "slice", "map", "func", "chan", "array", "ptr-ptr"}

func dupKindOf(kind string, base *Ty) *Ty {
	switch kind {
	case "ptr":
		return PtrTo(base)
	case "slice":
		return SliceOf(base)
	case "map":
		return MapOf(Basic("string"), base)
	case "func":
		return FuncRet(base)
	case "chan":
		return ChanOf("", base)
	case "array":
		return ArrayOf(2, base)
	case "ptr-ptr":
		return PtrTo(PtrTo(base))
	}
	return base
}

// dupBase strips the wrapper dupKindOf added.
func (t *Ty) dupBase() *Ty {
	for t.K != "named" {
		switch t.K {
		case "ptr", "slice", "chan", "array", "map", "func":
			t = t.Elem
		default:
			return t
		}
	}
	return t
}
