package fw

import (
	"fmt"
	"go/ast"
	"go/token"
	"go/types"
	"os"
	"path/filepath"
	"reflect"
	"sort"
	"strings"
	"time"

	"golang.org/x/tools/go/packages"
)

const c15Lib = `package %s

import "strconv"

const Const = 41

type Exported struct{ E int }

type Other struct{ O int }

func (o *Other) String() string { return "other" + strconv.Itoa(o.O) }

func NewOther(n int) *Other { return &Other{O: n} }

func Join(xs []string, sep string) string {
	r := ""
	for i, x := range xs {
		if i > 0 {
			r += sep
		}
		r += x
	}
	return r
}

func Itoa(n int) string { return strconv.Itoa(n) }
`

type c15Scheme struct {
	Name                string
	Fmt, Str, Lib, Sort string // import names in the source file ("" = plain, "." = dot)
	LibPkgName          string
	// AnchorsLast: the declarations that merely keep every import used come after the snippets,
	// so a snippet is the first declaration that needs its imports in the generated file.
	AnchorsLast bool
	// TwoSchemes: the second injector file spells its imports FmtB.. (half of the snippets go there).
	TwoSchemes                 bool
	FmtB, StrB, LibB, SortB string
}

var c15Schemes = []c15Scheme{
	{Name: "plain", LibPkgName: "lib"},
	{Name: "aliased", Fmt: "ft", Str: "str", Lib: "l", Sort: "srt", LibPkgName: "lib"},
	{Name: "dot-strings", Str: ".", LibPkgName: "lib"},
	{Name: "alias-swaps", Fmt: "strings", Str: "fmt", Lib: "sort", Sort: "lib", LibPkgName: "lib"},
	{Name: "lib-named-like-std", Lib: "", Sort: "s", LibPkgName: "strings2"},
	{Name: "exported-aliases", Fmt: "F", Str: "S", Lib: "Lib", Sort: "SO", LibPkgName: "fmt2"},
	{Name: "aliased-anchors-last", Fmt: "ft", Str: "str", Lib: "l", Sort: "srt", LibPkgName: "lib", AnchorsLast: true},
	{Name: "two-files-same-qualifier-different-packages", Fmt: "x1", Str: "x2", Lib: "x3", Sort: "x4", LibPkgName: "lib", TwoSchemes: true, FmtB: "x2", StrB: "x1", LibB: "x4", SortB: "x3"},
	{Name: "two-files-plain-then-swapped", LibPkgName: "lib", TwoSchemes: true, FmtB: "strings", StrB: "fmt", LibB: "sort", SortB: "lib", AnchorsLast: true},
}

func qual(alias, def string) string {
	switch alias {
	case "":
		return def + "."
	case ".":
		return ""
	}
	return alias + "."
}

// c15Program composes snippets into an injector file.
func c15Program(id string, snips []snippet, sc c15Scheme, base int) *Program {
	p := &Program{ID: id, Module: ModulePath, Extra: map[string]string{}, Feat: map[string]string{"scheme": sc.Name}, RawDriver: true}
	p.Pkgs = []*Pkg{{Name: "app", Dir: "app"}, {Name: sc.LibPkgName, Dir: "lib"}}
	p.Extra["1/lib.go"] = fmt.Sprintf(c15Lib, sc.LibPkgName)
	p.Extra["0/decl.go"] = "package app\n\ntype A struct{ X int }\n\nfunc NewA() A { return A{X: 1} }\n"
	imp := func(alias, path string) string {
		if alias == "" {
			return fmt.Sprintf("\t%q\n", path)
		}
		return fmt.Sprintf("\t%s %q\n", alias, path)
	}
	var w, probe strings.Builder
	w.WriteString("//go:build wireinject\n// +build wireinject\n\npackage app\n\nimport (\n")
	w.WriteString(imp(sc.Fmt, "fmt") + imp(sc.Sort, "sort") + imp(sc.Str, "strings") + imp(sc.Lib, p.ImportPath(1)) + "\t_ \"embed\"\n\t\"github.com/google/wire\"\n)\n\n")
	p.Extra["0/embed_data.txt"] = "embedded text\n"
	fq, sq, lq, soq := qual(sc.Fmt, "fmt"), qual(sc.Str, "strings"), qual(sc.Lib, sc.LibPkgName), qual(sc.Sort, "sort")
	anchors := "var _ = " + fq + "Sprint\nvar _ = " + sq + "ToUpper\nvar _ = " + lq + "Const\nvar _ = " + soq + "Strings\n\n"
	if !sc.AnchorsLast {
		w.WriteString(anchors)
	}
	scB := sc
	if sc.TwoSchemes {
		scB.Fmt, scB.Str, scB.Lib, scB.Sort = sc.FmtB, sc.StrB, sc.LibB, sc.SortB
	}
	fqB, sqB, lqB, soqB := qual(scB.Fmt, "fmt"), qual(scB.Str, "strings"), qual(scB.Lib, sc.LibPkgName), qual(scB.Sort, "sort")
	// the first snippet precedes the first injector; the last one goes to a second injector file
	nBefore, nSecond := 1, 1
	if len(snips) < 4 {
		nBefore, nSecond = 0, 0
	} else if sc.TwoSchemes {
		nSecond = len(snips) / 2
	}
	probe.WriteString("package app\n\nimport (\n\t\"fmt\"\n\t\"strings\"\n\t\"sort\"\n\tzlib \"" + p.ImportPath(1) + "\"\n\ttr \"" + ModulePath + "/tr\"\n)\n\nvar _ = fmt.Sprint\nvar _ = strings.ToUpper\nvar _ = sort.Strings\nvar _ = zlib.Const\n\nfunc Scenarios() {\n")
	var kinds []string
	var w2 strings.Builder
	for k, sn := range snips {
		n := fmt.Sprint(base + k)
		r := strings.NewReplacer("$N", n, "{FMT}", fq, "{STR}", sq, "{LIB}", lq, "{SORT}", soq)
		if k == nBefore {
			w.WriteString("// Init is the injector.\nfunc Init() A {\n\twire.Build(NewA)\n\treturn A{}\n}\n\n")
		}
		if nSecond > 0 && k >= len(snips)-nSecond {
			rB := strings.NewReplacer("$N", n, "{FMT}", fqB, "{STR}", sqB, "{LIB}", lqB, "{SORT}", soqB)
			w2.WriteString(rB.Replace(sn.Decl) + "\n\n")
		} else {
			w.WriteString(r.Replace(sn.Decl) + "\n\n")
		}
		if sn.Probe != "" {
			pr := strings.NewReplacer("$N", n, "{FMT}", "fmt.", "{STR}", "strings.", "{LIB}", "zlib.", "{SORT}", "sort.")
			fmt.Fprintf(&probe, "\ttr.Note(\"copied_fn\", %q, %s)\n", id+"/"+sn.Name, pr.Replace(sn.Probe))
		}
		kinds = append(kinds, sn.Name)
	}
	probe.WriteString("}\n")
	if nBefore >= len(snips) || len(snips) == 0 {
		w.WriteString("// Init is the injector.\nfunc Init() A {\n\twire.Build(NewA)\n\treturn A{}\n}\n\n")
	}
	if sc.AnchorsLast {
		w.WriteString(anchors)
	}
	if w2.Len() > 0 {
		hdr := "//go:build wireinject\n// +build wireinject\n\npackage app\n\nimport (\n" + imp(scB.Fmt, "fmt") + imp(scB.Sort, "sort") + imp(scB.Str, "strings") + imp(scB.Lib, p.ImportPath(1)) + "\t_ \"embed\"\n\t\"github.com/google/wire\"\n)\n\n"
		anchorsB := "var _ = " + fqB + "Sprint\nvar _ = " + sqB + "ToLower\nvar _ = " + lqB + "Const\nvar _ = " + soqB + "Ints\n\n"
		if sc.AnchorsLast {
			w2.WriteString(anchorsB)
		} else {
			hdr += anchorsB
		}
		p.Extra["0/wire_b.go"] = hdr + w2.String() + "// InitB is the injector of the second file.\nfunc InitB() *A {\n\tpanic(wire.Build(NewPA))\n}\n"
		p.Extra["0/decl.go"] += "\nfunc NewPA() *A { return &A{X: 2} }\n"
	}
	p.Extra["0/wire.go"] = w.String()
	p.Extra["0/zz_probe.go"] = probe.String()
	p.Feat["snippets"] = strings.Join(kinds, ",")
	return p
}

// ---------------------------------------------------------------------------
// alpha-equivalence of declarations

type objClass struct {
	Kind string // pkgname universe pkglevel member local none
	Path string
	Name string
}

func classify(obj types.Object, self string) objClass {
	switch o := obj.(type) {
	case nil:
		return objClass{Kind: "none"}
	case *types.PkgName:
		return objClass{Kind: "pkgname", Path: o.Imported().Path()}
	}
	if obj.Pkg() == nil {
		return objClass{Kind: "universe", Name: obj.Name()}
	}
	if obj.Parent() == obj.Pkg().Scope() {
		return objClass{Kind: "pkglevel", Path: obj.Pkg().Path(), Name: obj.Name()}
	}
	if v, ok := obj.(*types.Var); ok && v.IsField() {
		return objClass{Kind: "member", Name: obj.Name()}
	}
	if f, ok := obj.(*types.Func); ok {
		if sig, ok := f.Type().(*types.Signature); ok && sig.Recv() != nil {
			return objClass{Kind: "member", Name: obj.Name()}
		}
	}
	return objClass{Kind: "local"}
}

type alphaCmp struct {
	srcInfo, genInfo *types.Info
	self             string
	fwd              map[types.Object]types.Object
	bwd              map[types.Object]types.Object
	err              string
	path             []string
	guards           map[*ast.Ident]*ast.Ident // symbolic variables of type switches: source -> copy
}

func (c *alphaCmp) fail(format string, args ...interface{}) bool {
	if c.err == "" {
		c.err = strings.Join(c.path, "/") + ": " + fmt.Sprintf(format, args...)
	}
	return false
}

func (c *alphaCmp) obj(info *types.Info, id *ast.Ident) types.Object {
	if o := info.Defs[id]; o != nil {
		if v, ok := o.(*types.Var); ok && v.Embedded() {
			// the identifier of an embedded field also USES its type: that is what must survive
			if u := info.Uses[id]; u != nil {
				return u
			}
		}
		return o
	}
	return info.Uses[id]
}

func (c *alphaCmp) ident(a, b *ast.Ident) bool {
	oa, ob := c.obj(c.srcInfo, a), c.obj(c.genInfo, b)
	ca, cb := classify(oa, c.self), classify(ob, c.self)
	if ca.Kind != cb.Kind {
		return c.fail("identifier %s resolves to a %s entity, its copy %s to a %s entity", a.Name, ca.Kind, b.Name, cb.Kind)
	}
	switch ca.Kind {
	case "none":
		if c.guards[a] == b && b != nil {
			// the symbolic variable of a type switch: bound through the clauses' implicit variables
			return true
		}
		if a.Name != b.Name {
			return c.fail("unresolved identifier %s copied as %s", a.Name, b.Name)
		}
	case "pkgname":
		if ca.Path != cb.Path {
			return c.fail("package name %s refers to %s, its copy %s to %s", a.Name, ca.Path, b.Name, cb.Path)
		}
	case "universe", "member":
		if a.Name != b.Name && ca.Kind == "member" && c.embeddedRenamed(oa, ob) {
			return true
		}
		if a.Name != b.Name {
			return c.fail("%s identifier %s copied as %s", ca.Kind, a.Name, b.Name)
		}
	case "pkglevel":
		if ca.Path != cb.Path || ca.Name != cb.Name {
			return c.fail("identifier %s refers to %s.%s, its copy %s to %s.%s", a.Name, ca.Path, ca.Name, b.Name, cb.Path, cb.Name)
		}
	case "local":
		if prev, ok := c.fwd[oa]; ok && prev != ob {
			return c.fail("local %s is copied inconsistently (%s and %s)", a.Name, prev.Name(), b.Name)
		}
		if prev, ok := c.bwd[ob]; ok && prev != oa {
			return c.fail("two different locals (%s, %s) are copied to one name %s", prev.Name(), a.Name, b.Name)
		}
		c.fwd[oa] = ob
		c.bwd[ob] = oa
	}
	return true
}

// bindTypeSwitch relates the symbolic variable of `switch x := v.(type)` and the implicit
// per-clause variables it stands for: x declares no object of its own; every clause of the
// copy must have an implicit variable spelled like the copy's symbolic variable.
func (c *alphaCmp) bindTypeSwitch(a, b *ast.TypeSwitchStmt) bool {
	ga, oka := a.Assign.(*ast.AssignStmt)
	gb, okb := b.Assign.(*ast.AssignStmt)
	if !oka || !okb || len(ga.Lhs) != 1 || len(gb.Lhs) != 1 {
		return true
	}
	ia, oka := ga.Lhs[0].(*ast.Ident)
	ib, okb := gb.Lhs[0].(*ast.Ident)
	if !oka || !okb || a.Body == nil || b.Body == nil || len(a.Body.List) != len(b.Body.List) {
		return true
	}
	if c.guards == nil {
		c.guards = map[*ast.Ident]*ast.Ident{}
	}
	c.guards[ia] = ib
	for k := range a.Body.List {
		oa, ob := c.srcInfo.Implicits[a.Body.List[k]], c.genInfo.Implicits[b.Body.List[k]]
		if (oa == nil) != (ob == nil) {
			return c.fail("type switch clause %d: implicit variable present on one side only", k)
		}
		if oa == nil {
			continue
		}
		if ob.Name() != ib.Name {
			return c.fail("type switch variable %s is copied as %s but clause %d binds %s", ia.Name, ib.Name, k, ob.Name())
		}
		c.fwd[oa] = ob
		c.bwd[ob] = oa
	}
	return true
}

// embeddedRenamed: both objects are embedded fields whose types are corresponding (consistently
// renamed) local types — the field's name follows its type.
func (c *alphaCmp) embeddedRenamed(oa, ob types.Object) bool {
	va, oka := oa.(*types.Var)
	vb, okb := ob.(*types.Var)
	if !oka || !okb || !va.Embedded() || !vb.Embedded() {
		return false
	}
	tn := func(t types.Type) types.Object {
		if p, ok := t.(*types.Pointer); ok {
			t = p.Elem()
		}
		if n, ok := t.(*types.Named); ok {
			return n.Obj()
		}
		return nil
	}
	ta, tb := tn(va.Type()), tn(vb.Type())
	return ta != nil && tb != nil && c.fwd[ta] == tb
}

// selIdent: source identifier (dot-imported object) vs generated qualified selector.
func (c *alphaCmp) selIdent(a *ast.Ident, b *ast.SelectorExpr) bool {
	oa := c.obj(c.srcInfo, a)
	ca := classify(oa, c.self)
	ob := c.genInfo.Uses[b.Sel]
	cb := classify(ob, c.self)
	if ca.Kind != "pkglevel" || cb.Kind != "pkglevel" || ca.Path != cb.Path || ca.Name != cb.Name {
		return c.fail("identifier %s (%s %s.%s) copied as selector .%s (%s %s.%s)", a.Name, ca.Kind, ca.Path, ca.Name, b.Sel.Name, cb.Kind, cb.Path, cb.Name)
	}
	return true
}

var posType = reflect.TypeOf(token.NoPos)

func stripEmpty(list []ast.Stmt) []ast.Stmt {
	var out []ast.Stmt
	for _, s := range list {
		if _, ok := s.(*ast.EmptyStmt); ok {
			continue
		}
		out = append(out, s)
	}
	return out
}

func (c *alphaCmp) node(a, b ast.Node) bool {
	if c.err != "" {
		return false
	}
	an, bn := a == nil || reflect.ValueOf(a).IsNil(), b == nil || reflect.ValueOf(b).IsNil()
	if an || bn {
		if an != bn {
			return c.fail("node present on one side only (%T vs %T)", a, b)
		}
		return true
	}
	if ta, ok := a.(*ast.TypeSwitchStmt); ok {
		if tb, ok := b.(*ast.TypeSwitchStmt); ok && !c.bindTypeSwitch(ta, tb) {
			return false
		}
	}
	// parentheses the printer may add or drop do not change structure that matters
	if ia, ok := a.(*ast.Ident); ok {
		if ib, ok := b.(*ast.Ident); ok {
			return c.ident(ia, ib)
		}
		if sb, ok := b.(*ast.SelectorExpr); ok {
			return c.selIdent(ia, sb)
		}
	}
	if reflect.TypeOf(a) != reflect.TypeOf(b) {
		return c.fail("node kind differs: %T vs %T", a, b)
	}
	c.path = append(c.path, strings.TrimPrefix(fmt.Sprintf("%T", a), "*ast."))
	defer func() { c.path = c.path[:len(c.path)-1] }()
	if ba, ok := a.(*ast.BlockStmt); ok {
		bb := b.(*ast.BlockStmt)
		la, lb := stripEmpty(ba.List), stripEmpty(bb.List)
		if len(la) != len(lb) {
			return c.fail("block has %d statements, copy has %d", len(la), len(lb))
		}
		for i := range la {
			if !c.node(la[i], lb[i]) {
				return false
			}
		}
		return true
	}
	va, vb := reflect.ValueOf(a).Elem(), reflect.ValueOf(b).Elem()
	for i := 0; i < va.NumField(); i++ {
		name := va.Type().Field(i).Name
		fa, fb := va.Field(i), vb.Field(i)
		if fa.Type() == posType || name == "Obj" || name == "Scope" || name == "Unresolved" {
			// positions only matter where they encode presence (e.g. Ellipsis, Lparen of a group)
			if name == "Ellipsis" || name == "Assign" {
				if (fa.Interface().(token.Pos) == token.NoPos) != (fb.Interface().(token.Pos) == token.NoPos) {
					return c.fail("%s present on one side only", name)
				}
			}
			continue
		}
		if name == "Comment" {
			continue
		}
		if !c.value(name, fa, fb) {
			return false
		}
	}
	return true
}

func (c *alphaCmp) value(name string, fa, fb reflect.Value) bool {
	switch fa.Kind() {
	case reflect.Interface, reflect.Ptr:
		if fa.IsNil() || fb.IsNil() {
			if fa.IsNil() != fb.IsNil() {
				return c.fail("field %s present on one side only", name)
			}
			return true
		}
		if cg, ok := fa.Interface().(*ast.CommentGroup); ok {
			cb := fb.Interface().(*ast.CommentGroup)
			if strings.TrimSpace(cg.Text()) != strings.TrimSpace(cb.Text()) {
				return c.fail("doc comment differs: %q vs %q", cg.Text(), cb.Text())
			}
			return true
		}
		na, ok1 := fa.Interface().(ast.Node)
		nb, ok2 := fb.Interface().(ast.Node)
		if ok1 && ok2 {
			return c.node(na, nb)
		}
		return true
	case reflect.Slice:
		if fa.Len() != fb.Len() {
			return c.fail("field %s has %d elements, copy has %d", name, fa.Len(), fb.Len())
		}
		for i := 0; i < fa.Len(); i++ {
			if !c.value(name, fa.Index(i), fb.Index(i)) {
				return false
			}
		}
		return true
	case reflect.String:
		if fa.String() != fb.String() {
			return c.fail("field %s differs: %q vs %q", name, fa.String(), fb.String())
		}
	case reflect.Int, reflect.Int64, reflect.Bool:
		if fmt.Sprint(fa.Interface()) != fmt.Sprint(fb.Interface()) {
			return c.fail("field %s differs: %v vs %v", name, fa.Interface(), fb.Interface())
		}
	}
	return true
}

// nodeKinds counts ast node kinds below a declaration.
func nodeKinds(d ast.Node, m map[string]int) {
	ast.Inspect(d, func(n ast.Node) bool {
		if n != nil {
			m[strings.TrimPrefix(fmt.Sprintf("%T", n), "*ast.")]++
		}
		return true
	})
}

var c15WantKinds = []string{"ArrayType", "AssignStmt", "BasicLit", "BinaryExpr", "BlockStmt", "BranchStmt", "CallExpr", "CaseClause", "ChanType", "CommClause",
	"CompositeLit", "DeclStmt", "DeferStmt", "Ellipsis", "ExprStmt", "Field", "FieldList", "ForStmt", "FuncDecl", "FuncLit", "FuncType", "GenDecl", "GoStmt", "Ident",
	"IfStmt", "IncDecStmt", "IndexExpr", "IndexListExpr", "InterfaceType", "KeyValueExpr", "LabeledStmt", "MapType", "ParenExpr", "RangeStmt", "ReturnStmt", "SelectStmt",
	"SelectorExpr", "SendStmt", "SliceExpr", "StarExpr", "StructType", "SwitchStmt", "TypeAssertExpr", "TypeSpec", "TypeSwitchStmt", "UnaryExpr", "ValueSpec"}

func loadPkgs(e *Env, root string, tags string) (map[string]*packages.Package, error) {
	cfg := &packages.Config{
		Mode: packages.NeedName | packages.NeedFiles | packages.NeedSyntax | packages.NeedTypes | packages.NeedTypesInfo | packages.NeedImports | packages.NeedCompiledGoFiles,
		Dir:  root,
		Env:  e.GoEnv(),
	}
	if tags != "" {
		cfg.BuildFlags = []string{"-tags=" + tags}
	}
	pkgs, err := packages.Load(cfg, "./...")
	if err != nil {
		return nil, err
	}
	m := map[string]*packages.Package{}
	for _, p := range pkgs {
		m[p.PkgPath] = p
	}
	return m, nil
}

func isInjectorDecl(d ast.Decl) bool {
	fd, ok := d.(*ast.FuncDecl)
	if !ok || fd.Body == nil {
		return false
	}
	found := false
	ast.Inspect(fd.Body, func(n ast.Node) bool {
		if ce, ok := n.(*ast.CallExpr); ok {
			if se, ok := ce.Fun.(*ast.SelectorExpr); ok && se.Sel.Name == "Build" {
				found = true
			}
			if id, ok := ce.Fun.(*ast.Ident); ok && id.Name == "Build" {
				found = true
			}
		}
		return true
	})
	return found
}

// CheckC15 — copied declarations keep their meaning.
func CheckC15(e *Env) int {
	t0 := time.Now()
	rep := NewReport(e, "C15", "exploration", "a corpus of declaration snippets covering every go/ast node kind that can occur below a declaration (type parameters, explicit instantiation with one and several arguments, labels with goto/break/continue, closures, shadowing of package names, struct tags, iota groups, select/type switch, 3-index slices, variadics, method values...) composed into injector files under six import-alias schemes (plain, aliased, dot-import, swapped aliases, package named like a std package, aliases named like locals); oracle: (structure) declarations parsed back from wire_gen.go are 1:1, in order, alpha-equivalent to the originals with every identifier resolving (go/types on both sides) to the same package-level / universe / imported entity or to the consistently renamed local; (compile) both tag sets build; (behaviour) probe outputs of the copied functions equal those of the originals (driver built with and without -tags wireinject); distinct = (snippet, scheme)")
	nprog := e.tierN(54, 270)
	var progs []*Program
	snipsOf := map[string][]snippet{}
	for i := 0; i < nprog; i++ {
		sc := c15Schemes[i%len(c15Schemes)]
		r := Rng(e.Seed, "c15", i)
		// a rotating window sized so that every snippet meets every scheme in every tier; extra random ones mix contexts
		nwin := nprog / len(c15Schemes)
		w := (len(c15Corpus) + nwin - 1) / nwin
		if w < 5 {
			w = 5
		}
		k := w + r.Intn(3)
		var sn []snippet
		perm := r.Perm(len(c15Corpus))
		start := (i / len(c15Schemes) * w) % len(c15Corpus)
		for j := 0; j < k; j++ {
			if j < w {
				sn = append(sn, c15Corpus[(start+j)%len(c15Corpus)])
			} else {
				sn = append(sn, c15Corpus[perm[j]])
			}
		}
		if sc.Str == "" || (sc.TwoSchemes && sc.StrB == "") {
			var keep []snippet
			for _, x := range sn {
				if !c15NeedsStrAlias[x.Name] {
					keep = append(keep, x)
				}
			}
			sn = keep
		}
		id := fmt.Sprintf("cp%03d", i)
		progs = append(progs, c15Program(id, sn, sc, 100))
		snipsOf[id] = sn
	}
	// first-use programs: the snippet is the first declaration of the generated file that needs
	// its imports (anchors come last), under aliases that differ from the generated import names
	for i, sn := range c15Corpus {
		nm := sn.Name
		if e.Tier != "thorough" && !(strings.Contains(nm, "named-like") || strings.Contains(nm, "hadow") || strings.Contains(nm, "import")) {
			continue
		}
		sc := c15Schemes[6]
		if sc.Name != "aliased-anchors-last" {
			panic("scheme order")
		}
		id := fmt.Sprintf("cpf%03d", i)
		list := []snippet{sn, c15Corpus[(i+7)%len(c15Corpus)], c15Corpus[(i+13)%len(c15Corpus)], c15Corpus[(i+29)%len(c15Corpus)]}
		progs = append(progs, c15Program(id, list, sc, 100))
		snipsOf[id] = list
	}
	kindsSeen := map[string]int{}
	var batches [][]*Program
	for i := 0; i < len(progs); i += 12 {
		j := i + 12
		if j > len(progs) {
			j = len(progs)
		}
		batches = append(batches, progs[i:j])
	}
	type bres struct {
		issues map[string]string // program -> first problem
		gen    map[string]string // program -> generated file (kept for programs with a problem)
		held   map[string][]string
		incon  []string
		kinds  map[string]int
	}
	out := make([]bres, len(batches))
	e.ParallelDo(len(batches), func(bi int) {
		br := bres{issues: map[string]string{}, held: map[string][]string{}, kinds: map[string]int{}, gen: map[string]string{}}
		defer func() { out[bi] = br }()
		b, err := e.NewBatch(fmt.Sprintf("c15-%d", bi), batches[bi], nil)
		if err != nil {
			br.incon = append(br.incon, err.Error())
			return
		}
		defer b.Remove()
		defer func() {
			for id := range br.issues {
				if g, err := os.ReadFile(filepath.Join(b.Root, id, "app", "wire_gen.go")); err == nil {
					br.gen[id] = string(g)
				}
			}
		}()
		b.Precheck()
		for id, msg := range b.PreBad {
			br.incon = append(br.incon, "harness: "+id+" does not type-check: "+secondLine(msg))
		}
		if len(b.Progs) == 0 {
			return
		}
		b.Gen()
		if b.GenRes.Crashed() {
			// find the culprit one by one
			for _, p := range b.Progs {
				res := e.Wire(b.Root, nil, "gen", "./"+p.ID+"/app")
				if res.Crashed() {
					br.issues[p.ID] = "crash while copying declarations: " + tail(res.Stderr, 1500)
				}
			}
		}
		// build and run both variants
		run := func(tags string) (map[string][]string, string) {
			args := []string{"build"}
			if tags != "" {
				args = append(args, "-tags", tags)
			}
			res := e.Run(b.Root, e.GoEnv(), 600*time.Second, "go", append(args, "./...")...)
			bad := map[string]string{}
			if res.Exit != 0 {
				bad = failingPkgs(res.Stdout + res.Stderr)
			}
			for _, p := range b.Progs {
				if msg, ok := bad[p.ImportPath(0)]; ok && br.issues[p.ID] == "" {
					which := "copies (default tags)"
					if tags != "" {
						which = "originals (-tags wireinject)"
					}
					br.issues[p.ID] = "package does not build with the " + which + ": " + msg
				}
			}
			var mainSrc strings.Builder
			mainSrc.WriteString("package main\n\nimport (\n\ttr \"" + ModulePath + "/tr\"\n")
			var calls []string
			for k, p := range b.Progs {
				if _, ok := bad[p.ImportPath(0)]; ok {
					continue
				}
				if br.issues[p.ID] != "" {
					continue
				}
				fmt.Fprintf(&mainSrc, "\tq%d %q\n", k, p.ImportPath(0))
				calls = append(calls, fmt.Sprintf("q%d.Scenarios", k))
			}
			if len(calls) == 0 {
				return nil, ""
			}
			mainSrc.WriteString(")\n\nfunc main() {\n\ttr.Main(" + strings.Join(calls, ", ") + ")\n}\n")
			dir := filepath.Join(b.Root, "cmd", "probe"+tags)
			os.MkdirAll(dir, 0o755)
			os.WriteFile(filepath.Join(dir, "main.go"), []byte(mainSrc.String()), 0o644)
			bin := filepath.Join(b.Root, "probe"+tags+".bin")
			bargs := []string{"build", "-o", bin}
			if tags != "" {
				bargs = append(bargs, "-tags", tags)
			}
			res = e.Run(b.Root, e.GoEnv(), 600*time.Second, "go", append(bargs, "./cmd/probe"+tags)...)
			if res.Exit != 0 {
				return nil, "probe link failed: " + tail(res.Stderr, 800)
			}
			tp := filepath.Join(b.Root, "trace"+tags+".jsonl")
			res = e.Run(b.Root, append(e.GoEnv(), "VERIF_TRACE="+tp), 300*time.Second, bin)
			os.Remove(bin)
			evs, _ := LoadTrace(tp)
			m := map[string][]string{}
			for _, ev := range evs {
				if ev.Ev == "note" && ev.Kind == "copied_fn" {
					m[ev.Name] = ev.Vals
				}
			}
			if res.Exit != 0 {
				return m, fmt.Sprintf("probe exit %d: %s", res.Exit, tail(res.Stderr, 500))
			}
			return m, ""
		}
		copies, e1 := run("")
		origs, e2 := run("wireinject")
		if e1 != "" || e2 != "" {
			br.incon = append(br.incon, e1+" "+e2)
		}
		// structure: load both variants with types
		src, errS := loadPkgs(e, b.Root, "wireinject")
		gen, errG := loadPkgs(e, b.Root, "")
		if errS != nil || errG != nil {
			br.incon = append(br.incon, fmt.Sprint("loading packages for comparison failed: ", errS, errG))
			return
		}
		for _, p := range b.Progs {
			if br.issues[p.ID] != "" {
				continue
			}
			sp, gp := src[p.ImportPath(0)], gen[p.ImportPath(0)]
			if sp == nil || gp == nil || len(sp.Errors) > 0 || len(gp.Errors) > 0 {
				br.incon = append(br.incon, p.ID+": cannot type-check both variants")
				continue
			}
			var srcDecls, genDecls []ast.Decl
			files := append([]*ast.File(nil), sp.Syntax...)
			sort.Slice(files, func(i, j int) bool {
				return sp.Fset.File(files[i].Pos()).Name() < sp.Fset.File(files[j].Pos()).Name()
			})
			for _, f := range files {
				if bn := filepath.Base(sp.Fset.File(f.Pos()).Name()); bn != "wire.go" && bn != "wire_b.go" {
					continue
				}
				for _, d := range f.Decls {
					if gd, ok := d.(*ast.GenDecl); ok && gd.Tok == token.IMPORT {
						continue
					}
					if isInjectorDecl(d) {
						continue
					}
					srcDecls = append(srcDecls, d)
					nodeKinds(d, br.kinds)
				}
			}
			for _, f := range gp.Syntax {
				if filepath.Base(gp.Fset.File(f.Pos()).Name()) != "wire_gen.go" {
					continue
				}
				for _, d := range f.Decls {
					if gd, ok := d.(*ast.GenDecl); ok && gd.Tok == token.IMPORT {
						continue
					}
					if fd, ok := d.(*ast.FuncDecl); ok && fd.Recv == nil && (fd.Name.Name == "Init" || fd.Name.Name == "InitB") {
						continue
					}
					genDecls = append(genDecls, d)
				}
			}
			if len(srcDecls) != len(genDecls) {
				br.issues[p.ID] = fmt.Sprintf("injector file has %d non-injector declarations, wire_gen.go has %d", len(srcDecls), len(genDecls))
				continue
			}
			for k := range srcDecls {
				c := &alphaCmp{srcInfo: sp.TypesInfo, genInfo: gp.TypesInfo, self: p.ImportPath(0), fwd: map[types.Object]types.Object{}, bwd: map[types.Object]types.Object{}}
				if !c.node(srcDecls[k], genDecls[k]) {
					br.issues[p.ID] = fmt.Sprintf("declaration %d is not a faithful copy: %s", k, c.err)
					break
				}
			}
			if br.issues[p.ID] != "" {
				continue
			}
			// behaviour
			for _, sn := range snipsOf[p.ID] {
				if sn.Probe == "" {
					continue
				}
				key := p.ID + "/" + sn.Name
				if origs == nil || copies == nil {
					continue
				}
				o, okO := origs[key]
				cp, okC := copies[key]
				if !okO || !okC {
					br.incon = append(br.incon, key+": probe output missing")
					continue
				}
				if strings.Join(o, "|") != strings.Join(cp, "|") {
					br.issues[p.ID] = fmt.Sprintf("copied function behaves differently (%s): original %v, copy %v", sn.Name, o, cp)
					break
				}
			}
			if br.issues[p.ID] == "" {
				for _, sn := range snipsOf[p.ID] {
					br.held[p.ID] = append(br.held[p.ID], sn.Name+"@"+p.Feat["scheme"])
				}
			}
		}
	})
	byID := map[string]*Program{}
	for _, p := range progs {
		byID[p.ID] = p
	}
	for _, br := range out {
		rep.Incon = append(rep.Incon, br.incon...)
		for k, v := range br.kinds {
			kindsSeen[k] += v
		}
		for id, sigs := range br.held {
			rep.Evaluations++
			for _, s := range sigs {
				rep.Sigs[s] = true
			}
			rep.Count("declarations_compared", len(sigs))
			_ = id
		}
		var ids []string
		for id := range br.issues {
			ids = append(ids, id)
		}
		sort.Strings(ids)
		for _, id := range ids {
			p := byID[id]
			clause := br.issues[id]
			short := firstLine(clause)
			if len(short) > 160 {
				short = short[:160]
			}
			files := p.Files(false)
			if g := br.gen[id]; g != "" {
				files[id+"/app/wire_gen.go"] = g
			}
			rep.Violate(id, Issue{Prop: "C15", Clause: short, Witness: clause, Sig: "C15:" + strings.SplitN(short, ":", 2)[0]}, files, map[string]string{"snippets.txt": p.Feat["snippets"], "scheme.txt": p.Feat["scheme"]})
		}
	}
	var missing []string
	for _, k := range c15WantKinds {
		if kindsSeen[k] == 0 {
			missing = append(missing, k)
		}
	}
	rep.Count("ast_node_kinds_seen", len(kindsSeen))
	if len(missing) > 0 {
		rep.Incon = append(rep.Incon, "node kinds never seen in the compared sources: "+strings.Join(missing, ","))
	}
	rep.Sample(map[string]interface{}{"node_kinds_seen": kindsSeen})
	return rep.Finish(t0)
}
