package fw

import (
	"fmt"
	"sort"
)

// Provision says which item provides a type, and how.
type Provision struct {
	Item   *Item
	OutIdx int    // index into the item's output list
	Ty     *Ty    // the provided type
	Via    string // "" direct, or for bindings the key of the concrete type
	// for injector args
	Arg int // >=0: injector parameter index; Item == nil
}

// ItemOuts lists the types an item provides.
func (p *Program) ItemOuts(it *Item) []*Ty {
	switch it.Kind {
	case KFunc:
		return []*Ty{it.Out}
	case KStruct, KStructLit:
		return []*Ty{it.Struct, PtrTo(it.Struct)}
	case KValue:
		return []*Ty{it.Out}
	case KIfaceValue:
		return []*Ty{it.Iface}
	case KBind:
		return []*Ty{it.Iface}
	case KFields:
		// one source per name; handled by FieldOuts
		return nil
	}
	panic("bad item kind")
}

// structFields returns the fields of a (named) struct type.
func structFields(t *Ty) []FieldT {
	u := t.Underlying()
	if u.K != "struct" {
		return nil
	}
	return u.Fields
}

func fieldName(f FieldT) string {
	if f.Embedded {
		t := f.Ty
		if t.K == "ptr" {
			t = t.Elem
		}
		if t.K == "named" {
			return t.Decl.Name
		}
		return t.Name
	}
	return f.Name
}

func findField(t *Ty, name string) (FieldT, bool) {
	for _, f := range structFields(t) {
		if fieldName(f) == name {
			return f, true
		}
	}
	return FieldT{}, false
}

func isPrevented(f FieldT) bool { return tagGet(f.Tag, "wire") == "-" }

func tagGet(tag, key string) string {
	// minimal reflect.StructTag.Get
	for tag != "" {
		i := 0
		for i < len(tag) && tag[i] == ' ' {
			i++
		}
		tag = tag[i:]
		if tag == "" {
			break
		}
		i = 0
		for i < len(tag) && tag[i] > ' ' && tag[i] != ':' && tag[i] != '"' {
			i++
		}
		if i == 0 || i+1 >= len(tag) || tag[i] != ':' || tag[i+1] != '"' {
			break
		}
		name := tag[:i]
		tag = tag[i+1:]
		i = 1
		for i < len(tag) && tag[i] != '"' {
			if tag[i] == '\\' {
				i++
			}
			i++
		}
		if i >= len(tag) {
			break
		}
		q := tag[1:i]
		tag = tag[i+1:]
		if name == key {
			return q
		}
	}
	return ""
}

// ItemIns lists the types an item needs (for one of its provisions).
func (p *Program) ItemIns(it *Item) []*Ty {
	switch it.Kind {
	case KFunc:
		return it.Params
	case KStruct, KStructLit:
		var r []*Ty
		for _, f := range p.StructSel(it) {
			r = append(r, f.Ty)
		}
		return r
	}
	return nil
}

// StructSel returns the fields a struct provider fills.
func (p *Program) StructSel(it *Item) []FieldT {
	var r []FieldT
	if it.Kind == KStructLit {
		return structFields(it.Struct)
	}
	if it.Star {
		for _, f := range structFields(it.Struct) {
			if !isPrevented(f) {
				r = append(r, f)
			}
		}
		return r
	}
	for _, n := range it.Names {
		if f, ok := findField(it.Struct, n); ok {
			r = append(r, f)
		}
	}
	return r
}

// Problem is one reason a program is rejected.
type Problem struct {
	Class string // conflict, missing, cycle, unused, bind-missing, signature, need-err, need-cleanup, ...
	Ty    *Ty    // type concerned (may be nil)
	Text  string
	Inj   string // injector name or "" (set-level)
	Set   string // set variable name for set-level problems
}

func (pr Problem) String() string {
	return fmt.Sprintf("%s inj=%s set=%s %s", pr.Class, pr.Inj, pr.Set, pr.Text)
}

// setInfo is the analysed content of a set (or a Build call).
type setInfo struct {
	prov     map[string]*Provision // type key -> provision
	order    []string              // insertion order of keys
	problems []Problem
	// src: type key -> direct member index (position in the member list) that contributed it
	src map[string]int
}

type analysis struct {
	p    *Program
	sets map[int]*setInfo
}

// memberProvisions returns provisions contributed by a direct item.
func (a *analysis) itemProvisions(it *Item) []*Provision {
	p := a.p
	var r []*Provision
	switch it.Kind {
	case KFields:
		parentStruct := it.Parent
		ptrParent := false
		if parentStruct.K == "ptr" {
			parentStruct = parentStruct.Elem
			ptrParent = true
		}
		for _, n := range it.Names {
			f, ok := findField(parentStruct, n)
			if !ok {
				continue
			}
			r = append(r, &Provision{Item: it, OutIdx: 0, Ty: f.Ty, Via: n, Arg: -1})
			if ptrParent {
				r = append(r, &Provision{Item: it, OutIdx: 1, Ty: PtrTo(f.Ty), Via: n, Arg: -1})
			}
		}
	default:
		for i, t := range p.ItemOuts(it) {
			r = append(r, &Provision{Item: it, OutIdx: i, Ty: t, Arg: -1})
		}
	}
	return r
}

// deps of a provision, as type list.
func (a *analysis) deps(pv *Provision) []*Ty {
	if pv.Item == nil {
		return nil
	}
	switch pv.Item.Kind {
	case KFunc, KStruct, KStructLit:
		return a.p.ItemIns(pv.Item)
	case KFields:
		return []*Ty{pv.Item.Parent}
	case KBind:
		return []*Ty{pv.Item.Concrete}
	}
	return nil
}

func (a *analysis) analyzeMembers(members []Ref, params []Param, setName string, injName string) *setInfo {
	p := a.p
	si := &setInfo{prov: map[string]*Provision{}, src: map[string]int{}}
	add := func(pv *Provision, member int) bool {
		k := pv.Ty.Key(p)
		if _, dup := si.prov[k]; dup {
			si.problems = append(si.problems, Problem{Class: "conflict", Ty: pv.Ty, Inj: injName, Set: setName, Text: "multiple bindings for " + k})
			return false
		}
		si.prov[k] = pv
		si.order = append(si.order, k)
		si.src[k] = member
		return true
	}
	for i, prm := range params {
		add(&Provision{Arg: i, Ty: prm.Ty}, -1-i)
	}
	// imports first (as wire does), then providers, values, fields, then bindings.
	for mi, m := range members {
		if m.Set < 0 {
			continue
		}
		sub := a.set(m.Set)
		if len(sub.problems) > 0 {
			// a broken nested set is an error of this set too
			for _, pr := range sub.problems {
				pr2 := pr
				pr2.Inj = injName
				si.problems = append(si.problems, pr2)
			}
			continue
		}
		for _, k := range sub.order {
			add(sub.prov[k], mi)
		}
	}
	// wire stops here when an argument could not be processed (a malformed nested set) or
	// when arguments / imported sets conflict: later stages report nothing
	if len(si.problems) > 0 {
		return si
	}
	for mi, m := range members {
		if m.Item < 0 {
			continue
		}
		it := p.Items[m.Item]
		if it.Kind == KBind {
			continue
		}
		for _, pv := range a.itemProvisions(it) {
			add(pv, mi)
		}
	}
	for mi, m := range members {
		if m.Item < 0 {
			continue
		}
		it := p.Items[m.Item]
		if it.Kind != KBind {
			continue
		}
		ck := it.Concrete.Key(p)
		if _, dup := si.prov[it.Iface.Key(p)]; dup {
			si.problems = append(si.problems, Problem{Class: "conflict", Ty: it.Iface, Inj: injName, Set: setName, Text: "multiple bindings for " + it.Iface.Key(p)})
			continue
		}
		if _, ok := si.prov[ck]; !ok {
			si.problems = append(si.problems, Problem{Class: "bind-missing", Ty: it.Concrete, Inj: injName, Set: setName, Text: "binding without provider of concrete " + ck})
			continue
		}
		add(&Provision{Item: it, Ty: it.Iface, Via: ck, Arg: -1}, mi)
	}
	if len(si.problems) > 0 {
		return si
	}
	// cycle check over the whole map
	if cyc := a.findCycle(si); cyc != nil {
		si.problems = append(si.problems, Problem{Class: "cycle", Ty: cyc, Inj: injName, Set: setName, Text: "cycle through " + cyc.Key(p)})
	}
	return si
}

// resolveBind follows binding provisions to the concrete provision.
func (si *setInfo) resolve(k string) (*Provision, string) {
	for i := 0; i < 64; i++ {
		pv := si.prov[k]
		if pv == nil {
			return nil, k
		}
		if pv.Item != nil && pv.Item.Kind == KBind {
			k = pv.Via
			continue
		}
		return pv, k
	}
	return nil, k
}

func (a *analysis) findCycle(si *setInfo) *Ty {
	p := a.p
	color := map[string]int{}
	var cyc *Ty
	var visit func(k string) bool
	visit = func(k string) bool {
		switch color[k] {
		case 1:
			return true
		case 2:
			return false
		}
		pv := si.prov[k]
		if pv == nil {
			color[k] = 2
			return false
		}
		color[k] = 1
		for _, d := range a.deps(pv) {
			if visit(d.Key(p)) {
				if cyc == nil {
					cyc = d
				}
				return true
			}
		}
		color[k] = 2
		return false
	}
	keys := append([]string(nil), si.order...)
	sort.Strings(keys)
	for _, k := range keys {
		if visit(k) {
			return cyc
		}
	}
	return nil
}

func (a *analysis) set(id int) *setInfo {
	if si, ok := a.sets[id]; ok {
		if si == nil {
			// recursive set reference: Go would reject the initialisation cycle; never generated
			return &setInfo{prov: map[string]*Provision{}}
		}
		return si
	}
	a.sets[id] = nil
	s := a.p.Sets[id]
	if s.AliasOf > 0 {
		si := a.set(s.AliasOf - 1)
		a.sets[id] = si
		return si
	}
	si := a.analyzeMembers(s.Members, nil, s.Name, "")
	a.sets[id] = si
	return si
}

// InjPlan is the reference model's view of one accepted injector.
type InjPlan struct {
	Inj      *Injector
	Info     *setInfo
	Needed   []string // type keys needed, in a valid dependency order (deps first)
	NeedProv map[string]*Provision
	Problems []Problem
	// Item keys of function providers needed (each must run exactly once on success)
	FuncKeys []string
	// All error-capable function providers in the build closure (fault points that exist)
	ErrKeys                []string
	NeedsErr, NeedsCleanup bool
}

// Analyze computes the plan (or problems) for each injector and for each set.
type Analysis struct {
	P    *Program
	Injs []*InjPlan
	Sets map[int][]Problem // problems per set id (for wire check)
	a    *analysis
}

func Analyze(p *Program) *Analysis {
	a := &analysis{p: p, sets: map[int]*setInfo{}}
	res := &Analysis{P: p, Sets: map[int][]Problem{}, a: a}
	for _, s := range p.Sets {
		si := a.set(s.ID)
		if len(si.problems) > 0 {
			res.Sets[s.ID] = si.problems
		}
	}
	for _, in := range p.Injs {
		res.Injs = append(res.Injs, a.plan(in))
	}
	return res
}

func (a *analysis) plan(in *Injector) *InjPlan {
	p := a.p
	pl := &InjPlan{Inj: in, NeedProv: map[string]*Provision{}}
	// signature-level item problems
	for _, it := range a.closureItems(in.Build) {
		if pr := a.itemProblem(it); pr != nil {
			pr.Inj = in.Name
			pl.Problems = append(pl.Problems, *pr)
		}
	}
	if len(pl.Problems) > 0 {
		return pl
	}
	si := a.analyzeMembers(in.Build, in.Params, "", in.Name)
	pl.Info = si
	if len(si.problems) > 0 {
		pl.Problems = append(pl.Problems, si.problems...)
		return pl
	}
	// solve
	state := map[string]int{} // 1 = done, 2 = aborted
	usedMember := map[int]bool{}
	var visit func(t *Ty) bool
	visit = func(t *Ty) bool {
		k := t.Key(p)
		switch state[k] {
		case 1, 3:
			return true
		case 2:
			return false
		}
		pv := si.prov[k]
		if pv != nil {
			state[k] = 3
		}
		if pv == nil {
			state[k] = 2
			pl.Problems = append(pl.Problems, Problem{Class: "missing", Ty: t, Inj: in.Name, Text: "no provider for " + k})
			return false
		}
		usedMember[si.src[k]] = true
		ok := true
		for _, d := range a.deps(pv) {
			if !visit(d) {
				ok = false
			}
		}
		if !ok {
			state[k] = 2
			return false
		}
		state[k] = 1
		pl.Needed = append(pl.Needed, k)
		pl.NeedProv[k] = pv
		return true
	}
	visit(in.Result)
	if len(pl.Problems) > 0 {
		return pl
	}
	// unused direct members
	for mi, m := range in.Build {
		if usedMember[mi] {
			continue
		}
		if m.Item >= 0 && p.Items[m.Item].Kind == KFields {
			// per-field unit: used iff every name used; partially used => see below
		}
		pr := Problem{Class: "unused", Inj: in.Name, Text: fmt.Sprintf("unused member %d", mi)}
		if m.Item >= 0 {
			outs := a.itemProvisions(p.Items[m.Item])
			if len(outs) > 0 {
				pr.Ty = outs[0].Ty
			}
		}
		pl.Problems = append(pl.Problems, pr)
	}
	// (A FieldsOf item with several names is one item: it contributes as soon as one of its
	// fields is needed — C08 "via one of several listed fields".)
	if len(pl.Problems) > 0 {
		return pl
	}
	// needs error / cleanup
	seen := map[*Item]bool{}
	for _, k := range pl.Needed {
		pv := pl.NeedProv[k]
		if pv.Item == nil || pv.Item.Kind != KFunc || seen[pv.Item] {
			continue
		}
		seen[pv.Item] = true
		pl.FuncKeys = append(pl.FuncKeys, pv.Item.Key)
		if pv.Item.Err {
			pl.NeedsErr = true
			if !in.Err {
				pl.Problems = append(pl.Problems, Problem{Class: "need-err", Ty: pv.Ty, Inj: in.Name})
			}
		}
		if pv.Item.Cleanup {
			pl.NeedsCleanup = true
			if !in.Cleanup {
				pl.Problems = append(pl.Problems, Problem{Class: "need-cleanup", Ty: pv.Ty, Inj: in.Name})
			}
		}
	}
	for _, it := range a.closureItems(in.Build) {
		if it.Kind == KFunc && it.Err {
			pl.ErrKeys = append(pl.ErrKeys, it.Key)
		}
	}
	return pl
}

// closureItems returns all items reachable from refs (through sets), deduplicated.
func (a *analysis) closureItems(refs []Ref) []*Item {
	seenI := map[int]bool{}
	seenS := map[int]bool{}
	var r []*Item
	var walk func(refs []Ref)
	walk = func(refs []Ref) {
		for _, m := range refs {
			if m.Item >= 0 {
				if !seenI[m.Item] {
					seenI[m.Item] = true
					r = append(r, a.p.Items[m.Item])
				}
			} else if !seenS[m.Set] {
				seenS[m.Set] = true
				t := a.p.Sets[m.Set]
				for t.AliasOf > 0 {
					t = a.p.Sets[t.AliasOf-1]
				}
				walk(t.Members)
			}
		}
	}
	walk(refs)
	return r
}

// itemProblem reports item-local rule violations (signature rules etc.).
func (a *analysis) itemProblem(it *Item) *Problem {
	p := a.p
	switch it.Kind {
	case KFunc:
		seen := map[string]bool{}
		for _, t := range it.Params {
			k := t.Key(p)
			if seen[k] {
				return &Problem{Class: "dup-param", Ty: t}
			}
			seen[k] = true
		}
	case KStruct, KStructLit:
		seen := map[string]bool{}
		for _, f := range p.StructSel(it) {
			k := f.Ty.Key(p)
			if seen[k] {
				return &Problem{Class: "dup-field", Ty: f.Ty}
			}
			seen[k] = true
		}
		if it.Kind == KStruct && !it.Star {
			for _, n := range it.Names {
				f, ok := findField(it.Struct, n)
				if !ok {
					return &Problem{Class: "bad-field", Text: n}
				}
				if isPrevented(f) {
					return &Problem{Class: "prevented-field", Text: n}
				}
			}
		}
	case KFields:
		ps := it.Parent
		if ps.K == "ptr" {
			ps = ps.Elem
		}
		for _, n := range it.Names {
			f, ok := findField(ps, n)
			if !ok {
				return &Problem{Class: "bad-field", Text: n}
			}
			if isPrevented(f) {
				return &Problem{Class: "prevented-field", Text: n}
			}
		}
	}
	return nil
}

// Accepted reports whether every injector of the program is accepted by the model.
func (an *Analysis) Accepted() bool {
	for _, pl := range an.Injs {
		if len(pl.Problems) > 0 {
			return false
		}
	}
	return true
}

// AllProblems flattens injector problems.
func (an *Analysis) AllProblems() []Problem {
	var r []Problem
	for _, pl := range an.Injs {
		r = append(r, pl.Problems...)
	}
	return r
}
