package fw

import (
	"fmt"
	"sort"
	"strings"
)

// ---------------------------------------------------------------------------
// Types

// Ty is a Go type expression in the model.
type Ty struct {
	K      string    `json:"k"`                // named, basic, ptr, slice, array, map, chan, func, struct, iface
	Decl   *TypeDecl `json:"-"`                // named
	DeclID int       `json:"decl,omitempty"`   // index into Program.Decls (for JSON)
	Name   string    `json:"name,omitempty"`   // basic name ("int", "error", ...)
	Elem   *Ty       `json:"elem,omitempty"`   // ptr, slice, array, chan, map value, func result
	MapKey *Ty       `json:"mapkey,omitempty"` // map
	Dir    string    `json:"dir,omitempty"`    // chan: "", "<-chan", "chan<-"
	N      int       `json:"n,omitempty"`      // array length
	Fields []FieldT  `json:"fields,omitempty"` // struct
	Params []*Ty     `json:"params,omitempty"` // func
	Meths  []string  `json:"meths,omitempty"`  // unnamed interface
	TArgs  []*Ty     `json:"targs,omitempty"`  // generic instantiation
	Embeds []*Ty     `json:"embeds,omitempty"` // interface: embedded interfaces
	Var    bool      `json:"var,omitempty"`    // func: the last parameter (a slice type) is variadic
}

// FieldT is a struct field.
type FieldT struct {
	Name     string `json:"name"` // "" = embedded
	Ty       *Ty    `json:"ty"`
	Tag      string `json:"tag,omitempty"`
	Embedded bool   `json:"embedded,omitempty"`
}

// TypeDecl is a named type (or alias) declared in a package.
type TypeDecl struct {
	ID      int      `json:"id"`
	Pkg     int      `json:"pkg"`
	Name    string   `json:"name"`
	Under   *Ty      `json:"under"`
	Alias   bool     `json:"alias,omitempty"`
	Methods []Method `json:"methods,omitempty"`
	TParams int      `json:"tparams,omitempty"`
	Carrier string   `json:"carrier,omitempty"` // how identity is carried: struct,int,string,none...
}

// Method is a method declared on a named type.
type Method struct {
	Name    string `json:"name"`
	PtrRecv bool   `json:"ptr_recv,omitempty"`
}

func Named(d *TypeDecl) *Ty        { return &Ty{K: "named", Decl: d, DeclID: d.ID} }
func Basic(name string) *Ty        { return &Ty{K: "basic", Name: name} }
func PtrTo(t *Ty) *Ty              { return &Ty{K: "ptr", Elem: t} }
func SliceOf(t *Ty) *Ty            { return &Ty{K: "slice", Elem: t} }
func ArrayOf(n int, t *Ty) *Ty     { return &Ty{K: "array", N: n, Elem: t} }
func MapOf(k, v *Ty) *Ty           { return &Ty{K: "map", MapKey: k, Elem: v} }
func ChanOf(dir string, t *Ty) *Ty { return &Ty{K: "chan", Dir: dir, Elem: t} }
func FuncRet(t *Ty) *Ty            { return &Ty{K: "func", Elem: t} }
func StructOf(fs ...FieldT) *Ty    { return &Ty{K: "struct", Fields: fs} }

var ErrorTy = Basic("error")

// Key is the canonical identity string of a type (Go type identity).
func (t *Ty) Key(p *Program) string {
	switch t.K {
	case "named":
		if t.Decl.Alias {
			return t.Decl.Under.Key(p)
		}
		s := p.ImportPath(t.Decl.Pkg) + "." + t.Decl.Name
		if len(t.TArgs) > 0 {
			var as []string
			for _, a := range t.TArgs {
				as = append(as, a.Key(p))
			}
			s += "[" + strings.Join(as, ",") + "]"
		}
		return s
	case "basic":
		// two spellings, one type
		switch t.Name {
		case "byte":
			return "uint8"
		case "rune":
			return "int32"
		case "any":
			return "interface{}"
		}
		return t.Name
	case "ptr":
		return "*" + t.Elem.Key(p)
	case "slice":
		return "[]" + t.Elem.Key(p)
	case "array":
		return fmt.Sprintf("[%d]%s", t.N, t.Elem.Key(p))
	case "map":
		return "map[" + t.MapKey.Key(p) + "]" + t.Elem.Key(p)
	case "chan":
		d := t.Dir
		if d == "" {
			d = "chan"
		}
		if t.Dir == "" && t.Elem.K == "chan" && t.Elem.Dir == "<-chan" {
			return d + " (" + t.Elem.Key(p) + ")"
		}
		return d + " " + t.Elem.Key(p)
	case "func":
		var ps []string
		for i, x := range t.Params {
			if t.Var && i == len(t.Params)-1 {
				ps = append(ps, "..."+x.Elem.Key(p))
				continue
			}
			ps = append(ps, x.Key(p))
		}
		s := "func(" + strings.Join(ps, ", ") + ")"
		if t.Elem != nil {
			s += " " + t.Elem.Key(p)
		}
		return s
	case "struct":
		var fs []string
		for _, f := range t.Fields {
			s := f.Name + " " + f.Ty.Key(p)
			if f.Embedded {
				s = f.Ty.Key(p)
			}
			if f.Tag != "" {
				s += " " + fmt.Sprintf("%q", f.Tag)
			}
			fs = append(fs, s)
		}
		return "struct{" + strings.Join(fs, "; ") + "}"
	case "iface":
		ms := append([]string(nil), t.Meths...)
		sort.Strings(ms)
		var fs []string
		for _, em := range t.Embeds {
			fs = append(fs, em.Key(p))
		}
		for _, m := range ms {
			fs = append(fs, m+"()")
		}
		if len(fs) == 0 {
			return "interface{}"
		}
		return "interface{" + strings.Join(fs, "; ") + "}"
	}
	panic("bad ty kind " + t.K)
}

// Str is the type string as go/types prints it with no qualifier
// (full package paths), which is what wire puts in diagnostics.
func (t *Ty) Str(p *Program) string {
	switch t.K {
	case "basic":
		// as spelled (Key canonicalises rune/byte/any)
		return t.Name
	case "named":
		s := p.ImportPath(t.Decl.Pkg) + "." + t.Decl.Name
		if t.Decl.Alias {
			// go 1.12 language level for wire: aliases are resolved away.
			return t.Decl.Under.Str(p)
		}
		if len(t.TArgs) > 0 {
			var as []string
			for _, a := range t.TArgs {
				as = append(as, a.Str(p))
			}
			s += "[" + strings.Join(as, ",") + "]"
		}
		return s
	case "ptr":
		return "*" + t.Elem.Str(p)
	case "slice":
		return "[]" + t.Elem.Str(p)
	case "array":
		return fmt.Sprintf("[%d]%s", t.N, t.Elem.Str(p))
	case "map":
		return "map[" + t.MapKey.Str(p) + "]" + t.Elem.Str(p)
	case "chan":
		d := t.Dir
		if d == "" {
			d = "chan"
		}
		if t.Dir == "" && t.Elem.K == "chan" && t.Elem.Dir == "<-chan" {
			return d + " (" + t.Elem.Str(p) + ")"
		}
		return d + " " + t.Elem.Str(p)
	}
	return t.Key(p)
}

// Under returns the underlying type (resolving named).
func (t *Ty) Underlying() *Ty {
	for t.K == "named" {
		t = t.Decl.Under
	}
	return t
}

// IsInterface reports whether the type's underlying type is an interface.
func (t *Ty) IsInterface() bool {
	if t.K == "basic" && t.Name == "error" {
		return true
	}
	if t.K == "basic" {
		return false
	}
	return t.Underlying().K == "iface"
}

// ---------------------------------------------------------------------------
// Items, sets, injectors

type ItemKind string

const (
	KFunc       ItemKind = "func"
	KStruct     ItemKind = "struct"     // wire.Struct(new(S), ...)
	KStructLit  ItemKind = "structlit"  // S{} (deprecated form)
	KValue      ItemKind = "value"      // wire.Value(expr)
	KIfaceValue ItemKind = "ifacevalue" // wire.InterfaceValue(new(I), expr)
	KBind       ItemKind = "bind"       // wire.Bind(new(I), new(C))
	KFields     ItemKind = "fields"     // wire.FieldsOf(new(S), names...)
)

// Item is one provider-ish argument of wire.Build / wire.NewSet.
type Item struct {
	ID   int      `json:"id"`
	Kind ItemKind `json:"kind"`
	Key  string   `json:"key"` // model key, used in traces

	// KFunc
	Pkg      int      `json:"pkg,omitempty"`
	Name     string   `json:"name,omitempty"`
	Params   []*Ty    `json:"params,omitempty"`
	PNames   []string `json:"pnames,omitempty"`
	Out      *Ty      `json:"out,omitempty"` // also Value/IfaceValue result type
	Cleanup  bool     `json:"cleanup,omitempty"`
	Err      bool     `json:"err,omitempty"`
	Variadic bool     `json:"variadic,omitempty"`
	// Mutate: after logging, the function adds 7 to the Scratch_ field of every struct it receives by pointer.
	Mutate bool `json:"mutate,omitempty"`
	// Spelling (KBind): "" = wire.Bind(new(I), new(T)); "typed-nil-second" = wire.Bind(new(I), (*T)(nil));
	// "typed-nil-both" = wire.Bind((*I)(nil), (*T)(nil)). Only the arguments' types matter.
	Spelling string `json:"spelling,omitempty"`
	// raw result list override for signature tests (C09)
	RawResults []string `json:"raw_results,omitempty"`
	Stub       bool     `json:"stub,omitempty"` // body panics; never executed
	// Body override: how the provider makes its output ("" = default mk)
	ParentFill bool `json:"parent_fill,omitempty"` // Out is a struct with carrier fields to fill with fresh ids

	// KStruct / KStructLit
	Struct *Ty      `json:"struct,omitempty"` // named struct type
	Names  []string `json:"names,omitempty"`  // selected fields (KStruct, KFields)
	Star   bool     `json:"star,omitempty"`

	// KValue / KIfaceValue
	Expr     string `json:"expr,omitempty"`   // Go expression template; %PKG<i>% placeholders resolved by renderer
	ValID    int64  `json:"val_id,omitempty"` // constant identity inside Expr (0 = none)
	Iface    *Ty    `json:"iface,omitempty"`  // KIfaceValue, KBind
	ExprPkgs []int  `json:"expr_pkgs,omitempty"`

	// KBind
	Concrete *Ty `json:"concrete,omitempty"`

	// KFields
	Parent *Ty `json:"parent,omitempty"` // S or *S
}

// Ref is a member of a set: an item or another set.
type Ref struct {
	Item int `json:"item"` // -1 if set
	Set  int `json:"set"`  // -1 if item
}

func ItemRef(i int) Ref { return Ref{Item: i, Set: -1} }
func SetRef(s int) Ref  { return Ref{Item: -1, Set: s} }

// Set is a package-level provider set variable.
type Set struct {
	ID           int    `json:"id"`
	Pkg          int    `json:"pkg"`
	Name         string `json:"name"`
	Members      []Ref  `json:"members"`
	InInjectFile bool   `json:"in_inject_file,omitempty"`
	Inline       bool   `json:"inline,omitempty"`   // written as wire.NewSet(...) wherever referenced
	AliasOf      int    `json:"alias_of,omitempty"` // id+1 of the set variable this one is an alias of (var A = B); 0 = none
	Grouped      bool   `json:"grouped,omitempty"`  // declared inside a var ( ... ) group
	// BlankSibling: members of a set assigned to _ in the same var spec, BEFORE this one
	// (var _, Name = wire.NewSet(<blank sibling>), wire.NewSet(<members>)); the model ignores it.
	BlankSibling []Ref `json:"blank_sibling,omitempty"`
	// SiblingAfter: the same with the blank name after this one (var Name, _ = ...)
	SiblingAfter bool `json:"sibling_after,omitempty"`
	// JoinWith: id+1 of another set of the same package and file declared in THIS set's var spec,
	// after it (var This, Other = wire.NewSet(..), wire.NewSet(..)); Joined marks that other set.
	JoinWith int  `json:"join_with,omitempty"`
	Joined   bool `json:"joined,omitempty"`
}

// Param is an injector parameter.
type Param struct {
	Name string `json:"name"` // "" missing, "_" blank
	Ty   *Ty    `json:"ty"`
}

// Injector is an injector template.
type Injector struct {
	Name       string   `json:"name"`
	Params     []Param  `json:"params"`
	Variadic   bool     `json:"variadic,omitempty"`
	Result     *Ty      `json:"result"`
	Cleanup    bool     `json:"cleanup,omitempty"`
	Err        bool     `json:"err,omitempty"`
	Build      []Ref    `json:"build"`
	Panic      bool     `json:"panic,omitempty"` // panic(wire.Build(...)) form
	File       int      `json:"file,omitempty"`  // which injector file (0,1,..)
	Doc        string   `json:"doc,omitempty"`
	RawResults []string `json:"raw_results,omitempty"`
	// ResultNames: names the template gives its results (value, then cleanup and error as declared).
	ResultNames []string `json:"result_names,omitempty"`
}

// Pkg is a package of the program.
type Pkg struct {
	Name string `json:"name"` // package clause name
	Dir  string `json:"dir"`  // path relative to program root
}

// Program is one self-contained wire user program (1..n packages).
type Program struct {
	ID     string      `json:"id"`
	Module string      `json:"module"` // module path prefix
	Pkgs   []*Pkg      `json:"pkgs"`   // Pkgs[0] holds the injectors
	Decls  []*TypeDecl `json:"decls"`
	Items  []*Item     `json:"items"`
	Sets   []*Set      `json:"sets"`
	Injs   []*Injector `json:"injs"`
	// Extra raw Go source appended to package files (C15, C20...). key: "pkgIdx/filename"
	Extra map[string]string `json:"extra,omitempty"`
	// Feature tags for shape signatures.
	Feat map[string]string `json:"feat,omitempty"`
	Note string            `json:"note,omitempty"`
	// ErrName: a package-level identifier named err etc. declared in pkg 0.
	PkgVars []string `json:"pkg_vars,omitempty"` // raw declarations put in pkg 0's decl file
	// PkgIdents: identifiers declared by PkgVars (so the renderer avoids them as import names).
	PkgIdents []string `json:"pkg_idents,omitempty"`
	// InjBlankImports / InjRaw: blank imports and raw declarations added to injector file 0.
	InjBlankImports []string `json:"inj_blank_imports,omitempty"`
	// BlankLibs: blank-import the program's own non-empty library packages, in an ordinary file
	// of package 0 ("file") or in injector file 0 ("injector"); resolved when rendering, so that
	// mutants that empty a package stay well-formed.
	BlankLibs string `json:"blank_libs,omitempty"`
	InjRaw    string `json:"inj_raw,omitempty"`
	// InjImports: extra imports (path -> name) of injector file 0, for InjRaw to use.
	InjImports map[string]string `json:"inj_imports,omitempty"`
	// InjRawB: raw declarations added to injector file 1 (if the program has one)
	InjRawB string `json:"inj_raw_b,omitempty"`
	// AliasImports: the user's files import the program's own packages under an alias that
	// differs from the package name (al_<name>).
	AliasImports bool `json:"alias_imports,omitempty"`
	// GeneratedHeader: the injector files start with a "Code generated ... DO NOT EDIT." comment
	// (templates written by another tool).
	GeneratedHeader bool `json:"generated_header,omitempty"`
	// RawDriver: an Extra file provides func Scenarios() for pkg 0.
	RawDriver bool `json:"raw_driver,omitempty"`
	// RejectOK: rejection with a diagnostic is as acceptable as compilable output.
	RejectOK bool `json:"reject_ok,omitempty"`
}

// ImportPath returns the import path of package i.
func (p *Program) ImportPath(i int) string {
	if i < 0 {
		return ""
	}
	s := p.Module + "/" + p.ID
	if p.Pkgs[i].Dir != "" && p.Pkgs[i].Dir != "." {
		s += "/" + p.Pkgs[i].Dir
	}
	return s
}

// NewDecl adds a named type.
func (p *Program) NewDecl(pkg int, name string, under *Ty, carrier string) *TypeDecl {
	d := &TypeDecl{ID: len(p.Decls), Pkg: pkg, Name: name, Under: under, Carrier: carrier}
	p.Decls = append(p.Decls, d)
	return d
}

// AddItem appends an item.
func (p *Program) AddItem(it *Item) *Item {
	it.ID = len(p.Items)
	if it.Key == "" {
		it.Key = fmt.Sprintf("n%d", it.ID)
	}
	p.Items = append(p.Items, it)
	return it
}

// AddSet appends a set.
func (p *Program) AddSet(s *Set) *Set {
	s.ID = len(p.Sets)
	p.Sets = append(p.Sets, s)
	return s
}

// Clone deep-copies a program (decl pointers are re-linked).
func (p *Program) Clone() *Program {
	q := &Program{ID: p.ID, Module: p.Module, Note: p.Note, RejectOK: p.RejectOK, RawDriver: p.RawDriver, AliasImports: p.AliasImports, GeneratedHeader: p.GeneratedHeader}
	for _, k := range p.Pkgs {
		c := *k
		q.Pkgs = append(q.Pkgs, &c)
	}
	dm := map[*TypeDecl]*TypeDecl{}
	for _, d := range p.Decls {
		c := *d
		c.Methods = append([]Method(nil), d.Methods...)
		dm[d] = &c
		q.Decls = append(q.Decls, &c)
	}
	var cty func(t *Ty) *Ty
	cty = func(t *Ty) *Ty {
		if t == nil {
			return nil
		}
		c := *t
		if t.Decl != nil {
			c.Decl = dm[t.Decl]
		}
		c.Elem = cty(t.Elem)
		c.MapKey = cty(t.MapKey)
		c.Fields = nil
		for _, f := range t.Fields {
			f2 := f
			f2.Ty = cty(f.Ty)
			c.Fields = append(c.Fields, f2)
		}
		c.Params = nil
		for _, x := range t.Params {
			c.Params = append(c.Params, cty(x))
		}
		c.TArgs = nil
		for _, x := range t.TArgs {
			c.TArgs = append(c.TArgs, cty(x))
		}
		c.Meths = append([]string(nil), t.Meths...)
		return &c
	}
	for _, d := range q.Decls {
		d.Under = cty(d.Under)
	}
	for _, it := range p.Items {
		c := *it
		c.Params = nil
		for _, x := range it.Params {
			c.Params = append(c.Params, cty(x))
		}
		c.PNames = append([]string(nil), it.PNames...)
		c.Out = cty(it.Out)
		c.Struct = cty(it.Struct)
		c.Names = append([]string(nil), it.Names...)
		c.Iface = cty(it.Iface)
		c.Concrete = cty(it.Concrete)
		c.Parent = cty(it.Parent)
		c.RawResults = append([]string(nil), it.RawResults...)
		c.ExprPkgs = append([]int(nil), it.ExprPkgs...)
		q.Items = append(q.Items, &c)
	}
	for _, s := range p.Sets {
		c := *s
		c.Members = append([]Ref(nil), s.Members...)
		q.Sets = append(q.Sets, &c)
	}
	for _, in := range p.Injs {
		c := *in
		c.Params = nil
		for _, x := range in.Params {
			c.Params = append(c.Params, Param{Name: x.Name, Ty: cty(x.Ty)})
		}
		c.Result = cty(in.Result)
		c.Build = append([]Ref(nil), in.Build...)
		c.RawResults = append([]string(nil), in.RawResults...)
		c.ResultNames = append([]string(nil), in.ResultNames...)
		q.Injs = append(q.Injs, &c)
	}
	if p.Extra != nil {
		q.Extra = map[string]string{}
		for k, v := range p.Extra {
			q.Extra[k] = v
		}
	}
	if p.Feat != nil {
		q.Feat = map[string]string{}
		for k, v := range p.Feat {
			q.Feat[k] = v
		}
	}
	q.PkgVars = append([]string(nil), p.PkgVars...)
	q.PkgIdents = append([]string(nil), p.PkgIdents...)
	q.InjBlankImports = append([]string(nil), p.InjBlankImports...)
	q.BlankLibs = p.BlankLibs
	q.InjRaw = p.InjRaw
	if p.InjImports != nil {
		q.InjImports = map[string]string{}
		for k, v := range p.InjImports {
			q.InjImports[k] = v
		}
	}
	q.InjRawB = p.InjRawB
	return q
}

// blankLibPaths lists the import paths of the library packages that have declarations.
func (p *Program) blankLibPaths() []string {
	var out []string
	for k := 1; k < len(p.Pkgs); k++ {
		has := false
		for _, d := range p.Decls {
			if d.Pkg == k {
				has = true
			}
		}
		for _, it := range p.Items {
			if it.Kind == KFunc && it.Pkg == k {
				has = true
			}
		}
		if has {
			out = append(out, p.ImportPath(k))
		}
	}
	return out
}
