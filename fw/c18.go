package fw

import (
	"fmt"
	"os"
	"path/filepath"
	"strings"
	"sync"
	"time"
)

// c18Variants: four source variants of one package (same import path).
// 0: accepted, long output; 1: accepted, short output; 2: rejected (missing); 3: rejected (conflict);
// 4: accepted, short output extended by one injector (variant 1 is a byte prefix of it).
func c18Variants(id string) []*Program {
	var vs []*Program
	{ // long
		b := NewPB(id, "app")
		var prev *Ty
		var items []*Item
		for k := 0; k < 7; k++ {
			t := b.Carrier(0, fmt.Sprintf("Long%d", k))
			var ps []*Ty
			if prev != nil {
				ps = []*Ty{prev}
			}
			items = append(items, b.Func(0, fmt.Sprintf("NewLong%d", k), t, k%2 == 0, k%3 == 0, ps...))
			prev = t
		}
		b.Inj("Init", prev, true, true, nil, refs(items...)...)
		b.Inj("InitFirst", Named(b.P.Decls[0]), true, true, nil, ItemRef(items[0].ID))
		vs = append(vs, b.P)
	}
	{ // short
		b := NewPB(id, "app")
		t := b.Carrier(0, "Short")
		f := b.Func(0, "NewShort", t, false, false)
		b.Inj("Init", t, false, false, nil, ItemRef(f.ID))
		vs = append(vs, b.P)
	}
	{ // missing
		b := NewPB(id, "app")
		a, c := b.Carrier(0, "A"), b.Carrier(0, "C")
		f := b.Func(0, "NewC", c, false, false, a)
		b.Inj("Init", c, false, false, nil, ItemRef(f.ID))
		vs = append(vs, b.P)
	}
	{ // conflict
		b := NewPB(id, "app")
		a := b.Carrier(0, "A")
		f1 := b.Func(0, "NewA1", a, false, false)
		f2 := b.Func(0, "NewA2", a, false, false)
		b.Inj("Init", a, false, false, nil, refs(f1, f2)...)
		vs = append(vs, b.P)
	}
	{ // accepted: the short variant plus one more injector at the end, so that the short
		// variant's output is a proper prefix of this one's
		b := NewPB(id, "app")
		t := b.Carrier(0, "Short")
		f := b.Func(0, "NewShort", t, false, false)
		b.Inj("Init", t, false, false, nil, ItemRef(f.ID))
		b.Inj("InitZ", PtrTo(t), false, false, nil, ItemRef(b.Func(0, "NewShortPtr", PtrTo(t), false, false).ID))
		vs = append(vs, b.P)
	}
	{ // accepted: helpers declared in the injector file (copied into the output) whose names are
		// exactly the import name, the local names and the value-variable name that the NEXT
		// variant's output uses
		b := NewPB(id, "app")
		t := b.Carrier(0, "Short")
		f := b.Func(0, "NewShort", t, false, false)
		b.Inj("Init", t, false, false, nil, ItemRef(f.ID))
		b.P.InjRaw = "func liba() string { return \"helper\" }\n\nvar dep, top = 1, 2\n\nvar _wireOtherValue = \"user-owned\"\n\ntype short struct{}\n"
		vs = append(vs, b.P)
	}
	{ // accepted: imports package liba, has locals dep/short/top and a value variable _wireOtherValue
		b := NewPB(id, "app", "liba")
		dep := b.Carrier(1, "Dep")
		nd := b.Func(1, "NewDep", dep, false, false)
		sh := b.Carrier(0, "Short")
		ns := b.Func(0, "NewShort", sh, false, false, dep)
		ot := b.Carrier(0, "Other")
		ov := b.Value(ot)
		top := b.Carrier(0, "Top")
		nt := b.Func(0, "NewTop", top, false, false, sh, ot)
		b.Inj("Init", top, false, false, nil, refs(nd, ns, ov, nt)...)
		vs = append(vs, b.P)
	}
	{ // accepted, and nothing to generate: the package has no injector (any more)
		b := NewPB(id, "app")
		t := b.Carrier(0, "Short")
		b.Func(0, "NewShort", t, false, false)
		vs = append(vs, b.P)
	}
	return vs
}

// c18Accepted lists the variants wire accepts.
var c18Accepted = map[int]bool{0: true, 1: true, 4: true, 5: true, 6: true, 7: true}

// c18NoOutput: accepted variants for which a fresh checkout has no generated file.
var c18NoOutput = map[int]bool{7: true}

const c18NVariants = 8

type histStep struct {
	Op  string // switch gen diff check delete damage
	Arg string
	Var int
}

func (h histStep) String() string {
	if h.Op == "switch" {
		return fmt.Sprintf("switch(%d)", h.Var)
	}
	if h.Arg != "" {
		return h.Op + "(" + h.Arg + ")"
	}
	return h.Op
}

func genHistory(e *Env, i, length int) []histStep {
	r := Rng(e.Seed, "c18", i)
	var hs []histStep
	hs = append(hs, histStep{Op: "switch", Var: i % c18NVariants})
	damages := []string{"stale", "noncompiling", "truncated", "garbage", "tail", "longer-variant", "same-length", "whitespace", "comment-before-header", "future-mtime", "ancient-mtime", "crlf", "crlf-stale", "bom", "other-tags-directive"}
	for len(hs) < length {
		switch x := r.Intn(12); {
		case x < 3:
			hs = append(hs, histStep{Op: "switch", Var: r.Intn(c18NVariants)})
		case x < 7:
			hs = append(hs, histStep{Op: "gen"})
			if r.Intn(2) == 0 {
				hs = append(hs, histStep{Op: []string{"diff", "gen", "check"}[r.Intn(3)]})
			}
		case x < 8:
			hs = append(hs, histStep{Op: "diff"})
		case x < 9:
			hs = append(hs, histStep{Op: "check"})
		case x < 10:
			hs = append(hs, histStep{Op: "delete"})
		default:
			hs = append(hs, histStep{Op: "damage", Arg: damages[(i+len(hs))%len(damages)]})
		}
	}
	// every history ends with a successful regeneration and a diff
	// (some end with a regeneration of one accepted variant right after another's)
	tails := [][]int{{0}, {1}, {4}, {5, 6}, {6, 5}, {1, 4}, {4, 1}, {0, 6}, {1, 7}, {7, 0}}
	tl := tails[i%len(tails)]
	for _, v := range tl[:len(tl)-1] {
		hs = append(hs, histStep{Op: "switch", Var: v}, histStep{Op: "gen"})
	}
	hs = append(hs, histStep{Op: "switch", Var: tl[len(tl)-1]}, histStep{Op: "gen"}, histStep{Op: "gen"}, histStep{Op: "diff"})
	if i%2 == 1 {
		// ... every other history goes on with gen / gen / diff under one -tags list (spelled with
		// spaces, commas, both) and then returns to the plain form
		tg := []string{"extratag othertag", "extratag,othertag", "extratag, othertag", " extratag  othertag ", "extratag"}[(i/2)%5]
		hs = append(hs, histStep{Op: "taggen", Arg: tg}, histStep{Op: "tagdiff", Arg: tg}, histStep{Op: "taggen", Arg: tg}, histStep{Op: "tagdiff", Arg: tg}, histStep{Op: "gen"}, histStep{Op: "diff"})
	}
	if i%2 == 0 {
		// ... and, every other history, with an output as an earlier `gen -tags x` leaves it,
		// regenerated and compared from the package's own directory
		hs = append(hs, histStep{Op: "damage", Arg: "other-tags-directive"}, histStep{Op: "diff", Arg: "pkgdir"}, histStep{Op: "gen", Arg: "pkgdir"}, histStep{Op: "diff", Arg: "pkgdir"})
	}
	return hs
}

// CheckC18 — regeneration depends only on current sources.
func CheckC18(e *Env) int {
	t0 := time.Now()
	rep := NewReport(e, "C18", "exploration", "seeded histories over {switch sources to one of 4 variants (2 accepted with long/short output, 2 rejected), gen, diff, check, delete output, damage output (stale, non-compiling, truncated after the package clause, garbage; all keeping the !wireinject constraint)}; the history is replayed against a sequential model (state = current variant + file bytes); oracle: after every successful gen the file equals the fresh-checkout output of the current variant, a second gen changes nothing, diff right after exits 0, a failed gen leaves the file untouched, diff/check never touch the tree; distinct = distinct (previous op, op, variant class, file state) transitions observed")
	n := e.tierN(16, 128)
	length := e.tierN(10, 14)
	// fresh-checkout references
	variants := c18Variants("hist")
	ref := make([][]byte, len(variants))
	for _, v := range []int{0, 1, 4, 5, 6, 7} {
		root := filepath.Join(e.Scratch, "c18ref", fmt.Sprint(v))
		os.MkdirAll(root, 0o755)
		prepareModule(e, root, []*Program{variants[v]})
		res := e.Wire(root, nil, "gen", "./...")
		b, err := os.ReadFile(filepath.Join(root, "hist", "app", "wire_gen.go"))
		if c18NoOutput[v] && res.Exit == 0 && err != nil {
			os.RemoveAll(root)
			continue // ref[v] stays nil: a fresh checkout has no generated file
		}
		if res.Exit != 0 || err != nil {
			rep.Incon = append(rep.Incon, "reference generation failed: "+res.Stderr)
			return rep.Finish(t0)
		}
		ref[v] = b
		os.RemoveAll(root)
	}
	var mu sync.Mutex
	transitions := map[string]bool{}
	e.ParallelDo(n, func(i int) {
		hs := genHistory(e, i, length)
		root := filepath.Join(e.Scratch, "c18", fmt.Sprintf("h%03d", i))
		os.MkdirAll(root, 0o755)
		defer os.RemoveAll(root)
		WriteModule(root, e.Repo, e.TrSrc)
		pkgDir := filepath.Join(root, "hist", "app")
		out := filepath.Join(pkgDir, "wire_gen.go")
		cur := -1
		var file []byte // nil = absent
		var log []string
		violated := false
		staleReported := false
		taggedWith := ""
		fail := func(step int, clause, witness string) {
			mu.Lock()
			defer mu.Unlock()
			violated = true
			var hist []string
			for k, h := range hs {
				m := "  "
				if k == step {
					m = "=>"
				}
				hist = append(hist, fmt.Sprintf("%s %2d %s", m, k, h))
			}
			rep.Violate(fmt.Sprintf("h%03d", i), Issue{Prop: "C18", Clause: clause, Witness: witness, Sig: "C18:" + clause}, nil,
				map[string]string{"history.txt": strings.Join(hist, "\n") + "\n\nlog:\n" + strings.Join(log, "\n")})
		}
		prevOp := "start"
		for k, h := range hs {
			if violated {
				return
			}
			accepted := c18Accepted[cur]
			fstate := "absent"
			switch {
			case file == nil:
			case accepted && string(file) == string(ref[cur]):
				fstate = "current"
			default:
				fstate = "other"
			}
			vclass := "rejected"
			if accepted {
				vclass = "accepted"
			}
			if h.Op == "switch" {
				vclass = fmt.Sprintf("to%d", h.Var)
			}
			tr := fmt.Sprintf("%s->%s/%s/%s/%s", prevOp, h.Op, h.Arg, vclass, fstate)
			prevOp = h.Op
			switch h.Op {
			case "switch":
				// replace all sources except the generated file
				ents, _ := os.ReadDir(pkgDir)
				for _, en := range ents {
					if en.Name() != "wire_gen.go" {
						os.Remove(filepath.Join(pkgDir, en.Name()))
					}
				}
				WriteFiles(root, variants[h.Var].Files(false))
				cur = h.Var
				log = append(log, fmt.Sprintf("%d switch to variant %d", k, cur))
			case "delete":
				os.Remove(out)
				file = nil
				log = append(log, fmt.Sprintf("%d delete output", k))
			case "damage":
				var b []byte
				switch h.Arg {
				case "stale":
					other := 1
					if cur == 1 {
						other = 0
					}
					b = ref[other]
				case "noncompiling":
					b = []byte("//go:build !wireinject\n// +build !wireinject\n\npackage app\n\nfunc Init() { this_is_undefined() }\n")
				case "truncated":
					src := ref[0]
					idx := strings.Index(string(src), "package app\n")
					b = src[:idx+len("package app\n")]
				case "garbage":
					b = []byte(garbagePrior)
				case "tail":
					// the up-to-date content followed by extra bytes
					base := ref[1]
					if c18Accepted[cur] && !c18NoOutput[cur] {
						base = ref[cur]
					}
					b = append(append([]byte(nil), base...), []byte("\nfunc leftoverTail() {}\n")...)
				case "longer-variant":
					// the output of the variant that extends the short one
					b = ref[4]
				case "crlf", "crlf-stale", "bom":
					// the up-to-date (or another variant's) content with CRLF line endings / a byte order mark
					base := ref[1]
					if c18Accepted[cur] && !c18NoOutput[cur] && h.Arg != "crlf-stale" {
						base = ref[cur]
					} else if cur == 1 {
						base = ref[0]
					}
					if h.Arg == "bom" {
						b = append([]byte("\xef\xbb\xbf"), base...)
					} else {
						b = []byte(strings.ReplaceAll(string(base), "\n", "\r\n"))
					}
				case "same-length", "whitespace", "comment-before-header", "future-mtime", "ancient-mtime", "other-tags-directive":
					base := ref[1]
					if c18Accepted[cur] && !c18NoOutput[cur] {
						base = ref[cur]
					}
					b = append([]byte(nil), base...)
					switch h.Arg {
					case "same-length":
						// one identifier character changed: same size, same prefix, same suffix
						if idx := strings.LastIndex(string(b), "return"); idx > 0 {
							b[idx] = 'R'
						}
					case "other-tags-directive":
						// as left by an earlier `gen -tags extratag`: only the go:generate line differs
						b = []byte(strings.Replace(string(b), "/cmd/wire\n", "/cmd/wire gen -tags \"extratag\"\n", 1))
					case "whitespace":
						b = append(b, '\n', '\n')
					case "comment-before-header":
						b = append([]byte("// hand-written notes that were put before the header\n\n"), b...)
					}
				}
				os.WriteFile(out, b, 0o644)
				switch h.Arg {
				case "future-mtime":
					// up-to-date bytes... except one, with a modification time after every source
					if idx := strings.LastIndex(string(b), "return"); idx > 0 {
						b[idx] = 'R'
						os.WriteFile(out, b, 0o644)
					}
					os.Chtimes(out, time.Now().Add(48*time.Hour), time.Now().Add(48*time.Hour))
				case "ancient-mtime":
					if idx := strings.LastIndex(string(b), "return"); idx > 0 {
						b[idx] = 'R'
						os.WriteFile(out, b, 0o644)
					}
					os.Chtimes(out, time.Unix(86400*365, 0), time.Unix(86400*365, 0))
				}
				file = b
				log = append(log, fmt.Sprintf("%d damage output (%s, %d bytes)", k, h.Arg, len(b)))
			case "taggen", "tagdiff":
				// the same option list for gen and for the diff right after it: whatever gen
				// makes of the options, a second gen changes nothing and diff sees no difference
				if !accepted || c18NoOutput[cur] {
					continue
				}
				op := strings.TrimPrefix(h.Op, "tag")
				res := e.Wire(root, nil, op, "-tags", h.Arg, "./...")
				got, _ := os.ReadFile(out)
				log = append(log, fmt.Sprintf("%d %s -tags %q exit=%d file=%d bytes", k, op, h.Arg, res.Exit, len(got)))
				if res.TimedOut {
					mu.Lock()
					rep.Incon = append(rep.Incon, fmt.Sprintf("h%03d step %d: watchdog", i, k))
					mu.Unlock()
					return
				}
				if res.Crashed() {
					fail(k, "crash", tail(res.Stderr, 1500))
					return
				}
				if op == "gen" {
					if res.Exit != 0 {
						fail(k, "gen -tags failed on an accepted variant", res.Stderr)
						return
					}
					if taggedWith == h.Arg && string(got) != string(file) {
						fail(k, "a second gen with the same -tags changed the output", fmt.Sprintf("--- first\n%s\n--- second\n%s", file, got))
						return
					}
					taggedWith = h.Arg
					file = got
				} else {
					if string(got) != string(file) {
						fail(k, "diff touched the output", res.Stderr)
						return
					}
					if taggedWith == h.Arg && res.Exit != 0 {
						fail(k, fmt.Sprintf("diff exit status %d right after a successful gen with the same -tags %q, want 0", res.Exit, h.Arg), res.Stdout+res.Stderr)
						return
					}
				}
			case "gen", "diff", "check":
				taggedWith = ""
				before := TakeSnapshot(root)
				// the package is named by ./... from the module root, or (every third gen/diff/check
				// step) by "." / by nothing from its own directory
				res := (*CmdResult)(nil)
				form := (i + k) % 3
				if h.Arg == "pkgdir" {
					form = 1
				}
				switch form {
				case 1:
					res = e.Wire(pkgDir, nil, h.Op, ".")
				case 2:
					res = e.Wire(pkgDir, nil, h.Op)
				default:
					res = e.Wire(root, nil, h.Op, "./...")
				}
				after := TakeSnapshot(root)
				changed := before.Diff(after)
				got, rerr := os.ReadFile(out)
				if rerr != nil {
					got = nil
				}
				log = append(log, fmt.Sprintf("%d %s exit=%d changed=%v file=%d bytes", k, h.Op, res.Exit, changed, len(got)))
				if res.TimedOut {
					mu.Lock()
					rep.Incon = append(rep.Incon, fmt.Sprintf("h%03d step %d: watchdog", i, k))
					mu.Unlock()
					return
				}
				if res.Crashed() {
					fail(k, "crash", tail(res.Stderr, 1500))
					return
				}
				for _, c := range changed {
					if c[1:] != filepath.Join("hist", "app", "wire_gen.go") || h.Op != "gen" {
						fail(k, h.Op+" touched "+c, res.Stderr)
						return
					}
				}
				switch h.Op {
				case "gen":
					if accepted {
						if res.Exit != 0 {
							fail(k, "gen failed on an accepted variant", res.Stderr)
							return
						}
						if c18NoOutput[cur] && got != nil {
							// reported once per history; the replay goes on with the file wire left behind
							if !staleReported {
								staleReported = true
								fail(k, "stale output survives a successful gen of a package without injectors (a fresh checkout has no such file)", fmt.Sprintf("wire_gen.go still holds %d bytes", len(got)))
								violated = false
							}
							file = got
							break
						}
						if string(got) != string(ref[cur]) {
							fail(k, "after a successful gen the file differs from the fresh-checkout output of the current sources", fmt.Sprintf("got %d bytes, want %d bytes\n--- got\n%s", len(got), len(ref[cur]), got))
							return
						}
						file = got
					} else {
						if res.Exit == 0 {
							fail(k, "gen succeeded on a rejected variant", res.Stderr)
							return
						}
						if string(got) != string(file) || (got == nil) != (file == nil) {
							fail(k, "a failed gen changed the output file", res.Stderr)
							return
						}
					}
				case "diff":
					if c18NoOutput[cur] {
						// nothing to generate: with no file there is no difference; whether a
						// stale file that nothing replaces should be flagged is not claimed
						if file == nil && res.Exit != 0 {
							fail(k, fmt.Sprintf("diff exit status %d on a package without injectors and without output, want 0", res.Exit), res.Stdout+res.Stderr)
							return
						}
						break
					}
					want := 2
					if accepted {
						want = 1
						if file != nil && string(file) == string(ref[cur]) {
							want = 0
						}
					}
					if res.Exit != want {
						fail(k, fmt.Sprintf("diff exit status %d, want %d", res.Exit, want), res.Stdout+res.Stderr)
						return
					}
				case "check":
					if (res.Exit == 0) != accepted {
						fail(k, fmt.Sprintf("check exit status %d on a variant that is accepted=%v", res.Exit, accepted), res.Stderr)
						return
					}
				}
			}
			mu.Lock()
			transitions[tr] = true
			mu.Unlock()
		}
		mu.Lock()
		rep.Evaluations++
		rep.Count("histories_replayed", 1)
		rep.Count("steps_replayed", len(hs))
		if len(rep.Samples) < 3 {
			rep.Sample(map[string]interface{}{"history": fmt.Sprint(hs), "log": log})
		}
		mu.Unlock()
	})
	for t := range transitions {
		rep.Sigs[t] = true
	}
	return rep.Finish(t0)
}
