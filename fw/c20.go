package fw

import (
	"fmt"
	"path/filepath"
	"strings"
	"time"
)

const c20Prelude = `package app

import (
	"unsafe"

	"github.com/google/wire"
)

var _ unsafe.Pointer
var _ = wire.NewSet

type A struct{ X int }
type B struct {
	A A
	P *A
}
type N int
type I interface{ M() }
type I2 interface{ I }

func (A) M() {}

type G[T any] struct{ V T }
type AliasB = B
type Fn func() A

func NewA() A                 { return A{} }
func NewPA() *A               { return &A{} }
func NewB(a A, p *A) B        { return B{A: a, P: p} }
func NewI() I                 { return A{} }
func NewG[T any]() G[T]       { return G[T]{} }
func NewN() N                 { return 0 }
func NewErrA() (A, error)     { return A{}, nil }
func mkSet() wire.ProviderSet { return wire.NewSet(NewA) }
func two() (wire.ProviderSet, wire.ProviderSet) {
	return wire.NewSet(NewA), wire.NewSet(NewPA)
}

var (
	VarA      = A{X: 1}
	PtrA      = &A{}
	PtrB      = &B{}
	PtrPtrB   = new(*B)
	IfacePtr  = new(I)
	FnVar     = NewA
	FnTyped   Fn = NewA
	Funcs     = []func() A{NewA}
	Holder    = struct{ F func() A }{NewA}
	Names     = []string{"A"}
	Members   = []interface{}{NewA}
	NameVar   = "A"
	IVal    I = A{}
	Ch        = make(chan A, 1)
)

const ConstS = "A"
const ConstN = 7

var Set1, Set2 = wire.NewSet(NewA), wire.NewSet(NewPA)
var SetAlias = Set1
var SetCall = mkSet()
var Empty wire.ProviderSet
var (
	Grouped = wire.NewSet(NewA, NewPA)
)
`

type formCase struct {
	Name       string
	Imports    string // import block of the injector file ("" = standard wire import)
	Body       string // declarations after the imports
	Documented bool   // documented spelling: exit 0 must come with output
	Slot       string
}

const stdImport = "import \"github.com/google/wire\"\n"

// injector wraps a Build argument list into a documented injector returning result.
func inj(result, zero, args string) string {
	return fmt.Sprintf("func Init() %s {\n\twire.Build(%s)\n\treturn %s\n}\n", result, args, zero)
}

func c20Forms() []formCase {
	var fs []formCase
	add := func(slot, name, body string) {
		fs = append(fs, formCase{Name: name, Body: body, Slot: slot})
	}
	// ---- Build / NewSet member forms
	members := map[string]string{
		"func-ident": "NewA", "nil": "nil", "true": "true", "const-string": "ConstS", "const-int": "ConstN",
		"lit-string": `"x"`, "lit-int": "42", "lit-float": "3.5", "lit-rune": "'c'", "var-struct": "VarA", "var-ptr": "PtrA",
		"struct-literal": "A{}", "addr-struct-literal": "&A{}", "struct-literal-fields": "B{}", "alias-struct-literal": "AliasB{}",
		"method-value": "VarA.M", "method-expr": "A.M", "func-literal": "func() A { return A{} }",
		"conversion": "A(VarA)", "nil-ptr-conversion": "(*A)(nil)", "new": "new(A)", "paren-func": "(NewA)", "paren-paren-func": "((NewA))",
		"call-returning-set": "mkSet()", "func-var": "FnVar", "typed-func-var": "FnTyped", "index-expr": "Funcs[0]", "field-func": "Holder.F",
		"generic-instantiation": "NewG[int]", "inline-newset": "wire.NewSet(NewA)", "empty-newset": "wire.NewSet(), NewA",
		"nested-build": "wire.Build(NewA)", "set-multiname": "Set1", "set-multivalue": "S1", "set-multivalue-2": "S2", "set-alias": "SetAlias",
		"set-from-call": "SetCall", "set-empty-var": "Empty, NewA", "set-grouped": "Grouped", "paren-set": "(Set1)",
		"anon-struct-literal": "struct{ X int }{}", "generic-struct-literal": "G[int]{}", "map-literal": "map[string]A{}",
		"slice-literal": "[]A{}", "chan-var": "Ch", "unary": "-ConstN", "binary": "ConstN + 1", "star": "*PtrA",
		"type-assert": "IVal.(A)", "builtin-len": "len(Names)", "iface-var": "IVal", "struct-literal-paren": "(A{})",
		"value-call-direct": "wire.Value(VarA)", "two-funcs-same": "NewA, NewA",
	}
	for _, k := range sortedStrKeys(members) {
		arg := members[k]
		pre := ""
		if strings.HasPrefix(k, "set-multivalue") {
			pre = "var S1, S2 = two()\n\n"
		}
		add("build-member", "member/"+k+"/direct", pre+inj("A", "A{}", arg))
		add("build-member", "member/"+k+"/in-set-var", pre+"var TheSet = wire.NewSet("+arg+")\n\n"+inj("A", "A{}", "TheSet"))
		add("build-member", "member/"+k+"/nested-inline", pre+inj("A", "A{}", "wire.NewSet(wire.NewSet("+arg+"))"))
	}
	// ---- how a provider set variable is initialised
	setInits := map[string]string{
		"composite-literal": "wire.ProviderSet{}", "deref-new": "*new(wire.ProviderSet)", "paren-newset": "(wire.NewSet(NewA))",
		"index-of-array": "[1]wire.ProviderSet{wire.NewSet(NewA)}[0]", "call": "mkSet()", "other-var": "Set1", "conversion": "wire.ProviderSet(Set1)",
		"func-literal-call": "func() wire.ProviderSet { return wire.NewSet(NewA) }()", "field": "struct{ S wire.ProviderSet }{Set1}.S",
	}
	for _, k := range sortedStrKeys(setInits) {
		add("set-var-init", "set-var-init/"+k+"/used", "var SV = "+setInits[k]+"\n\n"+inj("A", "A{}", "SV, NewPA"))
		add("set-var-init", "set-var-init/"+k+"/unreferenced", "var SV = "+setInits[k]+"\n\n"+inj("A", "A{}", "NewA"))
	}
	add("set-var-init", "set-var-init/pointer-to-set", "var SVp = &Set1\n\n"+inj("A", "A{}", "*SVp"))
	add("set-var-init", "set-var-init/typed-decl", "var SV wire.ProviderSet = wire.NewSet(NewA)\n\n"+inj("A", "A{}", "SV"))
	add("build-member", "member/spread", "func Init() A {\n\twire.Build(Members...)\n\treturn A{}\n}\n")
	add("build-member", "member/local-var-set", "func Init() A {\n\ts := wire.NewSet(NewA)\n\twire.Build(s)\n\treturn A{}\n}\n")
	// ---- Struct
	structArg0 := map[string]string{
		"new": "new(B)", "addr-composite": "&B{}", "nil-conversion": "(*B)(nil)", "ptr-var": "PtrB", "new-anon-struct": "new(struct{ A A })",
		"new-generic": "new(G[A])", "new-ptr-to-ptr": "new(*B)", "new-non-struct": "new(N)", "paren-new": "(new(B))", "non-pointer": "B{}",
		"nil": "nil", "new-alias": "new(AliasB)", "ptrptr-var": "PtrPtrB", "new-iface": "new(I)", "string": `"B"`,
	}
	for _, k := range sortedStrKeys(structArg0) {
		add("struct-arg0", "struct-arg0/"+k+"/star", inj("B", "B{}", "NewA, NewPA, wire.Struct("+structArg0[k]+`, "*")`))
		add("struct-arg0", "struct-arg0/"+k+"/names", inj("B", "B{}", "NewA, wire.Struct("+structArg0[k]+`, "A")`))
		add("struct-arg0", "struct-arg0/"+k+"/no-names", inj("B", "B{}", "wire.Struct("+structArg0[k]+")"))
	}
	names := map[string]string{
		"literal": `"A"`, "const": "ConstS", "concat": `"A" + ""`, "raw-string": "`A`", "spread": "Names...", "var": "NameVar",
		"star-and-name": `"*", "A"`, "raw-star": "`*`", "paren": `("A")`, "conversion": `string("A")`, "dup": `"A", "A"`,
		"unknown": `"Nope"`, "empty": `""`, "const-star": "ConstStar",
		"dup-longer-than-struct": `"A", "P", "A"`, "dup-four": `"A", "A", "A", "A"`, "star-twice": `"*", "*"`, "name-then-star": `"A", "*"`,
		"all-then-dup-last": `"A", "P", "P"`, "unknown-after-all": `"A", "P", "Nope"`, "five-names": `"P", "A", "P", "A", "P"`,
	}
	for _, k := range sortedStrKeys(names) {
		pre := ""
		if k == "const-star" {
			pre = "const ConstStar = \"*\"\n\n"
		}
		add("struct-names", "struct-names/"+k, pre+inj("B", "B{}", "NewA, NewPA, wire.Struct(new(B), "+names[k]+")"))
		add("fields-names", "fields-names/"+k, pre+inj("A", "A{}", "NewB, NewPA, wire.Value(A{X: 2}), wire.FieldsOf(new(B), "+names[k]+")")+"\n")
	}
	// ---- something is missing below a field selection, a binding, a struct provider: the
	// planner gives up on the parent and has to give up on what hangs on it as well
	{
		pre := "type DSN string\n\ntype Port int\n\ntype Config struct{ Port Port }\n\nfunc NewConfig(d DSN) *Config { return &Config{Port: Port(len(d))} }\n\ntype Conf struct{ Port Port }\n\nfunc NewConf(d DSN) Conf { return Conf{} }\n\ntype PortUser struct{ P *Port }\n\ntype Porter interface{ PortNumber() int }\n\nfunc (Port) PortNumber() int { return 0 }\n\n"
		add("missing-below", "missing-below/fieldsof-pointer-parent", pre+inj("Port", "0", "NewConfig, wire.FieldsOf(new(*Config), \"Port\")"))
		add("missing-below", "missing-below/fieldsof-pointer-to-field", pre+inj("*Port", "nil", "NewConfig, wire.FieldsOf(new(*Config), \"Port\")"))
		add("missing-below", "missing-below/fieldsof-value-parent", pre+inj("Port", "0", "NewConf, wire.FieldsOf(new(Conf), \"Port\")"))
		add("missing-below", "missing-below/fieldsof-then-struct", pre+inj("PortUser", "PortUser{}", "NewConfig, wire.FieldsOf(new(*Config), \"Port\"), wire.Struct(new(PortUser), \"*\")"))
		add("missing-below", "missing-below/fieldsof-then-bind", pre+inj("Porter", "nil", "NewConfig, wire.FieldsOf(new(*Config), \"Port\"), wire.Bind(new(Porter), new(Port))"))
		add("missing-below", "missing-below/struct-then-fieldsof", pre+inj("Port", "0", "wire.Struct(new(Conf), \"*\"), wire.FieldsOf(new(Conf), \"Port\")"))
	}
	// ---- providers declared outside the user's sources (standard library): the diagnostic must
	// still point into the user's file
	foreign := map[string]string{
		"std-func-no-result":      "os.Exit",
		"std-func-dup-params":     "strings.Replace",
		"std-struct-star":         "wire.Struct(new(url.URL), \"*\")",
		"std-struct-literal":      "url.URL{}",
		"std-func-four-results":   "net.SplitHostPort, strconv.ParseFloat",
		"std-func-second-not-err": "strings.Cut",
		"std-var-pointer":         "os.Stdout",
		"std-var-error":           "os.ErrNotExist",
		"std-var-func-typed":      "strconv.ErrSyntax, os.Args",
	}
	for _, k := range sortedStrKeys(foreign) {
		imp := "import (\n\t\"net\"\n\t\"net/url\"\n\t\"os\"\n\t\"strconv\"\n\t\"strings\"\n\n\t\"github.com/google/wire\"\n)\n\nvar _ = net.SplitHostPort\nvar _ = url.Parse\nvar _ = os.Exit\nvar _ = strconv.Itoa\nvar _ = strings.Cut\n"
		fs = append(fs, formCase{Name: "foreign-decl/" + k + "/direct", Slot: "foreign-decl", Imports: imp, Body: inj("A", "A{}", "NewA, "+foreign[k])})
		fs = append(fs, formCase{Name: "foreign-decl/" + k + "/in-unused-set-var", Slot: "foreign-decl", Imports: imp, Body: "var ForeignSet = wire.NewSet(" + foreign[k] + ")\n\n" + inj("A", "A{}", "NewA")})
	}
	// ... the same declarations named through a DOT import (a bare identifier) and a renamed one
	foreignDot := map[string]string{
		"std-func-no-result":      "Exit",
		"std-func-dup-params":     "Replace",
		"std-func-second-not-err": "Cut",
		"std-var-pointer":         "Stdout",
		"std-func-four-results":   "ParseFloat",
	}
	for _, k := range sortedStrKeys(foreignDot) {
		imp := "import (\n\t. \"os\"\n\t. \"strconv\"\n\t. \"strings\"\n\n\t\"github.com/google/wire\"\n)\n\nvar _ = Exit\nvar _ = Itoa\nvar _ = Cut\n"
		fs = append(fs, formCase{Name: "foreign-decl-dot-import/" + k + "/direct", Slot: "foreign-decl", Imports: imp, Body: inj("A", "A{}", "NewA, "+foreignDot[k])})
		fs = append(fs, formCase{Name: "foreign-decl-dot-import/" + k + "/in-set-var", Slot: "foreign-decl", Imports: imp, Body: "var ForeignSet = wire.NewSet(" + foreignDot[k] + ")\n\n" + inj("A", "A{}", "NewA, ForeignSet")})
		impR := "import (\n\tsys \"os\"\n\tconv \"strconv\"\n\tstr \"strings\"\n\n\t\"github.com/google/wire\"\n)\n\nvar _ = sys.Exit\nvar _ = conv.Itoa\nvar _ = str.Cut\n"
		q := map[string]string{"Exit": "sys.Exit", "Replace": "str.Replace", "Cut": "str.Cut", "Stdout": "sys.Stdout", "ParseFloat": "conv.ParseFloat"}[foreignDot[k]]
		fs = append(fs, formCase{Name: "foreign-decl-renamed-import/" + k + "/direct", Slot: "foreign-decl", Imports: impR, Body: inj("A", "A{}", "NewA, "+q)})
	}
	// ---- struct tags: any string is a legal tag
	tags := map[string]string{
		"unterminated-value": "\"wire:\\\"-\"", "no-quotes": "`wire:-`", "key-only": "`wire`", "empty-value": "`wire:\"\"`", "open-quote-only": "`wire:\"`",
		"leading-space": "` wire:\"-\"`", "colon-only": "`:`", "escaped-quote-in-other-key": "`json:\"a\\\"b\" wire:\"-\"`", "tab-separated": "\"json:\\\"x\\\"\\twire:\\\"-\\\"\"",
		"newline-in-tag": "\"wire:\\\"-\\\"\\n\"", "nul-in-tag": "\"wire:\\\"-\\x00\\\"\"", "very-long": "`" + strings.Repeat("k:\"v\" ", 200) + "wire:\"-\"`",
	}
	for _, k := range sortedStrKeys(tags) {
		decl := "type Tagged struct {\n\tA A\n\tM map[string]int " + tags[k] + "\n}\n\nfunc NewM() map[string]int { return nil }\n\n"
		add("struct-tags", "struct-tags/"+k+"/star", decl+inj("Tagged", "Tagged{}", "NewA, NewM, wire.Struct(new(Tagged), \"*\")"))
		add("struct-tags", "struct-tags/"+k+"/named", decl+inj("Tagged", "Tagged{}", "NewA, NewM, wire.Struct(new(Tagged), \"A\", \"M\")"))
		add("struct-tags", "struct-tags/"+k+"/fields", decl+"func NewTagged() Tagged { return Tagged{} }\n\n"+inj("map[string]int", "nil", "NewTagged, wire.FieldsOf(new(Tagged), \"M\")"))
	}
	// ---- FieldsOf arg0
	fieldsArg0 := map[string]string{
		"new": "new(B)", "new-ptr": "new(*B)", "addr-composite": "&B{}", "new-ptr-int": "new(*int)", "new-int": "new(int)",
		"new-ptrptr": "new(**B)", "nil": "nil", "ptr-var": "PtrB", "ptrptr-var": "PtrPtrB", "new-generic": "new(G[A])", "new-anon": "new(struct{ A A })",
		"non-pointer": "B{}", "new-alias": "new(AliasB)", "new-iface": "new(I)", "paren-new": "(new(B))", "nil-conversion": "(*B)(nil)",
	}
	for _, k := range sortedStrKeys(fieldsArg0) {
		add("fields-arg0", "fields-arg0/"+k, inj("A", "A{}", "NewB, NewPA, wire.Value(A{X: 2}), wire.FieldsOf("+fieldsArg0[k]+`, "A")`))
		add("fields-arg0", "fields-arg0/"+k+"/unknown-name", inj("A", "A{}", "wire.FieldsOf("+fieldsArg0[k]+`, "x")`))
		add("fields-arg0", "fields-arg0/"+k+"/many-names", inj("A", "A{}", "wire.FieldsOf("+fieldsArg0[k]+`, "A", "P", "A", "P")`))
	}
	// ---- Bind
	bind0 := map[string]string{"new-iface": "new(I)", "nil-conversion": "(*I)(nil)", "new-struct": "new(A)", "nil": "nil", "iface-nil": "I(nil)", "var": "IfacePtr",
		"new-embedding-iface": "new(I2)", "new-empty-iface": "new(interface{})", "paren": "(new(I))", "new-ptr-iface": "new(*I)", "string": `"I"`}
	bind1 := map[string]string{"new-struct": "new(A)", "addr-composite": "&A{}", "value": "VarA", "nil": "nil", "new-ptr": "new(*A)", "var": "PtrA",
		"nil-conversion": "(*A)(nil)", "new-iface": "new(I)", "new-other": "new(N)", "paren": "(new(A))", "string": `"A"`,
		"new-unrelated-iface": "new(interface{ Other() })", "new-empty-iface": "new(interface{})", "new-wider-iface": "new(interface{ M(); Extra() })",
		"new-error": "new(error)", "new-func-type": "new(func())", "new-chan": "new(chan int)", "new-unnamed-struct": "new(struct{ A })", "new-ptr-to-iface": "new(*I)"}
	for _, k0 := range sortedStrKeys(bind0) {
		for _, k1 := range sortedStrKeys(bind1) {
			if k0 != "new-iface" && k1 != "new-struct" {
				continue
			}
			add("bind", "bind/"+k0+"/"+k1, inj("I", "nil", "NewA, NewPA, wire.Bind("+bind0[k0]+", "+bind1[k1]+")"))
		}
	}
	// ---- Value / InterfaceValue argument forms (crash monitor only here; semantics in C13)
	vals := map[string]string{"nil": "nil", "var": "VarA", "ptr-var": "PtrA", "func-ident": "NewA", "func-call": "NewA()", "typed-func-call": "FnTyped()",
		"method-call": "VarA.M", "lit": `"s"`, "untyped-const": "ConstN", "iface-var": "IVal", "recv": "<-Ch", "func-lit": "func() {}", "new": "new(A)",
		"generic-lit": "G[int]{}", "anon-struct": "struct{ X int }{X: 1}", "conversion": "N(3)", "unsafe-ptr": "unsafe.Pointer(nil)", "complex": "complex(1, 2)",
		"wire-set": "Set1", "nested-value": "wire.Value(1)", "type-assert": "IVal.(A)", "index": "Names[0]", "slice": "Names[:1]", "deref": "*PtrA", "addr": "&VarA",
		"map-lit": "map[string]int{\"a\": 1}", "chan-var": "Ch", "array-ellipsis": "[...]int{1, 2}", "iota-const": "ConstN << 2", "paren": "(VarA)"}
	for _, k := range sortedStrKeys(vals) {
		imp := ""
		if strings.Contains(vals[k], "unsafe.") {
			imp = "import (\n\t\"unsafe\"\n\n\t\"github.com/google/wire\"\n)\n"
		}
		fs = append(fs, formCase{Name: "value/" + k, Slot: "value", Imports: imp, Body: "func Init() interface{} {\n\twire.Build(wire.Value(" + vals[k] + "), NewUser)\n\treturn nil\n}\n\ntype User struct{}\n\nfunc NewUser() interface{} { return User{} }\n"})
		fs = append(fs, formCase{Name: "ifacevalue/" + k, Slot: "ifacevalue", Imports: imp, Body: inj("I", "nil", "wire.InterfaceValue(new(I), "+vals[k]+")")})
		fs = append(fs, formCase{Name: "ifacevalue-arg0/" + k, Slot: "ifacevalue", Imports: imp, Body: inj("I", "nil", "wire.InterfaceValue("+vals[k]+", VarA)")})
		fs = append(fs, formCase{Name: "ifacevalue-any/" + k, Slot: "ifacevalue", Imports: imp, Body: inj("interface{}", "nil", "wire.InterfaceValue(new(interface{}), "+vals[k]+")")})
	}
	// ---- how wire is imported
	for _, k := range []string{"Build(NewA)", "Build(Struct(new(B), \"*\"), NewA, NewPA)", "Build(NewA, NewPA, Bind(new(I), new(A)))", "Build(Value(VarA))",
		"Build(InterfaceValue(new(I), VarA))", "Build(NewB, NewPA, Value(A{X: 2}), FieldsOf(new(B), \"A\"))", "Build(NewSet(NewA))"} {
		res, zero := "A", "A{}"
		if strings.Contains(k, "Bind") || strings.Contains(k, "InterfaceValue") {
			res, zero = "I", "nil"
		}
		if strings.Contains(k, "Struct") {
			res, zero = "B", "B{}"
		}
		fs = append(fs, formCase{Name: "dot-import/" + k, Slot: "import-form", Imports: "import . \"github.com/google/wire\"\n", Body: fmt.Sprintf("func Init() %s {\n\t%s\n\treturn %s\n}\n", res, k, zero)})
		q := strings.NewReplacer("Build(", "w.Build(", "Struct(", "w.Struct(", "Bind(", "w.Bind(", "Value(", "w.Value(", "InterfaceValue(", "w.InterfaceValue(", "FieldsOf(", "w.FieldsOf(", "NewSet(", "w.NewSet(").Replace(k)
		q = strings.ReplaceAll(q, "w.Interfacew.Value(", "w.InterfaceValue(")
		fs = append(fs, formCase{Name: "alias-import/" + k, Slot: "import-form", Imports: "import w \"github.com/google/wire\"\n", Body: fmt.Sprintf("func Init() %s {\n\t%s\n\treturn %s\n}\n", res, q, zero), Documented: true})
	}
	// ---- injector forms
	injForms := map[string]string{
		"documented-return":          "func Init() A {\n\twire.Build(NewA)\n\treturn A{}\n}\n",
		"documented-panic":           "func Init() A {\n\tpanic(wire.Build(NewA))\n}\n",
		"method-injector":            "type Recv struct{}\n\nfunc (Recv) Init() A {\n\twire.Build(NewA)\n\treturn A{}\n}\n",
		"generic-injector":           "func Init[T any]() A {\n\twire.Build(NewA)\n\treturn A{}\n}\n",
		"named-results":              "func Init() (a A, err error) {\n\twire.Build(NewErrA)\n\treturn\n}\n",
		"extra-statement":            "func Init() A {\n\tx := 1\n\t_ = x\n\twire.Build(NewA)\n\treturn A{}\n}\n",
		"two-builds":                 "func Init() A {\n\twire.Build(NewA)\n\twire.Build(NewA)\n\treturn A{}\n}\n",
		"build-no-args":              "func Init(a A) A {\n\twire.Build()\n\treturn a\n}\n",
		"build-no-args-2":            "func Init() A {\n\twire.Build()\n\treturn A{}\n}\n",
		"variadic-injector":          "func Init(as ...A) []A {\n\twire.Build()\n\treturn nil\n}\n",
		"blank-name":                 "func _() A {\n\twire.Build(NewA)\n\treturn A{}\n}\n",
		"no-result":                  "func Init() {\n\twire.Build(NewA)\n}\n",
		"four-results":               "func Init() (A, func(), error, int) {\n\tpanic(wire.Build(NewA))\n}\n",
		"result-only-error":          "func Init() error {\n\tpanic(wire.Build(NewA))\n}\n",
		"build-in-assign":            "func Init() A {\n\t_ = wire.Build(NewA)\n\treturn A{}\n}\n",
		"build-in-if":                "func Init() A {\n\tif true {\n\t\twire.Build(NewA)\n\t}\n\treturn A{}\n}\n",
		"build-in-closure":           "func Init() A {\n\tfunc() { wire.Build(NewA) }()\n\treturn A{}\n}\n",
		"panic-two-args":             "func Init() A {\n\tpanic(wire.Build(NewA))\n\treturn A{}\n}\n",
		"empty-stmts":                "func Init() A {\n\t;\n\twire.Build(NewA);\n\t;\n\treturn A{}\n}\n",
		"panic-paren":                "func Init() A {\n\tpanic((wire.Build(NewA)))\n}\n",
		"paren-stmt":                 "func Init() A {\n\t(wire.Build(NewA))\n\treturn A{}\n}\n",
		"panic-paren-next-to-normal": "func Init() A {\n\twire.Build(NewA)\n\treturn A{}\n}\n\nfunc Init2() *A {\n\tpanic((wire.Build(NewPA)))\n}\n",
		"paren-stmt-next-to-normal":  "func Init() A {\n\twire.Build(NewA)\n\treturn A{}\n}\n\nfunc Init2() *A {\n\t(wire.Build(NewPA))\n\treturn nil\n}\n",
		"unsafe-result":              "func Init() (unsafe.Pointer, error) {\n\tpanic(wire.Build(NewUP))\n}\n\nfunc NewUP() (unsafe.Pointer, error) { return nil, nil }\n",
		"param-blank":                "func Init(_ A, _ *A) B {\n\tpanic(wire.Build(NewB))\n}\n",
		"param-unnamed":              "func Init(A, *A) B {\n\tpanic(wire.Build(NewB))\n}\n",
		"result-func-type":           "func Init() func() {\n\tpanic(wire.Build(NewCF))\n}\n\nfunc NewCF() func() { return nil }\n",
		"result-iface-empty":         "func Init() (interface{}, error) {\n\tpanic(wire.Build(NewAny))\n}\n\nfunc NewAny() (interface{}, error) { return nil, nil }\n",
		"generic-decl-copied":        "type Pair[K comparable, V any] struct {\n\tK K\n\tV V\n}\n\nfunc Init() A {\n\twire.Build(NewA)\n\treturn A{}\n}\n",
		"generic-use-copied":         "var pairs = map[string]Pair2[int, string]{}\n\ntype Pair2[K comparable, V any] struct {\n\tK K\n\tV V\n}\n\nfunc Init() A {\n\twire.Build(NewA)\n\treturn A{}\n}\n",
		"generic-func-copied":        "func Map[T, U any](xs []T, f func(T) U) []U {\n\tvar r []U\n\tfor _, x := range xs {\n\t\tr = append(r, f(x))\n\t}\n\treturn r\n}\n\nfunc Init() A {\n\twire.Build(NewA)\n\treturn A{}\n}\n",
	}
	for _, k := range sortedStrKeys(injForms) {
		imp := ""
		if strings.Contains(injForms[k], "unsafe.") {
			imp = "import (\n\t\"unsafe\"\n\n\t\"github.com/google/wire\"\n)\n"
		}
		fs = append(fs, formCase{Name: "injector/" + k, Slot: "injector-form", Imports: imp, Body: injForms[k], Documented: strings.HasPrefix(k, "documented")})
	}
	return fs
}

func sortedStrKeys(m map[string]string) []string {
	var r []string
	for k := range m {
		r = append(r, k)
	}
	for i := 1; i < len(r); i++ {
		for j := i; j > 0 && r[j] < r[j-1]; j-- {
			r[j], r[j-1] = r[j-1], r[j]
		}
	}
	return r
}

func formProgram(id string, fc formCase) *Program {
	p := &Program{ID: id, Module: ModulePath, Pkgs: []*Pkg{{Name: "app", Dir: "app"}}, Extra: map[string]string{}, Feat: map[string]string{"slot": fc.Slot, "form": fc.Name}}
	p.Extra["0/prelude.go"] = c20Prelude
	imp := fc.Imports
	if imp == "" {
		imp = stdImport
	}
	p.Extra["0/wire.go"] = "//go:build wireinject\n// +build wireinject\n\npackage app\n\n" + imp + "\n" + fc.Body
	p.Note = fc.Name
	return p
}

// judgeForm applies the C20 oracle to one form.
func judgeForm(rep *Report, fc formCase, pr *ProgResult, root string) {
	sig := fc.Slot + ":" + fc.Name
	if pr.PreBad != "" {
		// the form does not type-check in this slot: not part of the space
		rep.Count("forms_not_type_correct_dropped", 1)
		return
	}
	if pr.Incon != "" {
		rep.Incon = append(rep.Incon, pr.P.ID+": "+pr.Incon)
		return
	}
	if pr.Outcome == nil {
		pr.Outcome = &PkgOutcome{}
	}
	violate := func(clause, witness, sigx string) {
		files := pr.Files
		if files == nil {
			files = pr.P.Files(false)
		}
		rep.Violate(pr.P.ID, Issue{Prop: "C20", Clause: clause, Witness: witness, Sig: "C20:" + sigx + ":" + fc.Name}, files, map[string]string{"form.txt": fc.Name + "\n\n" + fc.Body, "wire_stderr.txt": pr.GenStderr})
	}
	if pr.Crash != "" {
		violate("panic instead of a diagnostic", pr.Crash, "panic")
		return
	}
	wrote := pr.Outcome.Wrote
	failed := pr.Outcome.Failed
	switch {
	case failed || len(pr.Outcome.Diags) > 0:
		rep.Count("forms_rejected", 1)
		positioned := 0
		for _, d := range pr.Outcome.Diags {
			if d.Pos != "" {
				positioned++
			}
		}
		if positioned == 0 {
			violate("rejected without a diagnostic that carries a file:line:column position in the user's sources", pr.GenStderr, "unpositioned")
			return
		}
		if wrote {
			violate("diagnostics and output for the same package", pr.GenStderr, "both")
			return
		}
	case wrote:
		rep.Count("forms_accepted", 1)
	default:
		rep.Count("forms_silently_ignored", 1)
		if fc.Documented {
			violate("documented injector spelling: exit 0 with neither output nor message", pr.GenStderr, "silent")
			return
		}
	}
	// wire check on the same tree: must not crash (handled above) and must position its diagnostics
	if pr.CheckRan {
		for _, d := range pr.CheckDiags {
			if d.Pos == "" {
				violate("wire check diagnostic without a position", d.Text, "check-unpositioned")
				return
			}
		}
	}
	rep.Held(sig)
	if len(rep.Samples) < 4 && (failed || len(pr.Outcome.Diags) > 0) {
		rep.Sample(map[string]interface{}{"form": fc.Name, "diagnostic": firstN(pr.GenStderr, 300)})
	}
	_ = filepath.Join
}

// CheckC20 — diagnostics, not crashes.
func CheckC20(e *Env) int {
	t0 := time.Now()
	rep := NewReport(e, "C20", "exploration", "enumerated form space: for every argument slot of the marker functions (Build/NewSet member, Struct arg 0 and names, FieldsOf arg 0 and names, Bind arg 0/1, Value, InterfaceValue arg 0/1) the expression forms that type-check there (identifiers of every object kind, nil, literals, address-of, conversions, anonymous/generic/pointer-to-pointer types, non-literal and raw-string names, spread, aliased and dot-imported wire, multi-name / multi-value set variables) x context {direct, set variable, nested inline}; injector declaration forms; every Go type kind as injector result with a failing provider; each alone in a package under gen and check; oracle: no panic/fatal error, a rejection carries a positioned diagnostic, no silent exit for documented spellings; forms that do not type-check are dropped; distinct = form")
	forms := c20Forms()
	var progs []*Program
	byID := map[string]formCase{}
	for i, fc := range forms {
		if e.Tier != "thorough" && strings.HasSuffix(fc.Name, "/nested-inline") && i%3 != 0 {
			continue
		}
		id := fmt.Sprintf("fm%04d", i)
		progs = append(progs, formProgram(id, fc))
		byID[id] = fc
	}
	results := RunPool(e, progs, PoolOpts{Name: "c20", BatchSize: 32, AlsoCheck: true})
	for _, pr := range results {
		judgeForm(rep, byID[pr.P.ID], pr, "")
	}
	// result-kind matrix: crash monitor over every zero-value branch
	rk := RunPool(e, resultKindMatrix(e), PoolOpts{Name: "c20rk", BatchSize: 4})
	for _, pr := range rk {
		if pr.PreBad != "" {
			rep.Incon = append(rep.Incon, "harness: "+pr.P.ID+": "+firstLine(pr.PreBad))
			continue
		}
		// the same oracle as for the spelling forms: status 0 with output, or a positioned diagnostic
		before := len(rep.Violations)
		judgeForm(rep, formCase{Name: "result-kind:" + pr.P.Feat["kinds"], Documented: true}, pr, "")
		if len(rep.Violations) > before {
			continue
		}
		rep.Held("result-kind:" + pr.P.Feat["kinds"] + pr.P.Feat["typepkg"])
	}
	if e.Tier == "thorough" {
		if err := e.BuildRace(); err == nil {
			save := e.WireBin
			e.WireBin = e.RaceBin
			rr := RunPool(e, progs, PoolOpts{Name: "c20race", BatchSize: 32})
			races := 0
			for _, pr := range rr {
				if strings.Contains(pr.GenStderr, "WARNING: DATA RACE") || strings.Contains(pr.Crash, "WARNING: DATA RACE") {
					races++
				}
				if pr.Crash != "" && byID[pr.P.ID].Name != "" {
					rep.Count("race_build_crashes", 1)
				}
			}
			rep.Count("race_build_runs", len(rr))
			rep.Count("data_race_reports", races)
			e.WireBin = save
		} else {
			rep.Incon = append(rep.Incon, "race build unavailable: "+err.Error())
		}
	}
	return rep.Finish(t0)
}
